#!/usr/bin/env python3
"""Source of selftest/seeds.json and selftest/neutral.json (edit here, then run)."""
import json, os
HERE = os.path.dirname(os.path.abspath(__file__))
S = []
N = []
STORE = "memcrs/src/memory_store/store.rs"
MEMC = "memcrs/src/memcache/store.rs"
HANDLER = "memcrs/src/memcache_server/handler.rs"
CODEC = "memcrs/src/protocol/binary_codec.rs"
CONN = "memcrs/src/protocol/binary_connection.rs"
CLIENT = "memcrs/src/memcache_server/client_handler.rs"
TCP = "memcrs/src/memcache_server/memc_tcp.rs"
RB = "memcrs/src/memcache_server/runtime_builder.rs"
POLICY = "memcrs/src/memcache/random_policy.rs"
BUILDER = "memcrs/src/memcache/builder.rs"
CACHE = "memcrs/src/cache/cache.rs"
BINARY = "memcrs/src/protocol/binary.rs"
TIMER = "memcrs/src/server/timer.rs"
MAIN = "memcrs/src/bin/memcrsd.rs"
PARSER = "memcrs/src/memcache/cli/parser.rs"

def seed(id, prop, expect, what, *edits):
    S.append({"id": id, "property": prop, "expect": expect, "what": what, "edits": [dict(file=f, old=o, new=n) for f, o, n in edits]})

def neutral(id, what, *edits, properties=None):
    d = {"id": id, "what": what, "edits": [dict(file=f, old=o, new=n) for f, o, n in edits]}
    if properties:
        d["properties"] = properties
    N.append(d)

# ---------------------------------------------------------------- C01
seed("C01.R1.swap-flags-expiration", "C01", "C01.R1:set-layout", "flags/expiration read in the wrong order",
     (CODEC, "            flags: src.get_u32(),\n            expiration: src.get_u32(),", "            expiration: src.get_u32(),\n            flags: src.get_u32(),"))
seed("C01.R2.record-new-arg-swap", "C01", "C01.R2:handler:set", "Record::new(value, cas, expiration, flags)",
     (HANDLER, "            set_req.flags,\n            set_req.expiration,", "            set_req.expiration,\n            set_req.flags,"))
seed("C01.R3.value-truncated-key", "C01", "C01.R3:set", "unconditional set stores under a different key",
     (STORE, "            self.memory.insert(key, record);\n            Ok(SetStatus { cas })\n        }\n    }", "            self.memory.insert(record.value.clone(), record);\n            Ok(SetStatus { cas })\n        }\n    }"))
seed("C01.R4.flags-from-ttl", "C01", "C01.R4:handler:get:hit-response", "hit response flags <- time_to_live",
     (HANDLER, "                    flags: record.header.flags,", "                    flags: record.header.time_to_live,"))
seed("C01.R5.counter-starts-at-zero", "C01", "C01.R5:cas_id:init", "cas counter starts at 0",
     (STORE, "cas_id: AtomicU64::new(1),", "cas_id: AtomicU64::new(0),"))
seed("C01.R5.wrapping-client-token", "C01", "C01.R5:set[cas!=0,absent", "client token + 1 wraps to 0",
     (STORE, "record.header.cas = record.header.cas.saturating_add(1);", "record.header.cas = record.header.cas.wrapping_add(1);"))
seed("C01.R6.clear-in-delete", "C01", "C01.R6:", "delete clears the whole map when the key is missing",
     (STORE, "                None => Err(CacheError::NotFound),\n            },", "                None => {\n                    self.memory.clear();\n                    Err(CacheError::NotFound)\n                }\n            },"))
seed("C01.R6.memcstore-calls-remove", "C01", "C01.R6:evictor", "command layer removes items directly",
     (MEMC, "    pub fn flush(&self, header: Meta) {\n        self.store.flush(header)", "    pub fn flush(&self, header: Meta) {\n        self.store.remove(&KeyType::from(\"x\"));\n        self.store.flush(header)"))
# ---------------------------------------------------------------- C02
seed("C02.R1.compare-removed", "C02", "C02.R1:set", "CAS comparison disabled",
     (STORE, "if key_value.get().header.cas != record.header.cas {", "if false && key_value.get().header.cas != record.header.cas {"))
seed("C02.R1.delete-errors-swapped", "C02", "C02.R1:delete", "NotFound/KeyExists swapped in delete",
     (STORE, "                Some(_value) => Err(CacheError::KeyExists),\n                None => Err(CacheError::NotFound),", "                Some(_value) => Err(CacheError::NotFound),\n                None => Err(CacheError::KeyExists),"))
seed("C02.R1.delete-always", "C02", "C02.R1:delete[cas!=0,present", "delete ignores the CAS",
     (STORE, "let result = header.cas == 0 || record.header.cas == header.cas;", "let result = header.cas == 0 || record.header.cas == record.header.cas;"))
seed("C02.R2.ack-zero", "C02", "C02.R2:set[", "SetStatus reports another cas than the stored one",
     (STORE, "                        key_value.insert(record);\n                        Ok(SetStatus { cas })", "                        key_value.insert(record);\n                        Ok(SetStatus { cas: cas + 1 })"))
seed("C02.R2.handler-drops-cas", "C02", "C02.R2:handler:set", "set response does not carry the new cas",
     (HANDLER, "            Ok(status) => {\n                response_header.cas = status.cas;\n                binary_codec::BinaryResponse::Set(", "            Ok(_status) => {\n                binary_codec::BinaryResponse::Set("))
seed("C02.R3.revert-D1", "C02", "C02.R3:set[cas!=0,present,=]", "matched path issues request cas + 1 again",
     (STORE, "record.header.cas = self.get_cas_id();\n                        record.header.timestamp", "record.header.cas += 1;\n                        record.header.timestamp"))
seed("C02.R4.append-drops-cas", "C02", "C02.R4:MemcStore::append", "append does not forward the request cas",
     (MEMC, "                record.header.cas = new_record.header.cas;\n                let mut value =\n                    BytesMut::with_capacity(record.value.len() + new_record.value.len());\n                value.extend_from_slice(&record.value);", "                record.header.cas = 0;\n                let mut value =\n                    BytesMut::with_capacity(record.value.len() + new_record.value.len());\n                value.extend_from_slice(&record.value);"))
# ---------------------------------------------------------------- C03
seed("C03.R1.revert-D3", "C03", "C03.R1:MemoryStore::set", "absent-key CAS store: lookup then separately locked insert",
     (STORE, "            match self.memory.entry(key) {\n                Entry::Occupied(mut key_value) => {\n                    if key_value.get().header.cas != record.header.cas {", "            match self.memory.get_mut(&key) {\n                Some(mut key_value) => {\n                    if key_value.header.cas != record.header.cas {"),
     (STORE, "                        key_value.insert(record);", "                        *key_value = record;"),
     (STORE, "                Entry::Vacant(vacant) => {", "                None => {"),
     (STORE, "                    vacant.insert(record);", "                    self.memory.insert(key, record);"),
     (STORE, "use dashmap::mapref::entry::Entry;\n", ""))
seed("C03.R1.revert-D2", "C03", "C03.R1:Cache::get@MemoryStore", "lazy expiry removes by name again",
     (STORE, "        self.memory.remove_if(key, |_key, stored| {\n            stored.header.cas == record.header.cas\n                && stored.header.timestamp == record.header.timestamp\n        });\n        true", "        self.memory.remove(key);\n        true"))
seed("C03.R2.compare-on-clone", "C03", "C03.R", "CAS comparison on a separately locked read, then replace",
     (STORE, "            match self.memory.entry(key) {\n                Entry::Occupied(mut key_value) => {\n                    if key_value.get().header.cas != record.header.cas {", "            let seen = self.memory.get(&key).map(|r| r.header.cas);\n            match self.memory.entry(key) {\n                Entry::Occupied(mut key_value) => {\n                    if seen != Some(record.header.cas) {"))
seed("C03.R3.load-store-counter", "C03", "C03.R3:get_cas_id", "counter advanced by load + store",
     (STORE, "        self.cas_id.fetch_add(1, Ordering::Release)", "        let v = self.cas_id.load(Ordering::Acquire);\n        self.cas_id.store(v + 1, Ordering::Release);\n        v"))
# ---------------------------------------------------------------- C04
seed("C04.R1.new-touch-command", "C04", "C04.R1:MemcStore::touch", "a new get+set command",
     (MEMC, "    pub fn delete(&self, key: KeyType, header: Meta) -> Result<Record> {", "    pub fn touch(&self, key: KeyType, ttl: u32) -> Result<SetStatus> {\n        match self.get(&key) {\n            Ok(mut record) => {\n                record.header.time_to_live = ttl;\n                record.header.cas = 0;\n                self.set(key, record)\n            }\n            Err(err) => Err(err),\n        }\n    }\n\n    pub fn delete(&self, key: KeyType, header: Meta) -> Result<Record> {"))
seed("C04.R1.set-becomes-composite", "C04", "C04.R1:MemcStore::set", "MemcStore::set rewritten as get + set",
     (MEMC, "    pub fn set(&self, key: KeyType, record: Record) -> Result<SetStatus> {\n        self.store.set(key, record)", "    pub fn set(&self, key: KeyType, record: Record) -> Result<SetStatus> {\n        if self.store.get(&key).is_err() && record.header.cas != 0 {\n            return Err(CacheError::NotFound);\n        }\n        self.store.set(key, record)"))
# ---------------------------------------------------------------- C05
seed("C05.R1.ge", "C05", "C05.R1:", "expiry predicate uses >=",
     (STORE, "if record.header.timestamp + (record.header.time_to_live as u64) > current_time {", "if record.header.timestamp + (record.header.time_to_live as u64) >= current_time {"))
seed("C05.R1.no-zero-ttl-test", "C05", "C05.R1:ttl=0", "ttl == 0 no longer means forever",
     (STORE, "        if record.header.time_to_live == 0 {\n            return false;\n        }\n", ""))
seed("C05.R2.no-stamp", "C05", "C05.R2:set[cas=0", "unconditional set does not stamp the record",
     (STORE, "            record.header.cas = cas;\n            record.header.timestamp = self.timer.timestamp();", "            record.header.cas = cas;"))
seed("C05.R3.add-uses-raw-lookup", "C05", "C05.R3:", "add tests presence without expiry",
     (MEMC, "    pub fn add(&self, key: KeyType, record: Record) -> Result<SetStatus> {\n        match self.get(&key) {", "    pub fn add(&self, key: KeyType, record: Record) -> Result<SetStatus> {\n        match self.store.get_by_key(&key) {"))
seed("C05.R3.get-ignores-expiry", "C05", "C05.R3:Cache::get", "Cache::get returns expired records",
     (CACHE, "                if self.check_if_expired(key, &record) {\n                    return Err(CacheError::NotFound);\n                }\n", "                let _ = self.check_if_expired(key, &record);\n"))
seed("C05.R4.revert-D4", "C05", "C05.R4:flush:new-ttl-independent-of-old", "delayed flush overwrites the TTL with the delay",
     (STORE, "                if value.header.time_to_live == 0 || time_to_live < value.header.time_to_live {\n                    value.header.time_to_live = time_to_live;\n                }", "                value.header.time_to_live = time_to_live;"))
seed("C05.R4.append-resets-ttl", "C05", "C05.R4:field-write", "append lengthens the item's life",
     (MEMC, "                record.value = value.freeze();\n                self.set(key, record)\n            }\n            Err(_err) => Err(CacheError::NotFound),\n        }\n    }\n\n    pub fn prepend", "                record.value = value.freeze();\n                record.header.time_to_live = 0;\n                self.set(key, record)\n            }\n            Err(_err) => Err(CacheError::NotFound),\n        }\n    }\n\n    pub fn prepend"))
seed("C05.R3.get-override-no-expiry", "C05", "C05.R3:Cache::get:hit-without-expiry-check", "MemoryStore overrides get without the expiry check",
     ('memcrs/src/memory_store/store.rs', 'impl Cache for MemoryStore {\n', 'impl Cache for MemoryStore {\n    fn get(&self, key: &KeyType) -> Result<Record> {\n        impl_details::CacheImplDetails::get_by_key(self, key)\n    }\n\n'))
# ---------------------------------------------------------------- C06
seed("C06.R1.drop-addquiet", "C06", "C06.R1:store-method:0x12", "AddQuiet treated as replace",
     (HANDLER, "opcode == binary::Command::Add as u8 || opcode == binary::Command::AddQuiet as u8", "opcode == binary::Command::Add as u8"))
seed("C06.R1.prepend-decodes-as-append", "C06", "C06.R1:decode:0x0f", "Prepend decoded as AppendQuietly",
     (CODEC, "        } else if self.header.opcode == binary::Command::Prepend as u8 {\n            Ok(Some(BinaryRequest::Prepend(append_request)))", "        } else if self.header.opcode == binary::Command::Prepend as u8 {\n            Ok(Some(BinaryRequest::AppendQuietly(append_request)))"))
seed("C06.R2.add-overwrites", "C06", "C06.R2:add[hit]", "add stores on a hit",
     (MEMC, "            Ok(_record) => Err(CacheError::KeyExists),\n            Err(_err) => self.set(key, record),", "            Ok(_record) => self.set(key, record),\n            Err(_err) => Err(CacheError::KeyExists),"))
seed("C06.R2.replace-creates", "C06", "C06.R2:replace[miss]", "replace creates a missing item",
     (MEMC, "            Ok(_record) => self.set(key, record),\n            Err(_err) => Err(CacheError::NotFound),", "            Ok(_record) => self.set(key, record),\n            Err(_err) => self.set(key, record),"))
seed("C06.R3.append-order", "C06", "C06.R3:append:concat-order", "append builds new+old",
     (MEMC, "                value.extend_from_slice(&record.value);\n                value.extend_from_slice(&new_record.value);", "                value.extend_from_slice(&new_record.value);\n                value.extend_from_slice(&record.value);"))
seed("C06.R3.append-takes-request-header", "C06", "C06.R3:append:header-kept", "append replaces the stored header (flags lost)",
     (MEMC, "                record.header.cas = new_record.header.cas;\n                let mut value =\n                    BytesMut::with_capacity(record.value.len() + new_record.value.len());\n                value.extend_from_slice(&record.value);", "                record.header = new_record.header.clone();\n                let mut value =\n                    BytesMut::with_capacity(record.value.len() + new_record.value.len());\n                value.extend_from_slice(&record.value);"))
seed("C06.R4.value-before-key", "C06", "C06.R4:layout", "append frame: value sliced before key",
     (CODEC, "            key: src.split_to(self.header.key_length as usize).freeze(),\n            value: src.split_to(value_len).freeze(),\n        };\n\n        if self.header.opcode == binary::Command::Append as u8", "            value: src.split_to(value_len).freeze(),\n            key: src.split_to(self.header.key_length as usize).freeze(),\n        };\n\n        if self.header.opcode == binary::Command::Append as u8"))
# ---------------------------------------------------------------- C07
seed("C07.R1.decrement-increments", "C07", "C07.R1:MemcStore::decrement:direction", "decrement calls add_delta(.., true)",
     (MEMC, "        self.add_delta(header, key, decrement, false)", "        self.add_delta(header, key, decrement, true)"))
seed("C07.R2.revert-D6", "C07", "C07.R2:add_delta:checked-add", "increment with an overflow-checked +",
     (MEMC, "value = value.wrapping_add(delta.delta);", "value += delta.delta;"))
seed("C07.R2.decrement-wraps", "C07", "C07.R2:decrement", "decrement below zero does not clamp",
     (MEMC, "                        } else if delta.delta > value {\n                            value = 0;", "                        } else if delta.delta > value {\n                            value = 1;"))
seed("C07.R3.revert-D5", "C07", "C07.R3:incr:header-kept", "incr replaces the stored header by the request's",
     (MEMC, "                        record.header.cas = header.cas;", "                        record.header = header;"))
seed("C07.R3.returns-delta", "C07", "C07.R3:incr:returned-value", "incr returns the delta instead of the result",
     (MEMC, "                        self.set(key, record).map(|result| DeltaResult {\n                            cas: result.cas,\n                            value,\n                        })", "                        self.set(key, record).map(|result| DeltaResult {\n                            cas: result.cas,\n                            value: delta.delta,\n                        })"))
seed("C07.R4.magic-expiration", "C07", "C07.R4:", "creation suppressed for 0xfffffffe instead of 0xffffffff",
     (MEMC, "if header.get_expiration() != 0xffffffff {", "if header.get_expiration() != 0xfffffffe {"))
seed("C07.R4.creates-with-delta", "C07", "C07.R4:incr[miss,exp!=0xffffffff]", "absent key created with the delta instead of the initial value",
     (MEMC, "                        Bytes::from(delta.value.to_string()),", "                        Bytes::from(delta.delta.to_string()),"))
seed("C07.R5.non-numeric-treated-as-zero", "C07", "C07.R5:", "unparsable value treated as 0",
     (MEMC, "                        value\n                            .parse::<u64>()\n                            .map_err(|_err| CacheError::ArithOnNonNumeric)", "                        Ok::<u64, CacheError>(value.parse::<u64>().unwrap_or(0))"))
seed("C07.R6.swap-delta-initial", "C07", "C07.R6:layout", "delta/initial read in the wrong order",
     (CODEC, "            delta: src.get_u64(),\n            initial: src.get_u64(),", "            initial: src.get_u64(),\n            delta: src.get_u64(),"))
seed("C07.R6.handler-swaps", "C07", "C07.R6:handler:increment", "handler passes initial as delta",
     (HANDLER, "        let delta = store::IncrementParam {\n            delta: inc_request.delta,\n            value: inc_request.initial,\n        };", "        let delta = store::IncrementParam {\n            delta: inc_request.initial,\n            value: inc_request.delta,\n        };"))
# ---------------------------------------------------------------- C08
seed("C08.R1.delete-wrong-meta", "C08", "C08.R1:handler:delete", "delete handler does not pass the request cas",
     (HANDLER, "            into_record_meta(&delete_request.header, 0),", "            store::Meta::new(0, 0, 0),"))
seed("C08.R2.flush-threshold", "C08", "C08.R2:", "flush with delay 1 clears immediately... delay>1 only",
     (STORE, "        if header.time_to_live > 0 {\n            let now", "        if header.time_to_live > 1 {\n            let now"))
seed("C08.R2.flush-ignores-delay", "C08", "C08.R2:flush[ttl!=0]", "delayed flush never expires anything",
     (STORE, "                    .saturating_add(header.time_to_live as u64)", "                    .saturating_add(u32::MAX as u64)"))
seed("C08.R3.extras-8", "C08", "C08.R3:flush-extras", "flush expiration read for extras_length 8",
     (CODEC, "        if self.header.extras_length == 4 {\n            expiration = src.get_u32();", "        if self.header.extras_length == 8 {\n            expiration = src.get_u32();"))
seed("C08.R3.handler-zero-delay", "C08", "C08.R3:handler:flush", "handler drops the flush delay",
     (HANDLER, "store::Meta::new(0, 0, flush_request.expiration);", "store::Meta::new(0, flush_request.expiration, 0);"))
seed("C08.R4.policy-swallows-flush", "C08", "C08.R4:RandomPolicy::flush", "policy layer does not forward flush",
     (POLICY, "    fn flush(&self, header: CacheMetaData) {\n        self.store.flush(header)", "    fn flush(&self, header: CacheMetaData) {\n        if header.time_to_live == 0 {\n            self.store.flush(header)\n        }"))
# ---------------------------------------------------------------- C09
seed("C09.R1.header-len-23", "C09", "C09.R1:guard", "HEADER_LEN = 23",
     (CODEC, "const HEADER_LEN: usize = 24;", "const HEADER_LEN: usize = 23;"))
seed("C09.R1.swap-body-opaque", "C09", "C09.R1:header:", "body_length/opaque read in the wrong order",
     (CODEC, "            body_length: src.get_u32(),\n            opaque: src.get_u32(),", "            opaque: src.get_u32(),\n            body_length: src.get_u32(),"))
seed("C09.R2.revert-D9", "C09", "C09.R2:consumed", "sub-parsers read from the connection buffer again",
     (CODEC, "        let mut body = src.split_to(self.header.body_length as usize);\n        let src = &mut body;\n", ""))
seed("C09.R2.extra-advance", "C09", "C09.R2:consumed", "one byte too many consumed",
     (CODEC, "        let mut body = src.split_to(self.header.body_length as usize);", "        let mut body = src.split_to(self.header.body_length as usize + 1);"))
seed("C09.R3.revert-D10", "C09", "C09.R3:none", "unimplemented opcodes yield 'no frame' again",
     (CODEC, "                Ok(Some(BinaryRequest::NotSupported(binary::Request {\n                    header: self.header,\n                })))", "                Ok(None)"))
seed("C09.R3.wait-resets-state", "C09", "C09.R3:", "waiting for the body forgets the parsed header",
     (CODEC, "        if (self.header.body_length as usize) > src.len() {\n            return Ok(None);", "        if (self.header.body_length as usize) > src.len() {\n            self.state = RequestParserState::None;\n            return Ok(None);"))
seed("C09.R4.no-reset", "C09", "C09.R4:reset", "parser not reset after a frame",
     (CODEC, "        };\n        self.init_parser();\n        result\n    }", "        };\n        result\n    }"))
seed("C09.R5.eof-residue-clean", "C09", "C09.R5:eof[residue]", "EOF with a partial request is a clean end",
     (CONN, "                if self.buffer.is_empty() {\n                    return Ok(None);\n                } else {\n                    return Err(Error::new(\n                        ErrorKind::ConnectionReset,\n                        \"Connection reset by peer\",\n                    ));\n                }\n            }\n        }\n    }\n\n    pub async fn skip_bytes", "                return Ok(None);\n            }\n        }\n    }\n\n    pub async fn skip_bytes"))
# ---------------------------------------------------------------- C12
seed("C12.R1.revert-D10", "C12", "C12.R1:opcode:0x1c", "touch yields no frame",
     (CODEC, "                Ok(Some(BinaryRequest::NotSupported(binary::Request {\n                    header: self.header,\n                })))", "                Ok(None)"))
seed("C12.R2.setq-answers", "C12", "C12.R2:quiet:SetQuietly", "SetQuietly always answered",
     (HANDLER, "                let response = self.set(set_req, &mut response_header);\n                into_quiet_mutation(response)", "                let response = self.set(set_req, &mut response_header);\n                Some(response)"))
seed("C12.R2.getq-filter-drops-status", "C12", "C12.R2:quiet:GetQuietly", "quiet get silent on every error",
     (HANDLER, "        if response.header.status == CacheError::NotFound as u16 {\n            return None;\n        }", "        if response.header.status != 0 {\n            return None;\n        }"))
seed("C12.R2.loud-delete-filtered", "C12", "C12.R2:loud:Delete", "loud delete goes through the quiet filter",
     (HANDLER, "                Some(self.delete(delete_request, &mut response_header))", "                into_quiet_mutation(self.delete(delete_request, &mut response_header))"))
seed("C12.R3.double-dispatch", "C12", "C12.R3:handle_request:dispatch-count", "request executed twice",
     (CLIENT, "        let resp = self.handler.handle_request(request);", "        let resp = self.handler.handle_request(request);\n        let _again = self.handler.handle_request(binary_noop());"),
     (CLIENT, "fn log_error(e: io::Error) {", "fn binary_noop() -> BinaryRequest {\n    BinaryRequest::Noop(crate::protocol::binary::Request {\n        header: Default::default(),\n    })\n}\n\nfn log_error(e: io::Error) {"))
seed("C12.R4.quit-keeps-open", "C12", "C12.R4:quit", "quit does not close",
     (CLIENT, "                    socket_close = true;", "                    socket_close = false;"))
seed("C12.R4.quitq-executes", "C12", "C12.R4:quitq", "quitq is dispatched instead of closing",
     (CLIENT, "        if let BinaryRequest::QuitQuietly(_req) = request {\n            debug!(\"Closing client socket quit quietly\");\n            if let Err(_e) = self.stream.shutdown().await.map_err(log_error) {}\n            return true;\n        }\n", ""))
# ---------------------------------------------------------------- C13
seed("C13.R1.ge-in-decode", "C13", "C13.R1:decode[body=limit]", "decode rejects a body of exactly the limit",
     (CODEC, "        if self.header.body_length > self.item_size_limit {\n            let result = self.parse_item_too_large(src);\n            self.init_parser();\n            return result;\n        }\n\n        if (self.header.body_length as usize) > src.len() {", "        if self.header.body_length >= self.item_size_limit {\n            let result = self.parse_item_too_large(src);\n            self.init_parser();\n            return result;\n        }\n\n        if (self.header.body_length as usize) > src.len() {"))
seed("C13.R1.reserve-unguarded", "C13", "C13.R1:parse_header[body>limit]", "buffer reserved for oversized bodies",
     (CODEC, "        if self.header.body_length > self.item_size_limit {\n            return Ok(());\n        }\n\n        src.reserve", "        src.reserve"))
seed("C13.R2.wrong-status", "C13", "C13.R2:handler:ItemTooLarge:answer", "oversized item answered with out-of-memory",
     (HANDLER, "storage_error_to_response(CacheError::ValueTooLarge, &mut response_header)", "storage_error_to_response(CacheError::OutOfMemory, &mut response_header)"))
seed("C13.R3.revert-D8", "C13", "C13.R3:", "skip = body_length - buffer.len() again",
     (CONN, "                        let body_length = request.header.body_length as usize;\n                        let buffered = cmp::min(body_length, self.buffer.len());\n                        self.buffer.advance(buffered);\n                        let skip = (body_length - buffered) as u32;", "                        let skip = (request.header.body_length) - (self.buffer.len() as u32);\n                        if skip >= self.buffer.len() as u32 {\n                            self.buffer.clear();\n                        } else {\n                            self.buffer = self.buffer.split_off(skip as usize);\n                        }"))
seed("C13.R3.skip-whole-body", "C13", "C13.R3:conservation", "buffered part dropped but the whole body skipped again",
     (CONN, "let skip = (body_length - buffered) as u32;", "let skip = body_length as u32;"))
seed("C13.R4.fixed-limit", "C13", "C13.R4:connection::new", "codec built with a constant limit",
     (CONN, "codec: MemcacheBinaryCodec::new(item_size_limit),", "codec: MemcacheBinaryCodec::new(4096),"))
seed("C13.R4.config-arg-swap", "C13", "C13.R4:runtime_builder", "connection limit passed as item size limit",
     (RB, "        60,\n        config.connection_limit,\n        config.item_size_limit.as_u64() as u32,\n        config.backlog_limit,\n    );\n\n    let core_ids", "        60,\n        config.item_size_limit.as_u64() as u32,\n        config.connection_limit,\n        config.backlog_limit,\n    );\n\n    let core_ids"))
seed("C15.R2.remove-if-selects-more", "C15", "C15.R2:remove_if:selects-what-the-predicate-accepts", "the store's remove_if also removes items its predicate did not accept",
     ('memcrs/src/memory_store/store.rs', '            .filter(|record: &RefMulti<KeyType, Record>| f(record.key(), record.value()))', '            .filter(|record: &RefMulti<KeyType, Record>| f(record.key(), record.value()) || record.value().header.time_to_live == 1)'))
seed("C15.R1.decrement-saturates", "C15", "C15.R1:", "usage decrement saturates at zero instead of wrapping (the stale reset then forgets the record being written)",
     ('memcrs/src/memcache/random_policy.rs', '        self.memory_usage\n            .fetch_sub(value, atomic::Ordering::Release)', '        self.memory_usage\n            .fetch_update(atomic::Ordering::Release, atomic::Ordering::Relaxed, |v| Some(v.saturating_sub(value)))\n            .unwrap_or_else(|v| v)'))
# ---------------------------------------------------------------- C16
seed("C16.R1.guard-then-remove", "C16", "C16.R1:", "get_by_key removes while its guard is alive",
     (STORE, "            Some(record) => Ok(record.clone()),", "            Some(record) => {\n                if record.header.time_to_live == 1 {\n                    self.memory.remove(key);\n                }\n                Ok(record.clone())\n            }"))
seed("C16.R1.iter-remove", "C16", "C16.R", "remove_if removes while iterating",
     (STORE, "            .filter(|record: &RefMulti<KeyType, Record>| f(record.key(), record.value()))", "            .filter(|record: &RefMulti<KeyType, Record>| {\n                let hit = f(record.key(), record.value());\n                if hit {\n                    self.memory.remove(record.key());\n                }\n                hit\n            })"))
seed("C16.R2.predicate-calls-len", "C16", "C16.R2:", "eviction predicate calls back into the store",
     (POLICY, "            let mut number_of_calls: usize = 0;\n", "            let mut number_of_calls: usize = 0;\n            let inner = Arc::clone(&self.store);\n"),
     (POLICY, "                .remove_if(&mut move |_key: &KeyType, _value: &Record| -> bool {\n                    if number_of_calls != item {", "                .remove_if(&mut move |_key: &KeyType, _value: &Record| -> bool {\n                    if inner.len() == 0 {\n                        return false;\n                    }\n                    if number_of_calls != item {"))
seed("C16.R2.delete-closure-locks", "C16", "C16.R2:", "delete's predicate looks the key up again",
     (STORE, "            let result = header.cas == 0 || record.header.cas == header.cas;", "            let result = header.cas == 0 || record.header.cas == header.cas || self.memory.is_empty();"))


# ---------------------------------------------------------------- C11
seed("C11.R1.opaque-dropped", "C11", "C11.R1:", "response opaque not echoed",
     (HANDLER, "binary::ResponseHeader::new(request_header.opcode, request_header.opaque);", "binary::ResponseHeader::new(request_header.opcode, 0);"))
seed("C11.R1.request-magic", "C11", "C11.R1:", "response carries the request magic",
     (BINARY, "            magic: Magic::Response as u8,", "            magic: Magic::Request as u8,"))
seed("C11.R1.opcode-rewritten", "C11", "C11.R1:", "error responses rewrite the opcode",
     (CODEC, "    response_header.status = err as u16;", "    response_header.status = err as u16;\n    response_header.opcode = 0;"))
seed("C11.R2.body-without-key", "C11", "C11.R2:", "hit body length forgets the echoed key",
     (HANDLER, "record.value.len() as u32 + EXTRAS_LENGTH as u32 + key.len() as u32;", "record.value.len() as u32 + EXTRAS_LENGTH as u32;"))
seed("C11.R2.extras-zero", "C11", "C11.R2:", "hit announces no extras although 4 flag bytes follow",
     (HANDLER, "                response_header.extras_length = EXTRAS_LENGTH;\n", ""))
seed("C11.R2.error-length-off-by-one", "C11", "C11.R2:", "error body length one too long",
     (CODEC, "    response_header.body_length = message.len() as u32;", "    response_header.body_length = message.len() as u32 + 1;"))
seed("C11.R2.get-echoes-key", "C11", "C11.R2:", "plain get echoes the key",
     (HANDLER, "opcode == binary::Command::GetKey as u8 || opcode == binary::Command::GetKeyQuiet as u8", "opcode == binary::Command::GetKey as u8 || opcode == binary::Command::GetKeyQuiet as u8 || opcode == binary::Command::Get as u8"))
seed("C11.R2.counter-4-bytes", "C11", "C11.R2:", "counter value written as 4 bytes",
     (CODEC, "            BinaryResponse::Increment(response) | BinaryResponse::Decrement(response) => {\n                dst.put_u64(response.value);\n            }\n        }\n        ResponseMessage", "            BinaryResponse::Increment(response) | BinaryResponse::Decrement(response) => {\n                dst.put_u32(response.value as u32);\n            }\n        }\n        ResponseMessage"))
seed("C11.R3.swap-body-opaque", "C11", "header:#6", "body_length and opaque swapped on the wire",
     (CODEC, "        dst.put_u32(header.body_length);\n        dst.put_u32(header.opaque);", "        dst.put_u32(header.opaque);\n        dst.put_u32(header.body_length);"))
seed("C11.R4.status-shifted", "C11", "C11.R4:", "status code shifted",
     (CODEC, "    response_header.status = err as u16;", "    response_header.status = (err as u16) << 1;"))
# ---------------------------------------------------------------- C19
seed("C19.R3.drop-addquiet", "C19", "C19.R", "AddQuiet treated as replace",
     (HANDLER, "opcode == binary::Command::Add as u8 || opcode == binary::Command::AddQuiet as u8", "opcode == binary::Command::Add as u8"))
seed("C19.R2.deleteq-gets", "C19", "C19.R2:", "DeleteQuiet arm performs a get",
     (HANDLER, "                into_quiet_mutation(self.delete(delete_request, &mut response_header))", "                into_quiet_mutation(self.get(delete_request, &mut response_header))"))
seed("C19.R1.incrq-zero-delta", "C19", "C19.R1:pair:Increment", "IncrementQuiet decoded with delta 0",
     (CODEC, "            Ok(Some(BinaryRequest::IncrementQuiet(request)))", "            Ok(Some(BinaryRequest::IncrementQuiet(binary::IncrementRequest {\n                delta: 0,\n                ..request\n            })))"))
seed("C19.R1.setq-as-add", "C19", "C19.R1:pair:Set", "SetQuiet decoded as AddQuietly",
     (CODEC, "            Some(binary::Command::SetQuiet) => Ok(Some(BinaryRequest::SetQuietly(set_request))),", "            Some(binary::Command::SetQuiet) => Ok(Some(BinaryRequest::AddQuietly(set_request))),"))
seed("C19.R4.error-depends-on-opcode", "C19", "C19.R4:", "quiet opcodes get a different error text length",
     (CODEC, "    response_header.body_length = message.len() as u32;", "    response_header.body_length = if response_header.opcode > 0x10 { 0 } else { message.len() as u32 };"))


# ---------------------------------------------------------------- C10
seed("C10.R1.revert-D6", "C10", "C10.R1:memcache::store::MemcStore::add_delta", "increment with an overflow-checked +",
     (MEMC, "value = value.wrapping_add(delta.delta);", "value += delta.delta;"))
seed("C10.R1.revert-D7", "C10", "C10.R1:<memory_store::store::MemoryStore as cache::cache::Cache>::set", "client token + 1 overflow-checked",
     (STORE, "record.header.cas = record.header.cas.saturating_add(1);", "record.header.cas += 1;"))
seed("C10.R1.revert-D8", "C10", "C10.R1:protocol::binary_connection::MemcacheBinaryConnection::read_frame", "skip = body_length - buffer.len()",
     (CONN, "                        let body_length = request.header.body_length as usize;\n                        let buffered = cmp::min(body_length, self.buffer.len());\n                        self.buffer.advance(buffered);\n                        let skip = (body_length - buffered) as u32;", "                        let skip = (request.header.body_length) - (self.buffer.len() as u32);\n                        self.buffer.clear();"))
seed("C10.R1.unwrap-on-parse", "C10", "C10.R1:memcache::store::MemcStore::add_delta", "stored value parsed with unwrap",
     (MEMC, "                        value\n                            .parse::<u64>()\n                            .map_err(|_err| CacheError::ArithOnNonNumeric)", "                        Ok::<u64, CacheError>(value.parse::<u64>().unwrap())"))
seed("C10.R1.no-validation-in-get", "C10", "C10.R", "parse_get_request does not validate the lengths",
     (CODEC, "    fn parse_get_request(&self, src: &mut BytesMut) -> Result<Option<BinaryRequest>, io::Error> {\n        if !self.request_valid(src, true) {\n            return Err(Error::new(ErrorKind::InvalidData, \"Incorrect get request\"));\n        }\n", "    fn parse_get_request(&self, src: &mut BytesMut) -> Result<Option<BinaryRequest>, io::Error> {\n"))
seed("C10.R2.key-251", "C10", "C10.R2:request_valid", "key of 251 bytes accepted",
     (CODEC, "        if self.header.key_length > 250 {", "        if self.header.key_length > 251 {"))
seed("C10.R2.key-250-rejected", "C10", "C10.R2:request_valid", "key of 250 bytes rejected",
     (CODEC, "        if self.header.key_length > 250 {", "        if self.header.key_length >= 250 {"))
seed("C10.R2.opcode-max-accepted", "C10", "C10.R2:header_valid", "opcode 0x25 passes header_valid",
     (CODEC, "        if self.header.opcode >= binary::Command::OpCodeMax as u8 {", "        if self.header.opcode > binary::Command::OpCodeMax as u8 {"))
seed("C10.R2.data-type-ignored", "C10", "C10.R2:header_valid", "data type not checked",
     (CODEC, "        if self.header.data_type != binary::DataTypes::RawBytes as u8 {", "        if false && self.header.data_type != binary::DataTypes::RawBytes as u8 {"))
seed("C10.R3.delete-key-optional", "C10", "C10.R3:op0x04:missing-key", "delete without a key accepted",
     (CODEC, "    fn parse_delete_request(&self, src: &mut BytesMut) -> Result<Option<BinaryRequest>, io::Error> {\n        if !self.request_valid(src, true) {", "    fn parse_delete_request(&self, src: &mut BytesMut) -> Result<Option<BinaryRequest>, io::Error> {\n        if !self.request_valid(src, false) {"))
seed("C10.R4.busy-loop", "C10", "C10.R4:loop-free", "a non-iterator loop in the decoder",
     (CODEC, "    fn get_value_len(&self) -> usize {", "    fn spin(&self) -> u32 {\n        let mut n = self.header.opaque;\n        while n % 7 != 0 {\n            n = n.wrapping_mul(3).wrapping_add(1);\n        }\n        n\n    }\n\n    fn get_value_len(&self) -> usize {\n        let _ = self.spin();"))
seed("C10.R5.reserve-unbounded", "C10", "C10.R5:parse_header:reserve", "buffer reserved for any announced length",
     (CODEC, "        if self.header.body_length > self.item_size_limit {\n            return Ok(());\n        }\n\n        src.reserve", "        src.reserve"))
# ---------------------------------------------------------------- C14
seed("C14.R1.store-before-account", "C14", "C14.R1:set:account-then-store", "inner set before the accounting/sweep",
     (POLICY, "        let len = record.len() as u64;\n        self.incr_mem_usage(len);\n        self.store.set(key, record)", "        let len = record.len() as u64;\n        let result = self.store.set(key, record);\n        self.incr_mem_usage(len);\n        result"))
seed("C14.R1.accounts-zero", "C14", "C14.R1:set:accounts-record-size", "accounts 0 bytes per store",
     (POLICY, "        self.incr_mem_usage(len);\n        self.store.set(key, record)", "        self.incr_mem_usage(0);\n        let _ = len;\n        self.store.set(key, record)"))
seed("C14.R2.no-empty-exit", "C14", "C14.R2:", "victim drawn from a possibly empty store",
     (POLICY, "            if max == 0 {\n                self.decr_mem_usage(usage);\n                break;\n            }\n", ""))
seed("C14.R2.ge-limit", "C14", "C14.R2:", "sweep entered only far above the limit",
     (POLICY, "        while usage > self.memory_limit {", "        while usage > self.memory_limit && usage == 0 {"))
seed("C14.R3.subtract-constant", "C14", "C14.R3:", "delete subtracts a constant",
     (POLICY, "            self.decr_mem_usage(record.len() as u64);", "            let _ = record;\n            self.decr_mem_usage(4096);"))
seed("C14.R4.random-ignored", "C14", "C14.R4:from_config[Random]", "policy random builds the plain store",
     (BUILDER, "            EvictionPolicy::Random => {\n                Arc::new(RandomPolicy::new(store_engine, config.memory_limit))\n            }", "            EvictionPolicy::Random => store_engine,"))
seed("C14.R4.limit-not-plumbed", "C14", "C14.R4:", "policy built with a fixed limit",
     (BUILDER, "Arc::new(RandomPolicy::new(store_engine, config.memory_limit))", "Arc::new(RandomPolicy::new(store_engine, 64 * 1024 * 1024))"))
# ---------------------------------------------------------------- C15
seed("C15.R1.remove-subtracts-value-length", "C15", "C15.R1:remove:remove:measure", "policy remove subtracts the value length, set adds Record::len()",
     (POLICY, "            self.decr_mem_usage(key_value.1.len() as u64);", "            self.decr_mem_usage(key_value.1.value.len() as u64);"))
seed("C15.R1.sweep-subtracts-value-length", "C15", "C15.R1:sweep:remove_if:measure", "sweep subtracts the value length only",
     (POLICY, "                    let len = val.1.len();", "                    let len = val.1.value.len();"))
seed("C14.R1.set-accounts-value-length", "C14", "C14.R1:set:accounts-record-size", "policy set accounts the value length, not Record::len()",
     (POLICY, "        let len = record.len() as u64;\n        self.incr_mem_usage(len);", "        let len = record.value.len() as u64;\n        self.incr_mem_usage(len);"))
seed("C15.R1.delete-unaccounted", "C15", "C15.R1:delete:delete", "policy delete does not subtract",
     (POLICY, "        if let Ok(record) = &result {\n            self.decr_mem_usage(record.len() as u64);\n        }\n", ""))
seed("C15.R1.remove-subtracts-zero", "C15", "C15.R1:remove:remove", "policy remove subtracts 0",
     (POLICY, "            self.decr_mem_usage(key_value.1.len() as u64);", "            let _ = key_value;\n            self.decr_mem_usage(0);"))
seed("C15.R1.sweep-unaccounted", "C15", "C15.R1:sweep:remove_if", "sweep does not subtract evicted records",
     (POLICY, "                    usage = self.decr_mem_usage(len as u64);", "                    usage = usage.saturating_sub(len as u64);"))
# ---------------------------------------------------------------- C17
seed("C17.R1.permit-not-forgotten", "C17", "C17.R", "permit dropped at once instead of kept",
     (TCP, "self.limit_connections.acquire().await.unwrap().forget();", "drop(self.limit_connections.acquire().await.unwrap());"))
seed("C17.R1.acquire-after-spawn", "C17", "C17.R1:order", "task spawned before a permit is taken",
     (TCP, "                            self.limit_connections.acquire().await.unwrap().forget();\n", ""),
     (TCP, "                            tokio::spawn(async move { client.handle().await });", "                            tokio::spawn(async move { client.handle().await });\n                            self.limit_connections.acquire().await.unwrap().forget();"))
seed("C17.R2.no-add-permits", "C17", "C17.R2:drop", "Client::drop does not return the permit",
     (CLIENT, "        self.limit_connections.add_permits(1);", "        let _ = &self.limit_connections;"))
seed("C17.R2.two-permits", "C17", "C17.R2:drop", "Client::drop returns two permits",
     (CLIENT, "        self.limit_connections.add_permits(1);", "        self.limit_connections.add_permits(2);"))
seed("C17.R3.early-continue", "C17", "C17.R3:", "connection dropped between Client::new and forget",
     (TCP, "                            self.limit_connections.acquire().await.unwrap().forget();", "                            if peer_addr.port() == 0 {\n                                continue;\n                            }\n                            self.limit_connections.acquire().await.unwrap().forget();"))
seed("C17.R4.sized-by-backlog", "C17", "C17.R4:Semaphore::new", "semaphore sized by the listen backlog",
     (TCP, "Semaphore::new(config.connection_limit as usize)", "Semaphore::new(config.listen_backlog as usize)"))
seed("C17.R4.revert-D13", "C17", "C17.R4:once", "one server (semaphore) per listener thread",
     (RB, "    let tcp_server = memcache_server::memc_tcp::MemcacheTcpServer::new(memc_config, store);\n    for i in 0..config.threads {\n        let mut tcp_server = tcp_server.clone();", "    for i in 0..config.threads {\n        let store_rc = Arc::clone(&store);"),
     (RB, "            let mut create_runtime = || {\n                let child_runtime = create_current_thread_runtime();", "            let create_runtime = || {\n                let child_runtime = create_current_thread_runtime();\n                let mut tcp_server =\n                    memcache_server::memc_tcp::MemcacheTcpServer::new(memc_config, store_rc);"))
# ---------------------------------------------------------------- C18
seed("C18.R1.err-continues", "C18", "C18.R1:handle_frame[Err]", "a failed read does not end the connection",
     (CLIENT, "                error!(\"Error when reading frame; error = {:?}\", err);\n                true", "                error!(\"Error when reading frame; error = {:?}\", err);\n                false"))
seed("C18.R1.none-continues", "C18", "C18.R1:handle_frame[Ok(None)]", "end of stream does not end the connection",
     (CLIENT, "                        debug!(\"Connection closed: {}\", self.addr);\n                        true", "                        debug!(\"Connection closed: {}\", self.addr);\n                        false"))
seed("C18.R2.eof-residue-clean", "C18", "C18.R2:eof[residue]", "EOF with a partial request is a clean end",
     (CONN, "                if self.buffer.is_empty() {\n                    return Ok(None);\n                } else {\n                    return Err(Error::new(\n                        ErrorKind::ConnectionReset,\n                        \"Connection reset by peer\",\n                    ));\n                }\n            }\n        }\n    }\n\n    pub async fn skip_bytes", "                return Ok(None);\n            }\n        }\n    }\n\n    pub async fn skip_bytes"))
seed("C18.R2.decode-error-swallowed", "C18", "C18.R2:decode-error-propagates", "decode errors are ignored and reading continues",
     (CONN, "            if let Some(frame) = self.codec.decode(&mut self.buffer)? {", "            if let Some(frame) = self.codec.decode(&mut self.buffer).unwrap_or(None) {"))
seed("C18.R4.exit-on-error", "C18", "C18.R4:no-exit", "read errors terminate the process",
     (CLIENT, "                error!(\"Error when reading frame; error = {:?}\", err);\n                true", "                error!(\"Error when reading frame; error = {:?}\", err);\n                if err.kind() == io::ErrorKind::OutOfMemory {\n                    std::process::exit(3);\n                }\n                true"))
# ---------------------------------------------------------------- C20
seed("C20.R1.threadpool-arg-swap", "C20", "C20.R1:create_threadpool_server", "connection limit and backlog swapped in one builder",
     (RB, "        60,\n        config.connection_limit,\n        config.item_size_limit.as_u64() as u32,\n        config.backlog_limit,\n    );\n    let runtime = create_multi_thread_runtime", "        60,\n        config.backlog_limit,\n        config.item_size_limit.as_u64() as u32,\n        config.connection_limit,\n    );\n    let runtime = create_multi_thread_runtime"))
seed("C20.R1.timeout-differs", "C20", "C20.R1:create_threadpool_server:timeout", "different idle timeout in one runtime mode",
     (RB, "        60,\n        config.connection_limit,\n        config.item_size_limit.as_u64() as u32,\n        config.backlog_limit,\n    );\n    let runtime = create_multi_thread_runtime", "        6,\n        config.connection_limit,\n        config.item_size_limit.as_u64() as u32,\n        config.backlog_limit,\n    );\n    let runtime = create_multi_thread_runtime"))
seed("C20.R2.store-per-builder", "C20", "C20.R2:", "multi-thread builder creates its own store",
     (RB, "    let store_rc = Arc::clone(&store);\n    let mut tcp_server = memcache_server::memc_tcp::MemcacheTcpServer::new(memc_config, store_rc);", "    let _ = &store;\n    let store_rc: Arc<dyn Cache + Send + Sync> = Arc::new(crate::memory_store::store::MemoryStore::new(Arc::new(server::timer::SystemTimer::new())));\n    let mut tcp_server = memcache_server::memc_tcp::MemcacheTcpServer::new(memc_config, store_rc);"))
seed("C20.R3.random-means-none", "C20", "C20.R3:eviction-policy", "'random' parsed as none",
     (PARSER, "        \"random\" => Ok(EvictionPolicy::Random),", "        \"random\" => Ok(EvictionPolicy::None),"))
seed("C20.R3.runtime-swapped", "C20", "C20.R3:runtime", "runtime types start the wrong builder",
     (RB, "        RuntimeType::CurrentThread => create_current_thread_server(config, memcache_store),\n        RuntimeType::MultiThread => create_threadpool_server(config, memcache_store),", "        RuntimeType::CurrentThread => create_threadpool_server(config, memcache_store),\n        RuntimeType::MultiThread => create_current_thread_server(config, memcache_store),"))
seed("C20.R4.two-second-tick", "C20", "C20.R4:timer:1s-interval", "clock ticks every 2 s",
     (TIMER, "Duration::from_secs(1)", "Duration::from_secs(2)"))
seed("C20.R4.delay-missed-ticks", "C20", "C20.R4:timer:no-dropped-ticks", "late ticks are not caught up (Delay)",
     (TIMER, "        let mut interval = interval_at(start, Duration::from_secs(1));", "        let mut interval = interval_at(start, Duration::from_secs(1));\n        interval.set_missed_tick_behavior(tokio::time::MissedTickBehavior::Delay);"))
seed("C20.R4.store-gets-other-timer", "C20", "C20.R4:main", "store reads a timer nobody drives",
     (MAIN, "        cli_config,\n        system_timer.clone(),", "        cli_config,\n        Arc::new(memcrs::server::timer::SystemTimer::new()),"))
seed("C20.R4.tick-adds-nothing", "C20", "C20.R4:timer:add_second", "add_second adds 0",
     (TIMER, "        self.seconds.fetch_add(1, Ordering::Release);", "        self.seconds.fetch_add(0, Ordering::Release);"))

# ---------------------------------------------------------------- found by the mechanical mutation campaign (tools/mutate.py)
seed("M.get-body-len-value-u16", 'C11', 'C11.R2:', 'a get response announces value.len() truncated to u16',
     ('memcrs/src/memcache_server/handler.rs', '            record.value.len() as u32 + EXTRAS_LENGTH as u32 + key.len() as u32;', '            record.value.len() as u16 as u32 + EXTRAS_LENGTH as u32 + key.len() as u32;'))
seed("M.skip-u16", 'C13', 'C13.R3:conservation', 'the skip count is truncated to u16',
     ('memcrs/src/protocol/binary_connection.rs', '                        let skip = (body_length - buffered) as u32;', '                        let skip = (body_length - buffered) as u16 as u32;'))
seed("M.item-limit-u16", 'C13', 'C13.R4:runtime_builder', 'the configured item size limit is truncated to u16 in one builder',
     ('memcrs/src/memcache_server/runtime_builder.rs', '        config.item_size_limit.as_u64() as u32,\n        config.backlog_limit,\n    );\n\n    let core_ids', '        config.item_size_limit.as_u64() as u16 as u32,\n        config.backlog_limit,\n    );\n\n    let core_ids'))
seed("M.expiry-witness-cas-ne", 'C03', 'C03.R1:', 'expiry collection goes ahead when the stored cas differs from the judged one',
     ('memcrs/src/memory_store/store.rs', '            stored.header.cas == record.header.cas\n', '            stored.header.cas != record.header.cas\n'))
seed("M.pred-init-1", 'C14', 'C14.R2:sweep:predicate-picks-the-drawn-entry', "the sweep's visit counter starts at 1",
     ('memcrs/src/memcache/random_policy.rs', '            let mut number_of_calls: usize = 0;', '            let mut number_of_calls: usize = 1;'))
seed("M.pred-ne-to-eq", 'C14', 'C14.R2:sweep:predicate-picks-the-drawn-entry', "the sweep's predicate accepts everything but the drawn entry",
     ('memcrs/src/memcache/random_policy.rs', '                    if number_of_calls != item {', '                    if number_of_calls == item {'))
seed("M.pred-step-2", 'C14', 'C14.R2:sweep:predicate-picks-the-drawn-entry', "the sweep's visit counter advances by 2",
     ('memcrs/src/memcache/random_policy.rs', '                    if number_of_calls != item {\n                        number_of_calls += 1;', '                    if number_of_calls != item {\n                        number_of_calls += 2;'))
seed("M.enc-key-polarity", 'C11', 'C11.R2:encode_message', 'the encoder writes the key only when it is empty',
     ('memcrs/src/protocol/binary_codec.rs', '                if !response.key.is_empty() {\n                    dst.put_slice(&response.key[..]);', '                if response.key.is_empty() {\n                    dst.put_slice(&response.key[..]);'))
seed("M.enc-key-dropped", 'C11', 'C11.R2:encode_message', 'the encoder never writes the key',
     ('memcrs/src/protocol/binary_codec.rs', '                if !response.key.is_empty() {\n                    dst.put_slice(&response.key[..]);\n                }', '                if !response.key.is_empty() {\n                }'))
seed("M.skip-counter-init-1", 'C13', 'C13.R3:skip_bytes:counter-is-bytes-read', "the discard loop's counter starts at 1",
     ('memcrs/src/protocol/binary_connection.rs', '        let mut bytes_counter: usize = 0;', '        let mut bytes_counter: usize = 1;'))
seed("M.skip-eof-is-1", 'C13', 'C13.R3:skip_bytes:eof-test', 'the discard loop treats a 1-byte read as end of stream',
     ('memcrs/src/protocol/binary_connection.rs', '            if bytes_read == 0 {', '            if bytes_read == 1 {'))

seed("M.listener-blocking", "C20", 'C20.R1:listener:nonblocking', 'the listening socket is left blocking',
     ('memcrs/src/memcache_server/memc_tcp.rs', 'socket.set_nonblocking(true)?;', 'socket.set_nonblocking(false)?;'))
seed("M.listener-no-reuseport", "C20", 'C20.R1:listener:reuse_port', 'SO_REUSEPORT switched off',
     ('memcrs/src/memcache_server/memc_tcp.rs', 'socket.set_reuse_port(true)?;', 'socket.set_reuse_port(false)?;'))

seed("M.skip-no-zero-guard", 'C13', 'C13.R3:skip_bytes:read-capped', 'the discard loop is entered for a count of 0',
     ('memcrs/src/protocol/binary_connection.rs', '        if bytes == 0 {\n            return Ok(());\n        }', '        if false {\n            return Ok(());\n        }'))
seed("M.skip-no-eof-exit", 'C13', 'C13.R3:skip_bytes:eof-exit', 'the discard loop ignores end of stream',
     ('memcrs/src/protocol/binary_connection.rs', '            if bytes_read == 0 {', '            if false {'))
seed("M.skip-panic-unguarded", 'C13', 'C13.R3:skip_bytes:panic-guarded', "the 'read too much' panic is no longer guarded",
     ('memcrs/src/protocol/binary_connection.rs', '            if bytes_counter > bytes as usize {', '            if true {'))

seed("M.write-error-swallowed", 'C12', 'C12.R5:write:encoded-message-written', 'a failed socket write is swallowed: write reports success',
     ('memcrs/src/protocol/binary_connection.rs', '        self.stream.write_all(&msg.data[..]).await?;', '        self.stream.write_all(&msg.data[..]).await.ok();'))
seed("M.toolarge-frame-not-returned", 'C09', 'C09.R5:decoded-frame-is-returned[oversized]', "the oversized request is discarded but never returned: no 'too large' answer",
     ('memcrs/src/protocol/binary_connection.rs', '                        return Ok(Some(BinaryRequest::ItemTooLarge(request)));', '                        let _ = request;'))

seed("M.store-len-stuck-at-0", 'C14', 'C14.R2:store:len-is-the-maps', "MemoryStore::len always answers 0: the sweep's empty-store exit resets the usage and nothing is ever evicted",
     ('memcrs/src/memory_store/store.rs', '    fn len(&self) -> usize {\n        self.memory.len()\n    }', '    fn len(&self) -> usize {\n        0\n    }'))
seed("M.toolarge-buffered-body-not-dropped", 'C13', 'C13.R3:buffer-first[body>buffered]', "the buffered part of an oversized body stays in the buffer, the whole length is read off the socket",
     ('memcrs/src/protocol/binary_connection.rs', 'let buffered = cmp::min(body_length, self.buffer.len());', 'let buffered = cmp::min(body_length, 0);'))
seed("C07.R3.zero-delta-not-stored", 'C07', 'C07.R3:incr:success-stores-once', "incr/decr by 0 answers without storing the normalised text",
     ('memcrs/src/memcache/store.rs', '                        if increment {\n                            value = value.wrapping_add(delta.delta);', '                        if delta.delta == 0 && header.cas == 0 {\n                            return Ok(DeltaResult { cas: record.header.cas, value });\n                        }\n                        if increment {\n                            value = value.wrapping_add(delta.delta);'))
seed("C08.R4.flush-in-background", 'C08', 'C08.R4:handler:flush:executes-before-acknowledged', "flush handed to the blocking pool: acknowledged before it has run",
     ('memcrs/src/memcache_server/handler.rs', '        self.storage.flush(meta);', '        match tokio::runtime::Handle::try_current() {\n            Ok(rt) => {\n                let storage = self.storage.clone();\n                rt.spawn_blocking(move || storage.flush(meta));\n            }\n            Err(_) => self.storage.flush(meta),\n        }'))
seed("C12.R3.flush-in-background", 'C12', 'C12.R3:sequential:handle', "flush handed to the blocking pool: executed out of order with the requests that follow",
     ('memcrs/src/memcache_server/handler.rs', '        self.storage.flush(meta);', '        match tokio::runtime::Handle::try_current() {\n            Ok(rt) => {\n                let storage = self.storage.clone();\n                rt.spawn_blocking(move || storage.flush(meta));\n            }\n            Err(_) => self.storage.flush(meta),\n        }'))
seed("C04.R1.add-rereads", 'C04', 'C04.R1:MemcStore::add:set->get:answer-from-reread', "add answers from a read made after its own store",
     ('memcrs/src/memcache/store.rs', '            Err(_err) => self.set(key, record),', '            Err(_err) => {\n                let status = self.set(key.clone(), record)?;\n                match self.get(&key) {\n                    Ok(stored) if stored.header.cas != status.cas => Err(CacheError::KeyExists),\n                    _ => Ok(status),\n                }\n            }'))
seed("C20.R1.timeout-depends-on-slots", 'C20', 'C20.R1:handle:timeout-is-the-configured-one-on-every-path', "idle timeout shortened when no connection slot is free",
     ('memcrs/src/memcache_server/client_handler.rs', '                Duration::from_secs(self.config.rx_timeout_secs as u64),', '                Duration::from_secs(if self.limit_connections.available_permits() == 0 { self.config.rx_timeout_secs.min(5) } else { self.config.rx_timeout_secs } as u64),'))

# ---------------------------------------------------------------- neutral variants
neutral("N.futures-imported", "the server module imports futures::FutureExt: rustc then prints std::future::Future as futures::Future (std alias renaming)",
        ('memcrs/src/memcache_server/memc_tcp.rs', "use tokio::io;\nuse tokio::net::TcpListener;", "#[allow(unused_imports)]\nuse futures::FutureExt;\nuse tokio::io;\nuse tokio::net::TcpListener;"))
neutral("N.rename-local", "rename a local in MemoryStore::set",
        (STORE, "            let cas = self.get_cas_id();\n            record.header.cas = cas;", "            let fresh = self.get_cas_id();\n            let cas = fresh;\n            record.header.cas = cas;"))
neutral("N.expiry-rewritten", "expiry predicate written as now - ts >= ttl (same truth table for ts <= now)... kept as ts + ttl <= now early return inverted",
        (STORE, "        if record.header.timestamp + (record.header.time_to_live as u64) > current_time {\n            return false;\n        }", "        let expires_at = record.header.timestamp + (record.header.time_to_live as u64);\n        if !(expires_at <= current_time) {\n            return false;\n        }"))
neutral("N.if-let-in-get", "match -> if let in Cache::get",
        (CACHE, "        let result = self.get_by_key(key);\n        match result {\n            Ok(record) => {\n                if self.check_if_expired(key, &record) {\n                    return Err(CacheError::NotFound);\n                }\n                Ok(record)\n            }\n            Err(err) => Err(err),\n        }", "        let record = self.get_by_key(key)?;\n        if self.check_if_expired(key, &record) {\n            return Err(CacheError::NotFound);\n        }\n        Ok(record)"))
neutral("N.helper-extracted", "extract the add/replace choice into a helper",
        (HANDLER, "        let result = if self.is_add_command(request.header.opcode) {\n            self.storage.add(request.key, record)\n        } else {\n            self.storage.replace(request.key, record)\n        };", "        let add = self.is_add_command(request.header.opcode);\n        let result = match add {\n            true => self.storage.add(request.key, record),\n            false => self.storage.replace(request.key, record),\n        };"))
neutral("N.reorder-independent", "reorder two independent statements in append",
        (MEMC, "                record.header.cas = new_record.header.cas;\n                let mut value =\n                    BytesMut::with_capacity(record.value.len() + new_record.value.len());\n                value.extend_from_slice(&record.value);\n                value.extend_from_slice(&new_record.value);\n                record.value = value.freeze();", "                let mut value =\n                    BytesMut::with_capacity(record.value.len() + new_record.value.len());\n                value.extend_from_slice(&record.value);\n                value.extend_from_slice(&new_record.value);\n                record.value = value.freeze();\n                record.header.cas = new_record.header.cas;"))
neutral("N.clone-before-return", "get_by_key clones into a local first",
        (STORE, "            Some(record) => Ok(record.clone()),", "            Some(record) => {\n                let copy = record.clone();\n                drop(record);\n                Ok(copy)\n            }"))
neutral("N.decode-match-opcode", "parse_get_request: if-chain -> match on the opcode constant",
        (CODEC, "        } else if self.header.opcode == binary::Command::GetKey as u8 {\n            Ok(Some(BinaryRequest::GetKey(binary::GetKeyRequest {\n                header: self.header,\n                key,\n            })))\n        } else {", "        } else if self.header.opcode == 0x0c {\n            Ok(Some(BinaryRequest::GetKey(binary::GetKeyRequest {\n                header: self.header,\n                key,\n            })))\n        } else {"))
neutral("N.header-len-expression", "HEADER_LEN written as a sum",
        (CODEC, "const HEADER_LEN: usize = 24;", "const HEADER_LEN: usize = 8 + 16;"))
neutral("N.quiet-inline", "SetQuietly arm without the temporary",
        (HANDLER, "                let response = self.set(set_req, &mut response_header);\n                into_quiet_mutation(response)", "                into_quiet_mutation(self.set(set_req, &mut response_header))"))
neutral("N.skip-via-saturating", "oversized arm: remainder computed with saturating_sub",
        (CONN, "let skip = (body_length - buffered) as u32;", "let skip = body_length.saturating_sub(buffered) as u32;"))


neutral("N.flush-deadline-form", "delayed flush written with absolute deadlines (same behaviour)",
        (STORE, "                let age = now.saturating_sub(value.header.timestamp);\n                let time_to_live = age\n                    .saturating_add(header.time_to_live as u64)\n                    .min(u32::MAX as u64) as u32;\n                if value.header.time_to_live == 0 || time_to_live < value.header.time_to_live {\n                    value.header.time_to_live = time_to_live;\n                }", "                let ts = value.header.timestamp.min(now);\n                let deadline = now.saturating_add(header.time_to_live as u64);\n                let own = ts.saturating_add(value.header.time_to_live as u64);\n                if value.header.time_to_live == 0 || deadline < own {\n                    value.header.time_to_live = (deadline - ts).min(u32::MAX as u64) as u32;\n                }"))
neutral("N.expiry-predicate-order", "lazy-expiry re-validation compares timestamp first",
        (STORE, "            stored.header.cas == record.header.cas\n                && stored.header.timestamp == record.header.timestamp", "            stored.header.timestamp == record.header.timestamp\n                && record.header.cas == stored.header.cas"))
neutral("N.append-via-vec", "append builds the value in a Vec",
        (MEMC, "                let mut value =\n                    BytesMut::with_capacity(record.value.len() + new_record.value.len());\n                value.extend_from_slice(&record.value);\n                value.extend_from_slice(&new_record.value);\n                record.value = value.freeze();\n                self.set(key, record)", "                let mut value: Vec<u8> = Vec::with_capacity(record.value.len() + new_record.value.len());\n                value.extend_from_slice(&record.value);\n                value.extend_from_slice(&new_record.value);\n                record.value = Bytes::from(value);\n                self.set(key, record)"))
neutral("N.policy-delete-match", "RandomPolicy::delete with match instead of if let",
        (POLICY, "        if let Ok(record) = &result {\n            self.decr_mem_usage(record.len() as u64);\n        }\n        result", "        match &result {\n            Ok(record) => {\n                self.decr_mem_usage(record.len() as u64);\n            }\n            Err(_) => {}\n        }\n        result"))
neutral("N.oversized-method-min", "oversized arm uses usize::min method",
        (CONN, "let buffered = cmp::min(body_length, self.buffer.len());", "let buffered = self.buffer.len().min(body_length);"))
neutral("N.decode-len-compare-flipped", "decode compares src.len() < body_length",
        (CODEC, "        if (self.header.body_length as usize) > src.len() {\n            return Ok(None);", "        if src.len() < (self.header.body_length as usize) {\n            return Ok(None);"))
neutral("N.timer-explicit-burst", "the timer states the default catch-up behaviour explicitly",
        (TIMER, "        let mut interval = interval_at(start, Duration::from_secs(1));", "        let mut interval = interval_at(start, Duration::from_secs(1));\n        interval.set_missed_tick_behavior(tokio::time::MissedTickBehavior::Burst);"), properties=["C20"])
neutral("N.slot-guard", "the permit is returned by the Drop of a guard value owned by the Client",
        (CLIENT, "    limit_connections: Arc<Semaphore>,\n}\n\nimpl Client {", "    slot: SlotGuard,\n}\n\n/// returns the connection slot when the connection task ends, however it ends\nstruct SlotGuard {\n    limit_connections: Arc<Semaphore>,\n}\n\nimpl Drop for SlotGuard {\n    fn drop(&mut self) {\n        self.limit_connections.add_permits(1);\n    }\n}\n\nimpl Client {"),
        (CLIENT, "            handler: handler::BinaryHandler::new(store),\n            limit_connections,\n        }", "            handler: handler::BinaryHandler::new(store),\n            slot: SlotGuard { limit_connections },\n        }"),
        (CLIENT, "        self.limit_connections.add_permits(1);\n    }\n}\n\nfn log_error", "    }\n}\n\nfn log_error"),
        properties=["C17", "C18", "C10", "C16"])
neutral("N.policy-get-by-trait-default", "RandomPolicy drops its get override: the trait's default get runs the same two inner calls",
        (POLICY, "    fn get(&self, key: &KeyType) -> Result<Record> {\n        self.store.get(key)\n    }\n\n", ""))
neutral("N.delete-entry-api", "MemoryStore::delete through the entry API (compare and remove under the shard lock)",
        (STORE, '        let mut cas_match: Option<bool> = None;\n        match self.memory.remove_if(&key, |_key, record| -> bool {\n            let result = header.cas == 0 || record.header.cas == header.cas;\n            cas_match = Some(result);\n            result\n        }) {\n            Some(key_value) => Ok(key_value.1),\n            None => match cas_match {\n                Some(_value) => Err(CacheError::KeyExists),\n                None => Err(CacheError::NotFound),\n            },\n        }', '        match self.memory.entry(key) {\n            Entry::Occupied(entry) => {\n                if header.cas == 0 || entry.get().header.cas == header.cas {\n                    Ok(entry.remove())\n                } else {\n                    Err(CacheError::KeyExists)\n                }\n            }\n            Entry::Vacant(_vacant) => Err(CacheError::NotFound),\n        }'))
neutral("N.expiry-saturating-add", 'the expiry sum written with saturating_add',
        ('memcrs/src/memory_store/store.rs', '        if record.header.timestamp + (record.header.time_to_live as u64) > current_time {', '        if record.header.timestamp.saturating_add(record.header.time_to_live as u64) > current_time {'))
neutral("N.expiry-sub-form", 'expiry predicate as now < timestamp + u64::from(ttl)',
        ('memcrs/src/memory_store/store.rs', '        if record.header.timestamp + (record.header.time_to_live as u64) > current_time {', '        if current_time < record.header.timestamp + u64::from(record.header.time_to_live) {'))
neutral("N.handle-while-let", 'Client::handle as `while let Ok(frame) = timeout(..)`',
        ('memcrs/src/memcache_server/client_handler.rs', '        loop {\n            match timeout(\n                Duration::from_secs(self.config.rx_timeout_secs as u64),\n                self.stream.read_frame(),\n            )\n            .await\n            {\n                Ok(req_or_none) => {\n                    let client_close = self.handle_frame(req_or_none).await;\n                    if client_close {\n                        return;\n                    }\n                }\n                Err(err) => {\n                    debug!(\n                        "Timeout {}s elapsed, disconecting client: {}, error: {}",\n                        self.config.rx_timeout_secs, self.addr, err\n                    );\n                    return;\n                }\n            }\n        }', '        while let Ok(req_or_none) = timeout(\n            Duration::from_secs(self.config.rx_timeout_secs as u64),\n            self.stream.read_frame(),\n        )\n        .await\n        {\n            if self.handle_frame(req_or_none).await {\n                return;\n            }\n        }\n        debug!(\n            "Timeout {}s elapsed, disconecting client: {}",\n            self.config.rx_timeout_secs, self.addr\n        );'))
neutral("N.memc-add-if-let", 'MemcStore::add with is_ok() and early return',
        ('memcrs/src/memcache/store.rs', '        match self.get(&key) {\n            Ok(_record) => Err(CacheError::KeyExists),\n            Err(_err) => self.set(key, record),\n        }', '        if self.get(&key).is_ok() {\n            return Err(CacheError::KeyExists);\n        }\n        self.set(key, record)'))
neutral("N.builder-if", 'from_config with if-let and early return',
        ('memcrs/src/memcache/builder.rs', '        let store: Arc<dyn Cache + Send + Sync> = match config.policy {\n            EvictionPolicy::Random => {\n                Arc::new(RandomPolicy::new(store_engine, config.memory_limit))\n            }\n            EvictionPolicy::None => store_engine,\n        };\n        store', '        if let EvictionPolicy::Random = config.policy {\n            return Arc::new(RandomPolicy::new(store_engine, config.memory_limit));\n        }\n        store_engine'))
neutral("N.delete-policy-inspect", 'policy delete credits the usage through Result::inspect',
        ('memcrs/src/memcache/random_policy.rs', '        let result = self.store.delete(key, header);\n        if let Ok(record) = &result {\n            self.decr_mem_usage(record.len() as u64);\n        }\n        result', '        self.store.delete(key, header).inspect(|record| {\n            self.decr_mem_usage(record.len() as u64);\n        })'))
neutral("N.ms-get-override", "MemoryStore overrides Cache::get with the same two steps",
        ('memcrs/src/memory_store/store.rs', 'impl Cache for MemoryStore {\n', 'impl Cache for MemoryStore {\n    fn get(&self, key: &KeyType) -> Result<Record> {\n        let record = impl_details::CacheImplDetails::get_by_key(self, key)?;\n        if impl_details::CacheImplDetails::check_if_expired(self, key, &record) {\n            return Err(CacheError::NotFound);\n        }\n        Ok(record)\n    }\n\n'))
neutral("N.ms-hit-counter", 'a statistics counter (second AtomicU64) in MemoryStore',
        ('memcrs/src/memory_store/store.rs', '    cas_id: AtomicU64,\n}', '    cas_id: AtomicU64,\n    lookups: AtomicU64,\n}'), ('memcrs/src/memory_store/store.rs', '            cas_id: AtomicU64::new(1),\n', '            cas_id: AtomicU64::new(1),\n            lookups: AtomicU64::new(0),\n'), ('memcrs/src/memory_store/store.rs', '    fn get_by_key(&self, key: &KeyType) -> Result<Record> {\n', '    fn get_by_key(&self, key: &KeyType) -> Result<Record> {\n        self.lookups.fetch_add(1, Ordering::Relaxed);\n'))
neutral("N.rp-eviction-counter", 'an eviction counter (second AtomicU64) in RandomPolicy',
        ('memcrs/src/memcache/random_policy.rs', '    memory_usage: atomic::AtomicU64,\n}', '    memory_usage: atomic::AtomicU64,\n    evictions: atomic::AtomicU64,\n}'), ('memcrs/src/memcache/random_policy.rs', '            memory_usage: atomic::AtomicU64::new(0),\n', '            memory_usage: atomic::AtomicU64::new(0),\n            evictions: atomic::AtomicU64::new(0),\n'), ('memcrs/src/memcache/random_policy.rs', '                    debug!("Evicted: {} bytes from storage", len);\n', '                    debug!("Evicted: {} bytes from storage", len);\n                    self.evictions.fetch_add(1, atomic::Ordering::Relaxed);\n'))
neutral("N.decr-fetch-update-wrapping", 'usage decrement as fetch_update(|v| Some(v.wrapping_sub(n)))',
        ('memcrs/src/memcache/random_policy.rs', '        self.memory_usage\n            .fetch_sub(value, atomic::Ordering::Release)', '        self.memory_usage\n            .fetch_update(atomic::Ordering::Release, atomic::Ordering::Relaxed, |v| Some(v.wrapping_sub(value)))\n            .unwrap_or_else(|v| v)'))
neutral("N.decr-fetch-add-neg", 'usage decrement as fetch_add(n.wrapping_neg())',
        ('memcrs/src/memcache/random_policy.rs', '        self.memory_usage\n            .fetch_sub(value, atomic::Ordering::Release)', '        self.memory_usage\n            .fetch_add(value.wrapping_neg(), atomic::Ordering::Release)'))
neutral("N.get-body-len-key-u16", "key.len() as u16 as u32 in the hit response length (a key is at most 250 bytes)",
        ('memcrs/src/memcache_server/handler.rs', '            record.value.len() as u32 + EXTRAS_LENGTH as u32 + key.len() as u32;', '            record.value.len() as u32 + EXTRAS_LENGTH as u32 + key.len() as u16 as u32;'))
neutral("N.request-valid-reordered", "request_valid tests in another order and with <=",
        (CODEC, "        if self.header.extras_length > 20 {\n            return false;\n        }\n\n        if self.header.key_length > 250 {\n            return false;\n        }", "        if self.header.key_length >= 251 {\n            return false;\n        }\n\n        if !(self.header.extras_length <= 20) {\n            return false;\n        }"))
neutral("N.handler-get-key-len-once", "hit response computes key length once",
        (HANDLER, "                response_header.body_length =\n                    record.value.len() as u32 + EXTRAS_LENGTH as u32 + key.len() as u32;\n                response_header.key_length = key.len() as u16;", "                let key_len = key.len();\n                response_header.key_length = key_len as u16;\n                response_header.body_length =\n                    key_len as u32 + record.value.len() as u32 + EXTRAS_LENGTH as u32;"))
neutral("N.client-drop-block", "Client::drop with a local binding",
        (CLIENT, "        self.limit_connections.add_permits(1);", "        let sem = &self.limit_connections;\n        sem.add_permits(1);"))
neutral("N.set-early-return", "MemoryStore::set: unconditional path first with early return",
        (STORE, "    fn set(&self, key: KeyType, mut record: Record) -> Result<SetStatus> {\n        //trace!(\"Set: {:?}\", &record.header);\n        if record.header.cas > 0 {", "    fn set(&self, key: KeyType, mut record: Record) -> Result<SetStatus> {\n        if record.header.cas == 0 {\n            let cas = self.get_cas_id();\n            record.header.cas = cas;\n            record.header.timestamp = self.timer.timestamp();\n            self.memory.insert(key, record);\n            return Ok(SetStatus { cas });\n        }\n        if record.header.cas > 0 {"))
neutral("N.add-delta-match", "add_delta's increment written with match on the flag",
        (MEMC, "                        if increment {\n                            value = value.wrapping_add(delta.delta);\n                        } else if delta.delta > value {\n                            value = 0;\n                        } else {\n                            value -= delta.delta;\n                        }", "                        value = match increment {\n                            true => value.wrapping_add(delta.delta),\n                            false => value.saturating_sub(delta.delta),\n                        };"))

json.dump(S, open(os.path.join(HERE, "seeds.json"), "w"), indent=1)
json.dump(N, open(os.path.join(HERE, "neutral.json"), "w"), indent=1)
print(len(S), "seeds", len(N), "neutral")
