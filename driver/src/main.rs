// memc-facts: a rustc driver that dumps the resolved program (built MIR with
// resolved callees, types, ADT tables, impl tables) of the crate being compiled
// as one JSON file. Injected with RUSTC_WORKSPACE_WRAPPER, so it sees exactly
// the flags/cfgs/features of the real build of the workspace members.
//
// Environment:
//   MEMC_FACTS_DIR   directory to write <crate>.<kind>.json into (required to dump)
//   MEMC_FACTS_NONCE echoed into the fact file (freshness check by the caller)
#![feature(rustc_private)]
#![allow(unused_imports, unused_variables, dead_code)]

extern crate rustc_abi;
extern crate rustc_data_structures;
extern crate rustc_driver;
extern crate rustc_hir;
extern crate rustc_index;
extern crate rustc_interface;
extern crate rustc_middle;
extern crate rustc_session;
extern crate rustc_span;

mod json;
use json::J;

use rustc_driver::{Callbacks, Compilation};
use rustc_hir::def::DefKind;
use rustc_hir::def_id::{DefId, LocalDefId, LOCAL_CRATE};
use rustc_interface::interface::Compiler;
use rustc_middle::mir::{
    AggregateKind, AssertKind, BasicBlock, BinOp, Body, BorrowKind, CastKind, Const, ConstValue,
    Local, Operand, Place, PlaceElem, ProjectionElem, Rvalue, Statement, StatementKind,
    Terminator, TerminatorKind, UnOp, UnwindAction,
};
use rustc_middle::mir::PlaceTy;
use rustc_middle::ty::print::{with_no_trimmed_paths, with_resolve_crate_name};
use rustc_middle::ty::{self, GenericArgsRef, Instance, InstanceKind, Ty, TyCtxt, TypingEnv};
use rustc_span::Span;
use std::collections::HashSet;

struct Cb;

impl Callbacks for Cb {
    fn after_expansion<'tcx>(&mut self, _c: &Compiler, tcx: TyCtxt<'tcx>) -> Compilation {
        if let Ok(dir) = std::env::var("MEMC_FACTS_DIR") {
            dump(tcx, &dir);
        }
        Compilation::Continue
    }
}

fn main() {
    let mut args: Vec<String> = std::env::args().collect();
    // As RUSTC_WORKSPACE_WRAPPER we are called as: <driver> <rustc> <args...>
    if args.len() > 1 && (args[1].ends_with("rustc") || args[1].contains("/rustc")) {
        args.remove(1);
    }
    let mut cb = Cb;
    rustc_driver::run_compiler(&args, &mut cb);
}

fn ty_s<'tcx>(ty: Ty<'tcx>) -> String {
    with_resolve_crate_name!(with_no_trimmed_paths!(format!("{}", ty)))
}

fn path_s<'tcx>(tcx: TyCtxt<'tcx>, d: DefId) -> String {
    with_resolve_crate_name!(with_no_trimmed_paths!(tcx.def_path_str(d)))
}

fn span_j<'tcx>(tcx: TyCtxt<'tcx>, sp: Span) -> J {
    let sm = tcx.sess.source_map();
    // location of the outermost call site (where the user wrote the code)
    let root = sp.source_callsite();
    let lo = sm.lookup_char_pos(root.lo());
    let file = format!("{}", lo.file.name.prefer_local_unconditionally());
    let mut o = J::obj()
        .set("file", J::s(file))
        .set("line", J::Int(lo.line as i128))
        .set("col", J::Int(lo.col.0 as i128 + 1));
    if sp.from_expansion() {
        let ed = sp.ctxt().outer_expn_data();
        let m = match ed.macro_def_id {
            Some(d) => path_s(tcx, d),
            None => format!("{:?}", ed.kind),
        };
        o.put("exp", J::s(m));
        // is the macro defined outside the local crate?
        let ext = match ed.macro_def_id {
            Some(d) => !d.is_local(),
            None => true,
        };
        o.put("exp_external", J::Bool(ext));
        o.put("desugar", J::s(format!("{:?}", ed.kind)));
    }
    o
}

const LOCK_TYPES: &[&str] = &[
    "dashmap::mapref::one::Ref",
    "dashmap::mapref::one::RefMut",
    "dashmap::mapref::one::MappedRef",
    "dashmap::mapref::one::MappedRefMut",
    "dashmap::mapref::multiple::RefMulti",
    "dashmap::mapref::multiple::RefMutMulti",
    "dashmap::mapref::entry::Entry",
    "dashmap::mapref::entry::OccupiedEntry",
    "dashmap::mapref::entry::VacantEntry",
    "dashmap::iter::Iter",
    "dashmap::iter::IterMut",
    "dashmap::iter_set::Iter",
    "dashmap::setref::one::Ref",
    "dashmap::setref::multiple::RefMulti",
    "lock_api::rwlock::RwLockReadGuard",
    "lock_api::rwlock::RwLockWriteGuard",
    "lock_api::mutex::MutexGuard",
    "std::sync::MutexGuard",
    "std::sync::RwLockReadGuard",
    "std::sync::RwLockWriteGuard",
    "std::sync::poison::mutex::MutexGuard",
    "std::sync::poison::rwlock::RwLockReadGuard",
    "std::sync::poison::rwlock::RwLockWriteGuard",
];

fn ty_holds_lock<'tcx>(tcx: TyCtxt<'tcx>, ty: Ty<'tcx>, depth: usize, why: &mut Option<String>) -> bool {
    if depth > 8 {
        return false;
    }
    match ty.kind() {
        ty::Adt(adt, args) => {
            let p = with_no_trimmed_paths!(tcx.def_path_str(adt.did()));
            if LOCK_TYPES.iter().any(|l| *l == p) {
                if why.is_none() {
                    *why = Some(p);
                }
                return true;
            }
            if adt.is_box() {
                return ty_holds_lock(tcx, args.type_at(0), depth + 1, why);
            }
            // do not look inside std/alloc/core collections beyond their type args
            for v in adt.variants() {
                for f in v.fields.iter() {
                    let fty = f.ty(tcx, args);
                    if ty_holds_lock(tcx, fty, depth + 1, why) {
                        return true;
                    }
                }
            }
            // type arguments (e.g. Vec<Ref<..>>, PhantomData excluded by fields walk above)
            for a in args.types() {
                if !adt.did().is_local() && ty_holds_lock(tcx, a, depth + 1, why) {
                    // only count if not merely PhantomData: conservative yes
                    return true;
                }
            }
            false
        }
        ty::Tuple(ts) => ts.iter().any(|t| ty_holds_lock(tcx, t, depth + 1, why)),
        ty::Array(t, _) | ty::Slice(t) => ty_holds_lock(tcx, *t, depth + 1, why),
        ty::Closure(_, args) => args
            .as_closure()
            .upvar_tys()
            .iter()
            .any(|t| ty_holds_lock(tcx, t, depth + 1, why)),
        ty::Coroutine(_, args) => args
            .as_coroutine()
            .upvar_tys()
            .iter()
            .any(|t| ty_holds_lock(tcx, t, depth + 1, why)),
        _ => false,
    }
}

struct Cx<'a, 'tcx> {
    tcx: TyCtxt<'tcx>,
    body: &'a Body<'tcx>,
    def: LocalDefId,
    tenv: TypingEnv<'tcx>,
}

impl<'a, 'tcx> Cx<'a, 'tcx> {
    fn place(&self, p: &Place<'tcx>) -> J {
        let tcx = self.tcx;
        let mut pty = PlaceTy::from_ty(self.body.local_decls[p.local].ty);
        let mut projs = Vec::new();
        for elem in p.projection.iter() {
            let j = match elem {
                ProjectionElem::Deref => J::s("*"),
                ProjectionElem::Field(f, _fty) => {
                    let name = self.field_name(pty, f.index());
                    let mut o = J::obj().set("f", J::Int(f.index() as i128)).set("n", J::s(name));
                    // the struct/enum the field belongs to (lets the analysis identify a private field by its owner)
                    if let ty::Adt(adt, _) = pty.ty.kind() {
                        o.put("a", J::s(path_s(tcx, adt.did())));
                    }
                    o
                }
                ProjectionElem::Downcast(sym, vi) => {
                    let name = match pty.ty.kind() {
                        ty::Adt(adt, _) if adt.is_enum() => adt.variant(vi).name.to_string(),
                        _ => sym.map(|s| s.to_string()).unwrap_or_default(),
                    };
                    J::obj().set("v", J::Int(vi.index() as i128)).set("n", J::s(name))
                }
                ProjectionElem::Index(l) => J::obj().set("idx", J::Int(l.index() as i128)),
                ProjectionElem::ConstantIndex { offset, from_end, .. } => J::obj()
                    .set("cidx", J::Int(offset as i128))
                    .set("from_end", J::Bool(from_end)),
                ProjectionElem::Subslice { from, to, from_end } => J::obj()
                    .set("sub", J::Arr(vec![J::Int(from as i128), J::Int(to as i128)]))
                    .set("from_end", J::Bool(from_end)),
                ProjectionElem::OpaqueCast(_) => J::s("opaque"),
                ProjectionElem::UnwrapUnsafeBinder(_) => J::s("unwrap_binder"),
                #[allow(unreachable_patterns)]
                _ => J::s("other"),
            };
            projs.push(j);
            pty = pty.projection_ty(tcx, elem);
        }
        J::obj()
            .set("l", J::Int(p.local.index() as i128))
            .set("p", J::Arr(projs))
    }

    fn field_name(&self, pty: PlaceTy<'tcx>, idx: usize) -> String {
        let tcx = self.tcx;
        match pty.ty.kind() {
            ty::Adt(adt, _) => {
                let vi = match pty.variant_index {
                    Some(v) => v,
                    None => {
                        if adt.is_enum() {
                            return format!("{}", idx);
                        }
                        rustc_abi::FIRST_VARIANT
                    }
                };
                let v = adt.variant(vi);
                match v.fields.iter().nth(idx) {
                    Some(f) => f.name.to_string(),
                    None => format!("{}", idx),
                }
            }
            ty::Closure(did, _) | ty::Coroutine(did, _) | ty::CoroutineClosure(did, _) => {
                if let Some(ld) = did.as_local() {
                    let caps = tcx.closure_captures(ld);
                    if let Some(c) = caps.get(idx) {
                        return format!("^{}", c.to_symbol());
                    }
                }
                format!("^{}", idx)
            }
            _ => format!("{}", idx),
        }
    }

    fn operand(&self, o: &Operand<'tcx>) -> J {
        match o {
            Operand::Copy(p) => J::obj().set("copy", self.place(p)),
            Operand::Move(p) => J::obj().set("move", self.place(p)),
            Operand::Constant(c) => J::obj().set("const", self.constant(&c.const_, c.span)),
            #[allow(unreachable_patterns)]
            _ => J::obj().set("other", J::s(format!("{:?}", o))),
        }
    }

    fn constant(&self, c: &Const<'tcx>, _sp: Span) -> J {
        let tcx = self.tcx;
        let ty = c.ty();
        let mut o = J::obj().set("ty", J::s(ty_s(ty)));
        match ty.kind() {
            ty::FnDef(did, args) => {
                o.put("fn", J::s(path_s(tcx, *did)));
                o.put("args", J::s(with_resolve_crate_name!(with_no_trimmed_paths!(format!("{:?}", args)))));
            }
            ty::Bool | ty::Int(_) | ty::Uint(_) | ty::Char => {
                if let Some(si) = c.try_eval_scalar_int(tcx, self.tenv) {
                    let size = si.size();
                    let bits = si.to_bits(size);
                    let v: i128 = match ty.kind() {
                        ty::Int(_) => size.sign_extend(bits) as i128,
                        _ => bits as i128,
                    };
                    o.put("val", J::Int(v));
                } else {
                    o.put("uneval", J::s(format!("{:?}", c)));
                }
            }
            ty::Ref(_, inner, _) if inner.is_str() => {
                let cv = match c {
                    Const::Val(cv, _) => Some(*cv),
                    _ => c.eval(tcx, self.tenv, _sp).ok(),
                };
                if let Some(cv) = cv {
                    if let Some(bytes) = cv.try_get_slice_bytes_for_diagnostics(tcx) {
                        o.put("str", J::s(String::from_utf8_lossy(bytes).to_string()));
                    }
                }
            }
            ty::Adt(adt, _) => {
                // unit-like enum constant: try to give the variant
                o.put("repr", J::s(with_resolve_crate_name!(with_no_trimmed_paths!(format!("{}", c)))));
                // named constants of struct type (e.g. a Duration): evaluated form
                if let Const::Unevaluated(..) = c {
                    if let Ok(cv) = c.eval(tcx, self.tenv, _sp) {
                        let ev = Const::Val(cv, ty);
                        o.put("evalrepr", J::s(with_resolve_crate_name!(with_no_trimmed_paths!(format!("{}", ev)))));
                    }
                }
            }
            ty::Closure(did, _) => {
                o.put("closure", J::s(path_s(tcx, *did)));
            }
            _ => {
                o.put("repr", J::s(with_resolve_crate_name!(with_no_trimmed_paths!(format!("{}", c)))));
            }
        }
        if let Const::Unevaluated(uv, _) = c {
            o.put("def", J::s(path_s(tcx, uv.def)));
        }
        o
    }

    fn rvalue(&self, rv: &Rvalue<'tcx>) -> J {
        let tcx = self.tcx;
        match rv {
            Rvalue::Use(o, _) => J::obj().set("k", J::s("use")).set("o", self.operand(o)),
            Rvalue::Repeat(o, _) => J::obj().set("k", J::s("repeat")).set("o", self.operand(o)),
            Rvalue::Ref(_, bk, p) => J::obj()
                .set("k", J::s("ref"))
                .set("mut", J::Bool(matches!(bk, BorrowKind::Mut { .. })))
                .set("bk", J::s(format!("{:?}", bk)))
                .set("place", self.place(p)),
            Rvalue::RawPtr(_, p) => J::obj().set("k", J::s("rawptr")).set("place", self.place(p)),
            Rvalue::Cast(kind, o, ty) => J::obj()
                .set("k", J::s("cast"))
                .set("kind", J::s(format!("{:?}", kind)))
                .set("o", self.operand(o))
                .set("oty", J::s(ty_s(o.ty(&self.body.local_decls, tcx))))
                .set("ty", J::s(ty_s(*ty))),
            Rvalue::BinaryOp(op, ops) => J::obj()
                .set("k", J::s("binop"))
                .set("op", J::s(format!("{:?}", op)))
                .set("oty", J::s(ty_s(ops.0.ty(&self.body.local_decls, tcx))))
                .set("l", self.operand(&ops.0))
                .set("r", self.operand(&ops.1)),
            Rvalue::UnaryOp(op, o) => J::obj()
                .set("k", J::s("unop"))
                .set("op", J::s(format!("{:?}", op)))
                .set("oty", J::s(ty_s(o.ty(&self.body.local_decls, tcx))))
                .set("o", self.operand(o)),
            Rvalue::Discriminant(p) => {
                J::obj().set("k", J::s("discr")).set("place", self.place(p))
            }
            Rvalue::Aggregate(kind, ops) => {
                let mut o = J::obj().set("k", J::s("agg"));
                match &**kind {
                    AggregateKind::Array(_) => o.put("ak", J::s("array")),
                    AggregateKind::Tuple => o.put("ak", J::s("tuple")),
                    AggregateKind::Adt(did, vi, _args, _, _union_field) => {
                        let adt = tcx.adt_def(*did);
                        let v = adt.variant(*vi);
                        o.put("ak", J::s("adt"));
                        o.put("adt", J::s(path_s(tcx, *did)));
                        o.put("variant", J::s(v.name.to_string()));
                        o.put("vi", J::Int(vi.index() as i128));
                        o.put(
                            "fields",
                            J::Arr(v.fields.iter().map(|f| J::s(f.name.to_string())).collect()),
                        );
                    }
                    AggregateKind::Closure(did, _) => {
                        o.put("ak", J::s("closure"));
                        o.put("def", J::s(path_s(tcx, *did)));
                    }
                    AggregateKind::Coroutine(did, _) => {
                        o.put("ak", J::s("coroutine"));
                        o.put("def", J::s(path_s(tcx, *did)));
                    }
                    AggregateKind::CoroutineClosure(did, _) => {
                        o.put("ak", J::s("coroutine_closure"));
                        o.put("def", J::s(path_s(tcx, *did)));
                    }
                    AggregateKind::RawPtr(..) => o.put("ak", J::s("rawptr")),
                    #[allow(unreachable_patterns)]
                    _ => o.put("ak", J::s("other")),
                }
                o.put("ops", J::Arr(ops.iter().map(|x| self.operand(x)).collect()));
                o
            }
            Rvalue::CopyForDeref(p) => J::obj()
                .set("k", J::s("use"))
                .set("o", J::obj().set("copy", self.place(p))),
            Rvalue::ThreadLocalRef(d) => {
                J::obj().set("k", J::s("tls")).set("def", J::s(path_s(tcx, *d)))
            }
            #[allow(unreachable_patterns)]
            other => J::obj()
                .set("k", J::s("other"))
                .set("repr", J::s(format!("{:?}", other))),
        }
    }

    fn statement(&self, s: &Statement<'tcx>) -> J {
        let sp = span_j(self.tcx, s.source_info.span);
        match &s.kind {
            StatementKind::Assign(b) => {
                let (p, rv) = &**b;
                J::obj()
                    .set("k", J::s("assign"))
                    .set("place", self.place(p))
                    .set("rv", self.rvalue(rv))
                    .set("span", sp)
            }
            StatementKind::StorageLive(l) => J::obj()
                .set("k", J::s("live"))
                .set("l", J::Int(l.index() as i128)),
            StatementKind::StorageDead(l) => J::obj()
                .set("k", J::s("dead"))
                .set("l", J::Int(l.index() as i128)),
            StatementKind::SetDiscriminant { place, variant_index } => J::obj()
                .set("k", J::s("setdiscr"))
                .set("place", self.place(place))
                .set("vi", J::Int(variant_index.index() as i128))
                .set("span", sp),
            StatementKind::FakeRead(..)
            | StatementKind::PlaceMention(..)
            | StatementKind::AscribeUserType(..)
            | StatementKind::Coverage(..)
            | StatementKind::ConstEvalCounter
            | StatementKind::Nop
            | StatementKind::BackwardIncompatibleDropHint { .. } => J::obj().set("k", J::s("nop")),
            StatementKind::Intrinsic(i) => J::obj()
                .set("k", J::s("intrinsic"))
                .set("repr", J::s(format!("{:?}", i)))
                .set("span", sp),
            #[allow(unreachable_patterns)]
            other => J::obj()
                .set("k", J::s("other"))
                .set("repr", J::s(format!("{:?}", other))),
        }
    }

    fn callee(&self, func: &Operand<'tcx>) -> J {
        let tcx = self.tcx;
        let fty = func.ty(&self.body.local_decls, tcx);
        let mut o = J::obj();
        match fty.kind() {
            ty::FnDef(did, args) => {
                o.put("path", J::s(path_s(tcx, *did)));
                o.put("name", J::s(tcx.item_name(*did).to_string()));
                o.put(
                    "targs",
                    J::Arr(args.iter().map(|a| J::s(with_resolve_crate_name!(with_no_trimmed_paths!(format!("{}", a))))).collect()),
                );
                o.put("local", J::Bool(did.is_local()));
                // is it an associated item of a trait?
                if let Some(tr) = tcx.trait_of_assoc(*did) {
                    o.put("trait", J::s(path_s(tcx, tr)));
                    if args.len() > 0 {
                        if let Some(t) = args[0].as_type() {
                            o.put("self_ty", J::s(ty_s(t)));
                        }
                    }
                } else if let Some(imp) = tcx.impl_of_assoc(*did) {
                    let st = tcx.type_of(imp).instantiate(tcx, args).skip_norm_wip();
                    o.put("self_ty", J::s(ty_s(st)));
                    o.put("inherent_impl", J::Bool(true));
                }
                match Instance::try_resolve(tcx, self.tenv, *did, args) {
                    Ok(Some(inst)) => {
                        let rd = inst.def_id();
                        o.put("resolved", J::s(path_s(tcx, rd)));
                        o.put("resolved_local", J::Bool(rd.is_local()));
                        let ik = match inst.def {
                            InstanceKind::Item(_) => "item",
                            InstanceKind::Intrinsic(_) => "intrinsic",
                            InstanceKind::Virtual(..) => "virtual",
                            InstanceKind::ClosureOnceShim { .. } => "closure_once_shim",
                            InstanceKind::FnPtrShim(..) => "fnptr_shim",
                            InstanceKind::ReifyShim(..) => "reify_shim",
                            InstanceKind::DropGlue(..) => "drop_glue",
                            InstanceKind::CloneShim(..) => "clone_shim",
                            InstanceKind::VTableShim(..) => "vtable_shim",
                            _ => "other",
                        };
                        o.put("ikind", J::s(ik));
                        if let Some(imp) = tcx.impl_of_assoc(rd) {
                            let st = tcx.type_of(imp).instantiate_identity().skip_norm_wip();
                            o.put("impl_self", J::s(ty_s(st)));
                        }
                    }
                    Ok(None) => {
                        o.put("ikind", J::s("unresolved"));
                    }
                    Err(_) => {
                        o.put("ikind", J::s("error"));
                    }
                }
            }
            ty::FnPtr(..) => {
                o.put("fnptr", self.operand(func));
                o.put("ikind", J::s("fnptr"));
            }
            _ => {
                o.put("indirect", self.operand(func));
                o.put("ikind", J::s("indirect"));
                o.put("ty", J::s(ty_s(fty)));
            }
        }
        o
    }

    fn bb(b: &BasicBlock) -> J {
        J::Int(b.index() as i128)
    }

    fn unwind(u: &UnwindAction) -> J {
        match u {
            UnwindAction::Cleanup(b) => Self::bb(b),
            _ => J::Null,
        }
    }

    fn terminator(&self, t: &Terminator<'tcx>) -> J {
        let sp = span_j(self.tcx, t.source_info.span);
        let o = match &t.kind {
            TerminatorKind::Goto { target } => {
                J::obj().set("k", J::s("goto")).set("t", Self::bb(target))
            }
            TerminatorKind::SwitchInt { discr, targets } => {
                let mut ts = Vec::new();
                for (v, b) in targets.iter() {
                    ts.push(J::Arr(vec![J::Int(v as i128), Self::bb(&b)]));
                }
                let dty = discr.ty(&self.body.local_decls, self.tcx);
                J::obj()
                    .set("k", J::s("switch"))
                    .set("discr", self.operand(discr))
                    .set("dty", J::s(ty_s(dty)))
                    .set("targets", J::Arr(ts))
                    .set("otherwise", Self::bb(&targets.otherwise()))
            }
            TerminatorKind::UnwindResume => J::obj().set("k", J::s("resume")),
            TerminatorKind::UnwindTerminate(_) => J::obj().set("k", J::s("terminate")),
            TerminatorKind::Return => J::obj().set("k", J::s("return")),
            TerminatorKind::Unreachable => J::obj().set("k", J::s("unreachable")),
            TerminatorKind::Drop { place, target, unwind, .. } => J::obj()
                .set("k", J::s("drop"))
                .set("place", self.place(place))
                .set("t", Self::bb(target))
                .set("unwind", Self::unwind(unwind)),
            TerminatorKind::Call { func, args, destination, target, unwind, fn_span, .. } => {
                J::obj()
                    .set("k", J::s("call"))
                    .set("callee", self.callee(func))
                    .set("args", J::Arr(args.iter().map(|a| self.operand(&a.node)).collect()))
                    .set("dest", self.place(destination))
                    .set("t", target.as_ref().map(Self::bb).unwrap_or(J::Null))
                    .set("unwind", Self::unwind(unwind))
                    .set("fn_span", span_j(self.tcx, *fn_span))
            }
            TerminatorKind::TailCall { func, args, .. } => J::obj()
                .set("k", J::s("tailcall"))
                .set("callee", self.callee(func))
                .set("args", J::Arr(args.iter().map(|a| self.operand(&a.node)).collect())),
            TerminatorKind::Assert { cond, expected, msg, target, unwind } => {
                let m = match &**msg {
                    AssertKind::Overflow(op, l, r) => J::obj()
                        .set("kind", J::s("Overflow"))
                        .set("op", J::s(format!("{:?}", op)))
                        .set("l", self.operand(l))
                        .set("r", self.operand(r)),
                    AssertKind::OverflowNeg(x) => {
                        J::obj().set("kind", J::s("OverflowNeg")).set("l", self.operand(x))
                    }
                    AssertKind::DivisionByZero(x) => {
                        J::obj().set("kind", J::s("DivisionByZero")).set("l", self.operand(x))
                    }
                    AssertKind::RemainderByZero(x) => {
                        J::obj().set("kind", J::s("RemainderByZero")).set("l", self.operand(x))
                    }
                    AssertKind::BoundsCheck { len, index } => J::obj()
                        .set("kind", J::s("BoundsCheck"))
                        .set("len", self.operand(len))
                        .set("index", self.operand(index)),
                    other => J::obj().set("kind", J::s(format!("{:?}", other))),
                };
                J::obj()
                    .set("k", J::s("assert"))
                    .set("cond", self.operand(cond))
                    .set("expected", J::Bool(*expected))
                    .set("msg", m)
                    .set("t", Self::bb(target))
                    .set("unwind", Self::unwind(unwind))
            }
            TerminatorKind::Yield { value, resume, resume_arg, drop } => J::obj()
                .set("k", J::s("yield"))
                .set("value", self.operand(value))
                .set("t", Self::bb(resume))
                .set("resume_arg", self.place(resume_arg))
                .set("drop", drop.as_ref().map(Self::bb).unwrap_or(J::Null)),
            TerminatorKind::CoroutineDrop => J::obj().set("k", J::s("coroutine_drop")),
            TerminatorKind::FalseEdge { real_target, imaginary_target } => J::obj()
                .set("k", J::s("goto"))
                .set("t", Self::bb(real_target))
                .set("imaginary", Self::bb(imaginary_target)),
            TerminatorKind::FalseUnwind { real_target, .. } => {
                J::obj().set("k", J::s("goto")).set("t", Self::bb(real_target)).set("false_unwind", J::Bool(true))
            }
            TerminatorKind::InlineAsm { .. } => J::obj().set("k", J::s("asm")),
        };
        o.set("span", sp)
    }
}

fn body_kind<'tcx>(tcx: TyCtxt<'tcx>, def: LocalDefId) -> Option<&'static str> {
    let did = def.to_def_id();
    match tcx.def_kind(did) {
        DefKind::Fn => Some("fn"),
        DefKind::AssocFn => Some("assoc_fn"),
        DefKind::Closure => {
            if tcx.is_coroutine(did) {
                Some("coroutine")
            } else {
                Some("closure")
            }
        }
        DefKind::SyntheticCoroutineBody => Some("coroutine"),
        _ => None,
    }
}

fn dump_body<'tcx>(tcx: TyCtxt<'tcx>, def: LocalDefId, body: &Body<'tcx>) -> Option<J> {
    let did = def.to_def_id();
    let kind = tcx.def_kind(did);
    let kind_s = match kind {
        DefKind::Fn => "fn",
        DefKind::AssocFn => "assoc_fn",
        DefKind::Closure => {
            if tcx.is_coroutine(did) {
                "coroutine"
            } else {
                "closure"
            }
        }
        DefKind::SyntheticCoroutineBody => "coroutine",
        _ => return None,
    };
    let tenv = TypingEnv::post_analysis(tcx, did);
    let cx = Cx { tcx, body, def, tenv };

    let mut o = J::obj()
        .set("path", J::s(path_s(tcx, did)))
        .set("kind", J::s(kind_s))
        .set("span", span_j(tcx, body.span))
        .set("arg_count", J::Int(body.arg_count as i128));
    if let Some(n) = tcx.opt_item_name(did) {
        o.put("name", J::s(n.to_string()));
    }
    if matches!(kind, DefKind::Fn | DefKind::AssocFn) {
        o.put("vis", J::s(format!("{:?}", tcx.visibility(did))));
        o.put("is_async", J::Bool(tcx.asyncness(did).is_async()));
    }
    if let Some(parent) = tcx.opt_parent(did) {
        o.put("parent", J::s(path_s(tcx, parent)));
        o.put("parent_kind", J::s(format!("{:?}", tcx.def_kind(parent))));
        if let DefKind::Impl { of_trait } = tcx.def_kind(parent) {
            let st = tcx.type_of(parent).instantiate_identity().skip_norm_wip();
            o.put("impl_self", J::s(ty_s(st)));
            if of_trait {
                let tr = tcx.impl_trait_ref(parent).instantiate_identity().skip_norm_wip();
                o.put("impl_trait", J::s(path_s(tcx, tr.def_id)));
            }
        }
        if let DefKind::Trait = tcx.def_kind(parent) {
            o.put("trait_default", J::s(path_s(tcx, parent)));
        }
    }
    // the enclosing fn-like item for closures
    let root = tcx.typeck_root_def_id(did);
    o.put("root", J::s(path_s(tcx, root)));

    // closure captures
    if matches!(kind, DefKind::Closure) {
        let caps = tcx.closure_captures(def);
        let mut cj = Vec::new();
        for c in caps.iter() {
            cj.push(
                J::obj()
                    .set("name", J::s(c.to_symbol().to_string()))
                    .set("var", J::s(c.var_ident.name.to_string()))
                    .set("by", J::s(format!("{:?}", c.info.capture_kind)))
                    .set("ty", J::s(ty_s(c.place.ty()))),
            );
        }
        o.put("captures", J::Arr(cj));
    }

    // locals
    let mut names: Vec<Option<String>> = vec![None; body.local_decls.len()];
    let mut dbg = Vec::new();
    for vdi in body.var_debug_info.iter() {
        use rustc_middle::mir::VarDebugInfoContents;
        match &vdi.value {
            VarDebugInfoContents::Place(p) => {
                if p.projection.is_empty() {
                    names[p.local.index()] = Some(vdi.name.to_string());
                }
                dbg.push(J::obj().set("name", J::s(vdi.name.to_string())).set("place", cx.place(p)));
            }
            VarDebugInfoContents::Const(_) => {}
        }
    }
    o.put("debug", J::Arr(dbg));
    let mut locals = Vec::new();
    for (l, d) in body.local_decls.iter_enumerated() {
        let mut lj = J::obj().set("ty", J::s(ty_s(d.ty)));
        if let Some(n) = &names[l.index()] {
            lj.put("name", J::s(n.clone()));
        }
        lj.put("user", J::Bool(d.is_user_variable()));
        lj.put("mut", J::Bool(d.mutability.is_mut()));
        let mut why = None;
        if ty_holds_lock(tcx, d.ty, 0, &mut why) {
            lj.put("lock", J::s(why.unwrap_or_default()));
            if let ty::Adt(adt, args) = d.ty.kind() {
                if adt.is_enum() {
                    let mut vs = Vec::new();
                    for (vi, disc) in adt.discriminants(tcx) {
                        let v = adt.variant(vi);
                        let mut w = None;
                        let holds = v.fields.iter().any(|f| ty_holds_lock(tcx, f.ty(tcx, args), 1, &mut w));
                        vs.push(
                            J::obj()
                                .set("name", J::s(v.name.to_string()))
                                .set("discr", J::Int(disc.val as i128))
                                .set("holds", J::Bool(holds)),
                        );
                    }
                    lj.put("lock_variants", J::Arr(vs));
                }
            }
        }
        locals.push(lj);
    }
    o.put("locals", J::Arr(locals));

    let mut blocks = Vec::new();
    for (_bb, data) in body.basic_blocks.iter_enumerated() {
        let stmts: Vec<J> = data.statements.iter().map(|s| cx.statement(s)).collect();
        let term = cx.terminator(data.terminator());
        blocks.push(
            J::obj()
                .set("stmts", J::Arr(stmts))
                .set("term", term)
                .set("cleanup", J::Bool(data.is_cleanup)),
        );
    }
    o.put("blocks", J::Arr(blocks));
    Some(o)
}

fn dump_types<'tcx>(tcx: TyCtxt<'tcx>) -> (J, J, J, J) {
    let mut adts = Vec::new();
    let mut impls = Vec::new();
    let mut traits = Vec::new();
    let mut consts = Vec::new();
    let items = tcx.hir_crate_items(());
    for ld in items.definitions() {
        let did = ld.to_def_id();
        match tcx.def_kind(did) {
            DefKind::Struct | DefKind::Enum | DefKind::Union => {
                let adt = tcx.adt_def(did);
                let mut vs = Vec::new();
                for (vi, v) in adt.variants().iter_enumerated() {
                    let disc = if adt.is_enum() {
                        J::Int(adt.discriminant_for_variant(tcx, vi).val as i128)
                    } else {
                        J::Null
                    };
                    let fs: Vec<J> = v
                        .fields
                        .iter()
                        .map(|f| {
                            J::obj()
                                .set("name", J::s(f.name.to_string()))
                                .set("ty", J::s(ty_s(tcx.type_of(f.did).instantiate_identity().skip_norm_wip())))
                                .set("vis", J::s(format!("{:?}", f.vis)))
                        })
                        .collect();
                    vs.push(
                        J::obj()
                            .set("name", J::s(v.name.to_string()))
                            .set("discr", disc)
                            .set("fields", J::Arr(fs)),
                    );
                }
                adts.push(
                    J::obj()
                        .set("path", J::s(path_s(tcx, did)))
                        .set("kind", J::s(format!("{:?}", tcx.def_kind(did))))
                        .set("repr", J::s(format!("{:?}", adt.repr().int)))
                        .set("span", span_j(tcx, tcx.def_span(did)))
                        .set("variants", J::Arr(vs)),
                );
            }
            DefKind::Impl { of_trait } => {
                let st = tcx.type_of(did).instantiate_identity().skip_norm_wip();
                let mut o = J::obj()
                    .set("path", J::s(path_s(tcx, did)))
                    .set("self", J::s(ty_s(st)))
                    .set("span", span_j(tcx, tcx.def_span(did)))
                    .set("from_expansion", J::Bool(tcx.def_span(did).from_expansion()));
                if of_trait {
                    let tr = tcx.impl_trait_ref(did).instantiate_identity().skip_norm_wip();
                    o.put("trait", J::s(path_s(tcx, tr.def_id)));
                }
                let mut ms = Vec::new();
                for it in tcx.associated_items(did).in_definition_order() {
                    let mut m = J::obj()
                        .set("name", J::s(it.name().to_string()))
                        .set("path", J::s(path_s(tcx, it.def_id)))
                        .set("kind", J::s(format!("{:?}", it.kind)));
                    if let Some(t) = it.trait_item_def_id() {
                        m.put("trait_item", J::s(path_s(tcx, t)));
                    }
                    ms.push(m);
                }
                o.put("items", J::Arr(ms));
                impls.push(o);
            }
            DefKind::Trait => {
                let mut ms = Vec::new();
                for it in tcx.associated_items(did).in_definition_order() {
                    ms.push(
                        J::obj()
                            .set("name", J::s(it.name().to_string()))
                            .set("path", J::s(path_s(tcx, it.def_id)))
                            .set("has_default", J::Bool(it.defaultness(tcx).has_value())),
                    );
                }
                traits.push(J::obj().set("path", J::s(path_s(tcx, did))).set("items", J::Arr(ms)));
            }
            DefKind::Const { .. } | DefKind::AssocConst { .. } | DefKind::Static { .. } => {
                let ty = tcx.type_of(did).instantiate_identity().skip_norm_wip();
                let mut o = J::obj()
                    .set("path", J::s(path_s(tcx, did)))
                    .set("kind", J::s(format!("{:?}", tcx.def_kind(did))))
                    .set("ty", J::s(ty_s(ty)));
                if matches!(tcx.def_kind(did), DefKind::Static { .. }) {
                    o.put("mutable", J::Bool(tcx.is_mutable_static(did)));
                }
                consts.push(o);
            }
            _ => {}
        }
    }
    (J::Arr(adts), J::Arr(impls), J::Arr(traits), J::Arr(consts))
}

/// rustc prints a definition by its shortest *visible* path over all loaded crates, so a std item is printed under the
/// name of any crate that re-exports it closer to its root (`futures::Future` for `std::future::Future`) as soon as the
/// compiled crate happens to load that crate. The rules name std items by their std path: list every std/core/alloc item
/// that is currently printed under a foreign root together with its shortest path inside the std facade.
fn std_aliases<'tcx>(tcx: TyCtxt<'tcx>) -> J {
    use rustc_hir::def::Res;
    use std::collections::{HashMap, VecDeque};
    let mut facade: HashMap<DefId, String> = HashMap::new();
    for want in ["std", "core", "alloc"] {
        for cnum in tcx.crates(()).iter() {
            if tcx.crate_name(*cnum).as_str() != want {
                continue;
            }
            let mut q: VecDeque<(DefId, String, usize)> = VecDeque::new();
            let mut seen_mod: HashSet<DefId> = HashSet::new();
            q.push_back((cnum.as_def_id(), want.to_string(), 0));
            while let Some((m, path, depth)) = q.pop_front() {
                if depth > 6 || !seen_mod.insert(m) {
                    continue;
                }
                for ch in tcx.module_children(m).iter() {
                    if !ch.vis.is_public() {
                        continue;
                    }
                    if let Res::Def(kind, did) = ch.res {
                        let p = format!("{}::{}", path, ch.ident.name);
                        match kind {
                            DefKind::Mod => q.push_back((did, p, depth + 1)),
                            DefKind::Trait | DefKind::Struct | DefKind::Enum | DefKind::Union | DefKind::Fn | DefKind::TyAlias => {
                                facade.entry(did).or_insert(p);
                            }
                            _ => {}
                        }
                    }
                }
            }
        }
    }
    let mut out: Vec<(String, String)> = Vec::new();
    for (did, std_path) in facade.iter() {
        let shown = path_s(tcx, *did);
        let root = shown.split("::").next().unwrap_or("");
        if root != "std" && root != "core" && root != "alloc" && !shown.starts_with('<') && shown != *std_path {
            out.push((shown, std_path.clone()));
        }
    }
    out.sort();
    J::Arr(out.into_iter().map(|(a, b)| J::Arr(vec![J::s(a), J::s(b)])).collect())
}

fn dump<'tcx>(tcx: TyCtxt<'tcx>, dir: &str) {
    let crate_name = tcx.crate_name(LOCAL_CRATE).to_string();
    let ctypes: Vec<String> = tcx.crate_types().iter().map(|c| format!("{:?}", c)).collect();
    let kind = if ctypes.iter().any(|c| c == "Executable") { "bin" } else { "lib" };
    let is_test = tcx.sess.opts.test;

    let mut bodies = Vec::new();
    let owners: Vec<LocalDefId> = tcx.hir_body_owners().collect();
    // Phase 0: clone every built MIR body before any other query runs: resolving
    // calls to async fns reveals opaque types, which borrow-checks (and thereby
    // steals the built MIR of) other bodies.
    let mut cloned: Vec<(LocalDefId, Body<'tcx>)> = Vec::new();
    for def in owners.iter() {
        if body_kind(tcx, *def).is_some() {
            let b = tcx.mir_built(*def).borrow().clone();
            cloned.push((*def, b));
        }
    }
    for (def, body) in cloned.iter() {
        if let Some(b) = dump_body(tcx, *def, body) {
            bodies.push(b);
        }
    }
    let (adts, impls, traits, consts) = dump_types(tcx);

    // phase 2 (after all built MIR has been serialised): coroutine witnesses
    let mut wit = Vec::new();
    for def in owners.iter() {
        let did = def.to_def_id();
        if tcx.is_coroutine(did) {
            if let Some(layout) = tcx.mir_coroutine_witnesses(did) {
                let mut tys = Vec::new();
                for saved in layout.field_tys.iter() {
                    let mut why = None;
                    let holds = ty_holds_lock(tcx, saved.ty, 0, &mut why);
                    tys.push(
                        J::obj()
                            .set("ty", J::s(ty_s(saved.ty)))
                            .set("lock", J::Bool(holds))
                            .set("span", span_j(tcx, saved.source_info.span)),
                    );
                }
                wit.push(J::obj().set("path", J::s(path_s(tcx, did))).set("saved", J::Arr(tys)));
            }
        }
    }

    let cfgs: Vec<J> = tcx
        .sess
        .config
        .iter()
        .map(|(k, v)| match v {
            Some(v) => J::s(format!("{}={}", k, v)),
            None => J::s(k.to_string()),
        })
        .collect();

    let out = J::obj()
        .set("crate", J::s(crate_name.clone()))
        .set("crate_kind", J::s(kind))
        .set("is_test", J::Bool(is_test))
        .set("nonce", J::s(std::env::var("MEMC_FACTS_NONCE").unwrap_or_default()))
        .set("overflow_checks", J::Bool(tcx.sess.overflow_checks()))
        .set("debug_assertions", J::Bool(tcx.sess.opts.debug_assertions))
        .set("cfg", J::Arr(cfgs))
        .set("rustc", J::s(option_env!("CFG_VERSION").unwrap_or("nightly")))
        .set("bodies", J::Arr(bodies))
        .set("adts", adts)
        .set("impls", impls)
        .set("traits", traits)
        .set("consts", consts)
        .set("coroutine_witnesses", J::Arr(wit))
        .set("std_aliases", std_aliases(tcx));
    let mut s = String::new();
    out.write(&mut s);
    let suffix = if is_test { ".test" } else { "" };
    let fin = format!("{}/{}.{}{}.json", dir, crate_name, kind, suffix);
    let tmp = format!("{}.tmp.{}", fin, std::process::id());
    std::fs::write(&tmp, s).expect("write facts");
    std::fs::rename(&tmp, &fin).expect("rename facts");
}
