// Minimal JSON value + serializer (the driver has zero cargo dependencies).
use std::fmt::Write;

#[derive(Clone, Debug)]
pub enum J {
    Null,
    Bool(bool),
    Int(i128),
    Str(String),
    Arr(Vec<J>),
    Obj(Vec<(String, J)>),
}

impl J {
    pub fn obj() -> J {
        J::Obj(Vec::new())
    }
    pub fn s<T: Into<String>>(s: T) -> J {
        J::Str(s.into())
    }
    pub fn set<T: Into<String>>(mut self, k: T, v: J) -> J {
        if let J::Obj(ref mut m) = self {
            m.push((k.into(), v));
        }
        self
    }
    pub fn put<T: Into<String>>(&mut self, k: T, v: J) {
        if let J::Obj(ref mut m) = self {
            m.push((k.into(), v));
        }
    }
    pub fn write(&self, out: &mut String) {
        match self {
            J::Null => out.push_str("null"),
            J::Bool(b) => out.push_str(if *b { "true" } else { "false" }),
            J::Int(i) => {
                let _ = write!(out, "{}", i);
            }
            J::Str(s) => write_str(s, out),
            J::Arr(a) => {
                out.push('[');
                for (i, v) in a.iter().enumerate() {
                    if i > 0 {
                        out.push(',');
                    }
                    v.write(out);
                }
                out.push(']');
            }
            J::Obj(m) => {
                out.push('{');
                for (i, (k, v)) in m.iter().enumerate() {
                    if i > 0 {
                        out.push(',');
                    }
                    write_str(k, out);
                    out.push(':');
                    v.write(out);
                }
                out.push('}');
            }
        }
    }
}

fn write_str(s: &str, out: &mut String) {
    out.push('"');
    for c in s.chars() {
        match c {
            '"' => out.push_str("\\\""),
            '\\' => out.push_str("\\\\"),
            '\n' => out.push_str("\\n"),
            '\r' => out.push_str("\\r"),
            '\t' => out.push_str("\\t"),
            c if (c as u32) < 0x20 => {
                let _ = write!(out, "\\u{:04x}", c as u32);
            }
            c => out.push(c),
        }
    }
    out.push('"');
}
