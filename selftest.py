"""Self-validation of the rules (thorough tier): every registered seed — a small edit of one
named construct of the *current* tree, applied to a scratch copy outside /repo and /verif —
must make exactly the named rule instance fire; every neutral (behaviour-preserving) variant
must keep the property's rules silent. A seed that no longer applies because /repo moved on,
or that no longer compiles, is reported as skipped, never as a failure of the property."""
import json
import os
import shutil
import subprocess
import sys
import tempfile

HERE = os.path.dirname(os.path.abspath(__file__))
sys.path.insert(0, os.path.join(HERE, "analysis"))


def load(name):
    p = os.path.join(HERE, "selftest", name)
    if not os.path.exists(p):
        return []
    with open(p) as f:
        return json.load(f)


def make_scratch(repo="/repo"):
    d = tempfile.mkdtemp(prefix="memc-selftest-")
    subprocess.check_call("cd %s && tar --exclude=./target --exclude=./.git -cf - . | tar -xf - -C %s" % (repo, d), shell=True)
    return d


def apply_edits(d, edits):
    """edits: list of {file, old, new}; returns None if ok else reason"""
    for e in edits:
        p = os.path.join(d, e["file"])
        if not os.path.exists(p):
            return "file missing: %s" % e["file"]
        s = open(p).read()
        n = s.count(e["old"])
        if n == 0:
            return "construct not found in %s" % e["file"]
        if n > 1 and not e.get("all"):
            idx = e.get("occurrence", 0)
            parts = s.split(e["old"])
            if idx >= len(parts) - 1:
                return "occurrence %d not found" % idx
            s = e["old"].join(parts[: idx + 1]) + e["new"] + e["old"].join(parts[idx + 1 :])
        else:
            s = s.replace(e["old"], e["new"])
        open(p, "w").write(s)
    return None


def run_check(prop, repo):
    out = tempfile.mkdtemp(prefix="memc-selftest-ev-")
    try:
        r = subprocess.run([os.path.join(HERE, "check"), prop, "--repo", repo, "--out", out, "--tier", "quick"], stdout=subprocess.PIPE, stderr=subprocess.PIPE, text=True)
        keys = [l.strip().split("  ")[0] for l in r.stdout.splitlines() if l.startswith("  C")]
        return r.returncode, keys, r.stderr
    finally:
        shutil.rmtree(out, ignore_errors=True)


def run_seed(seed, prop=None):
    prop = prop or seed["property"]
    d = make_scratch()
    try:
        why = apply_edits(d, seed["edits"])
        if why:
            return {"id": seed["id"], "status": "skipped", "reason": why}
        rc, keys, err = run_check(prop, d)
        if rc == 2:
            if "cannot extract facts" in err:
                return {"id": seed["id"], "status": "skipped", "reason": "variant does not compile"}
            return {"id": seed["id"], "status": "error", "reason": err[-400:]}
        return {"id": seed["id"], "status": "ran", "rc": rc, "keys": keys}
    finally:
        shutil.rmtree(d, ignore_errors=True)


def touched_files(patch_path):
    import re

    return set(re.findall(r"^\+\+\+ b/(\S+)", open(patch_path).read(), re.M))


def run_for_property(prop, seed_value=0, only=None, relevant_files=None):
    seeds = [s for s in load("seeds.json") if s["property"] == prop]
    neutrals = load("neutral.json")
    if seed_value:
        import random

        random.Random(seed_value).shuffle(seeds)
    res = {"seeds": 0, "fired": 0, "skipped": [], "failed": [], "neutral": 0, "neutral_silent": 0, "neutral_not_relevant": 0, "details": []}
    if relevant_files is not None:
        res["relevant_files"] = sorted(relevant_files)
    for s in seeds:
        if only and s["id"] not in only:
            continue
        r = run_seed(s)
        res["seeds"] += 1
        if r["status"] == "skipped":
            res["skipped"].append("%s (%s)" % (s["id"], r["reason"]))
            continue
        if r["status"] == "error":
            res["failed"].append("%s: checker error: %s" % (s["id"], r["reason"]))
            continue
        hit = [k for k in r["keys"] if s["expect"] in k]
        if r["rc"] == 1 and hit:
            res["fired"] += 1
            res["details"].append({"seed": s["id"], "what": s["what"], "fires": hit[:3]})
        else:
            res["failed"].append("%s: expected a violation matching '%s', got rc=%s keys=%s" % (s["id"], s["expect"], r["rc"], r["keys"][:4]))
    # independently produced changes kept under /verif/seeded/: every check recorded as firing must still fire
    import glob

    for mp in sorted(glob.glob(os.path.join(HERE, "seeded", "*", "meta.json"))):
        meta = json.load(open(mp))
        if prop not in meta.get("checks_that_fire", []):
            continue
        sid = "seeded/" + meta["id"]
        if only and sid not in only:
            continue
        d = make_scratch()
        try:
            r = subprocess.run(["patch", "-p1", "-s", "-d", d, "-i", os.path.join(os.path.dirname(mp), "patch.diff")], stdout=subprocess.PIPE, stderr=subprocess.STDOUT, text=True)
            res["seeds"] += 1
            if r.returncode != 0:
                res["skipped"].append("%s (patch no longer applies)" % sid)
                continue
            rc, keys, err = run_check(prop, d)
            if rc == 1:
                res["fired"] += 1
                res["details"].append({"seed": sid, "what": meta.get("needs_to_manifest", ""), "fires": keys[:3]})
            elif rc == 2 and "cannot extract facts" in err:
                res["skipped"].append("%s (does not compile on the current tree)" % sid)
            else:
                res["failed"].append("%s: recorded as caught by %s but the check is silent (rc=%s)" % (sid, prop, rc))
        finally:
            shutil.rmtree(d, ignore_errors=True)
    # behaviour-preserving refactorings written by independent sub-agents (as patches)
    import glob as _g

    for dp in sorted(_g.glob(os.path.join(HERE, "selftest", "neutral_diffs", "*.diff"))):
        nid = "neutral_diffs/" + os.path.basename(dp)
        if only and nid not in only:
            continue
        if relevant_files is not None and not (touched_files(dp) & relevant_files):
            res["neutral_not_relevant"] += 1
            continue
        d = make_scratch()
        try:
            r = subprocess.run(["patch", "-p1", "-s", "-d", d, "-i", dp], stdout=subprocess.PIPE, stderr=subprocess.STDOUT, text=True)
            res["neutral"] += 1
            if r.returncode != 0:
                res["skipped"].append("%s (patch no longer applies)" % nid)
                continue
            rc, keys, err = run_check(prop, d)
            if rc == 0:
                res["neutral_silent"] += 1
            elif rc == 2 and "cannot extract facts" in err:
                res["skipped"].append("%s (does not compile on the current tree)" % nid)
            else:
                res["failed"].append("neutral refactoring %s makes the check fire: %s" % (nid, keys[:4]))
        finally:
            shutil.rmtree(d, ignore_errors=True)
    for n in neutrals:
        if only and n["id"] not in only:
            continue
        if n.get("properties") and prop not in n["properties"]:
            continue
        if relevant_files is not None and not (set(e["file"] for e in n["edits"]) & relevant_files):
            res["neutral_not_relevant"] += 1
            continue
        r = run_seed(n, prop)
        res["neutral"] += 1
        if r["status"] == "skipped":
            res["skipped"].append("%s (%s)" % (n["id"], r["reason"]))
            continue
        if r["status"] == "error":
            res["failed"].append("%s: checker error: %s" % (n["id"], r["reason"]))
            continue
        if r["rc"] == 0:
            res["neutral_silent"] += 1
        else:
            res["failed"].append("neutral variant %s (%s) makes the check fire: %s" % (n["id"], n["what"], r["keys"][:4]))
    return res


if __name__ == "__main__":
    props = sys.argv[1:2]
    only = set(sys.argv[2:]) or None
    allp = sorted(set(s["property"] for s in load("seeds.json")))
    for p in props if props and props[0] != "all" else allp:
        r = run_for_property(p, 0, only)
        print(p, json.dumps({k: v for k, v in r.items() if k != "details"}, indent=1))
        for d in r["details"]:
            print("   ", d["seed"], "->", d["fires"][0][:150])
