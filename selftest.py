def run_for_property(prop, seed):
    return {"seeds": 0, "note": "not built yet"}
