#!/usr/bin/env python3
"""tools/compound.py [prop ...] — seed x neutral-refactoring combinations: every self-made seed (a small behaviour-breaking
edit) is applied on top of every behaviour-preserving refactoring that touches the same file; where both apply and the
result compiles, the seed's property must still fire. Finds rules that only recognise a defect in the code's current
shape (vacuous branches). Prints the combinations that are silent."""
import glob, json, os, re, shutil, subprocess, sys, tempfile, concurrent.futures as cf

HERE = os.path.dirname(os.path.dirname(os.path.abspath(__file__)))
sys.path.insert(0, HERE)
import selftest

props = set(sys.argv[1:])
seeds = [s for s in selftest.load("seeds.json") if not props or s["property"] in props]
diffs = sorted(glob.glob(os.path.join(HERE, "selftest", "neutral_diffs", os.environ.get("COMPOUND_GLOB", "*") + ".diff")))
files_of = {d: set(re.findall(r"^\+\+\+ b/(\S+)", open(d).read(), re.M)) for d in diffs}


def apply_seed(sc, seed):
    r = subprocess.run(["patch", "-p1", "-s", "-F0", "-d", sc, "-i", seed["patch"]], stdout=subprocess.PIPE, stderr=subprocess.STDOUT, text=True)
    return None if r.returncode == 0 else "patch"


def one(job):
    seed, d = job
    sc = selftest.make_scratch()
    try:
        r = subprocess.run(["patch", "-p1", "-s", "-d", sc, "-i", d], stdout=subprocess.PIPE, stderr=subprocess.STDOUT, text=True)
        if r.returncode != 0:
            return seed["id"], d, "neutral-does-not-apply", []
        why = apply_seed(sc, seed) if "patch" in seed else selftest.apply_edits(sc, seed["edits"])
        if why:
            return seed["id"], d, "seed-does-not-apply", []
        rc, keys, err = selftest.run_check(seed["property"], sc)
        if rc == 2:
            return seed["id"], d, "no-compile" if "cannot extract facts" in err else "checker-error", [err[-300:]]
        return seed["id"], d, "fires" if rc == 1 else "SILENT", keys[:3]
    finally:
        shutil.rmtree(sc, ignore_errors=True)


# stored independent mutants (patches) on top of the refactorings: same requirement, for the checks recorded as catching them
if "--seeded" in sys.argv:
    props.discard("--seeded")
    seeds = []
    for mp in sorted(glob.glob(os.path.join(HERE, "seeded", "*", "meta.json"))):
        meta = json.load(open(mp))
        pf = os.path.join(os.path.dirname(mp), "patch.diff")
        for pr in meta.get("checks_that_fire", [])[:2]:
            if props and pr not in props:
                continue
            seeds.append({"id": "seeded/" + meta["id"], "property": pr, "patch": pf, "edits": [{"file": x} for x in re.findall(r"^\+\+\+ b/(\S+)", open(pf).read(), re.M)]})


jobs = []
for s in seeds:
    fs = set(e["file"] for e in s["edits"])
    for d in diffs:
        if fs & files_of[d]:
            jobs.append((s, d))
print("%d combinations" % len(jobs), flush=True)
stats = {}
with cf.ThreadPoolExecutor(8) as ex:
    for sid, d, st, keys in ex.map(one, jobs):
        stats[st] = stats.get(st, 0) + 1
        if st in ("SILENT", "checker-error"):
            print("%s  %s + %s  %s" % (st, sid, os.path.basename(d), keys), flush=True)
print(stats)
