#!/bin/sh
# runs every claimed quick check (in parallel) and prints the last line of each; exit 1 if any is not clean
cd "$(dirname "$0")/.."
TIER="${1:-quick}"
props=$(python3 -c "import json; print(' '.join(c['property_id'] for c in json.load(open('MANIFEST.json'))['checks']))")
python3 -c "import sys; sys.path.insert(0,'analysis'); import extract; extract.extract(); extract.extract_fixtures()" >/dev/null
tmp=$(mktemp -d)
for p in $props; do ( ./check $p --tier $TIER > $tmp/$p.out 2>&1; echo $? > $tmp/$p.rc ) & done
wait
bad=0
for p in $props; do rc=$(cat $tmp/$p.rc); last=$(tail -1 $tmp/$p.out); echo "$p rc=$rc $last"; [ "$rc" = "0" ] || { bad=1; grep -E "^  C|INTERNAL|Error" $tmp/$p.out | head -5; }; grep "SELFTEST-FAILED" $tmp/$p.out && bad=1; done
rm -rf $tmp
exit $bad
