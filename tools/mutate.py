#!/usr/bin/env python3
"""tools/mutate.py [--workers N] [--limit N] [--files a,b] [--out FILE] — mechanical mutation of /repo's non-test source
(relational / arithmetic / boolean operators, small constants, look-alike methods, deleted call statements).  A mutant that
still compiles and passes the repository's 92 tests is run through all 20 checks.  Measures how many test-surviving changes
the static rules notice; the unnoticed ones are listed for triage (many are equivalent or irrelevant to the 20 properties).
Nothing is written to /repo: work happens in scratch copies under a temporary directory that is removed afterwards."""
import argparse, json, os, re, shutil, subprocess, sys, tempfile, threading, queue, time

HERE = os.path.dirname(os.path.dirname(os.path.abspath(__file__)))
sys.path.insert(0, os.path.join(HERE, "tools"))
import try_patch

FILES = [
    "memcrs/src/memory_store/store.rs",
    "memcrs/src/memcache/store.rs",
    "memcrs/src/memcache/random_policy.rs",
    "memcrs/src/memcache/builder.rs",
    "memcrs/src/cache/cache.rs",
    "memcrs/src/memcache_server/handler.rs",
    "memcrs/src/memcache_server/client_handler.rs",
    "memcrs/src/memcache_server/memc_tcp.rs",
    "memcrs/src/memcache_server/runtime_builder.rs",
    "memcrs/src/protocol/binary_codec.rs",
    "memcrs/src/protocol/binary_connection.rs",
    "memcrs/src/protocol/binary.rs",
    "memcrs/src/server/timer.rs",
]

PAIRS = [
    (" < ", " <= "), (" <= ", " < "), (" > ", " >= "), (" >= ", " > "), (" == ", " != "), (" != ", " == "),
    (" + ", " - "), (" - ", " + "), (" && ", " || "), (" || ", " && "),
    ("saturating_sub(", "wrapping_sub("), ("saturating_add(", "wrapping_add("), ("wrapping_add(", "saturating_add("),
    ("fetch_add(", "fetch_sub("), ("fetch_sub(", "fetch_add("), (".min(", ".max("), ("cmp::min(", "cmp::max("),
    ("is_empty()", "is_empty() == false"), ("return true", "return false"), ("return false", "return true"),
    ("Ok(None)", "Err(Error::new(ErrorKind::Other, \"m\"))"), (".is_ok()", ".is_err()"),
    ("write_all(", "write("), ("get_u16()", "get_u8() as u16"), ("as u32", "as u16 as u32"), ("as u64", "as u32 as u64"),
    ("> 0", ">= 0"), ("== 0", "== 1"), ("!= 0", "!= 1"),
]
# second operator set (--ops2): identifier confusions between things of the same type, dropped negations, constants - 1
SWAPS = [
    ("key_length", "extras_length"), ("extras_length", "key_length"), ("body_length", "key_length"), ("key_length", "body_length"),
    ("timestamp", "time_to_live"), ("time_to_live", "timestamp"), ("flags", "expiration"), ("expiration", "flags"),
    ("delta.delta", "delta.value"), ("delta.value", "delta.delta"), ("initial", "delta"),
    ("Command::Add", "Command::Replace"), ("Command::Append", "Command::Prepend"), ("Command::Increment", "Command::Decrement"),
    ("Command::GetKey", "Command::Get"), ("Command::SetQuiet", "Command::Set"), ("Command::AddQuiet", "Command::Add"),
    ("Command::DeleteQuiet", "Command::Delete"), ("Command::QuitQuiet", "Command::Quit"), ("Command::FlushQuiet", "Command::Flush"),
    ("BinaryRequest::Add(", "BinaryRequest::Replace("), ("BinaryRequest::Append(", "BinaryRequest::Prepend("),
    ("BinaryRequest::GetKey(", "BinaryRequest::Get("), ("BinaryRequest::Increment(", "BinaryRequest::Decrement("),
    ("BinaryResponse::Get(", "BinaryResponse::GetKey("), ("BinaryResponse::Set(", "BinaryResponse::Add("),
    ("CacheError::KeyExists", "CacheError::NotFound"), ("CacheError::NotFound", "CacheError::KeyExists"),
    ("CacheError::ArithOnNonNumeric", "CacheError::NotFound"), ("CacheError::ValueTooLarge", "CacheError::KeyExists"),
    ("header.cas", "header.opaque"), ("opaque", "cas"), ("record.header", "new_record.header"), ("new_record.value", "record.value"),
    ("self.storage.add(", "self.storage.replace("), ("self.storage.append(", "self.storage.prepend("), ("self.storage.increment(", "self.storage.decrement("),
    ("into_quiet_get(", "into_quiet_mutation("), ("into_quiet_mutation(", "into_quiet_get("), ("into_quiet_mutation(", "Some("),
    ("Ordering::Release", "Ordering::Relaxed"), ("connection_limit", "backlog_limit"), ("backlog_limit", "connection_limit"),
    ("memory_limit", "memory_usage.load(atomic::Ordering::Relaxed)"), ("true", "false"), ("false", "true"),
    ("if !", "if "), ("(!", "("), ("Entry::Occupied", "Entry::Vacant"), ("Some(", "None::<()>.or(Some("),
]
CONST = re.compile(r"(?<![\w.])(\d{1,4})(?![\w.])")
CALL_STMT = re.compile(r"^\s*(self\.[a-z_\.]+\([^;]*\)|src\.[a-z_]+\([^;]*\)|[a-z_]+\.[a-z_]+\([^;]*\));\s*$")


ARG_LINE = re.compile(r"^\s*[A-Za-z_&\*][A-Za-z0-9_\.\(\)&\* ]*,\s*$")
ASSIGN_STMT = re.compile(r"^\s*[a-z_][a-z_0-9\.]*(\.[a-z_0-9]+)+\s*(\+|-)?=\s*[^=].*;\s*$")
INLINE_ARGS = re.compile(r"\(([a-z_][a-z_0-9\.]*), ([a-z_][a-z_0-9\.]*)\)")


def sites3(repo):
    """third operator set: positional arguments swapped, assignments deleted"""
    out = []
    for f in FILES:
        p = os.path.join(repo, f)
        if not os.path.exists(p):
            continue
        lines = open(p).read().split("\n")
        end = len(lines)
        for i, l in enumerate(lines):
            if l.strip().startswith("#[cfg(test)]"):
                end = i
                break
        for i in range(end):
            l = lines[i]
            s_ = l.strip()
            if not s_ or s_.startswith("//") or "debug!(" in s_ or "error!(" in s_ or "info!(" in s_:
                continue
            if i + 1 < end and ARG_LINE.match(l) and ARG_LINE.match(lines[i + 1]) and ":" not in l and ":" not in lines[i + 1] and l.strip() != lines[i + 1].strip():
                out.append((f, i, 0, l, lines[i + 1], "swap-arg-lines"))
            if ASSIGN_STMT.match(l) and "let " not in l:
                out.append((f, i, 0, l, "", "delete"))
            for m in INLINE_ARGS.finditer(l.split("//")[0]):
                if m.group(1) != m.group(2):
                    out.append((f, i, m.start(), m.group(0), "(%s, %s)" % (m.group(2), m.group(1)), "swap-args"))
    return out


IF_LINE = re.compile(r"^(\s*(?:\} else )?if )(.+)( \{\s*)$")
WHILE_LINE = re.compile(r"^(\s*while )(.+)( \{\s*)$")


def sites4(repo):
    """fourth operator set: a condition forced to true / false (single-line if / else-if / while heads)"""
    out = []
    for f in FILES:
        p = os.path.join(repo, f)
        if not os.path.exists(p):
            continue
        lines = open(p).read().split("\n")
        end = len(lines)
        for i, l in enumerate(lines):
            if l.strip().startswith("#[cfg(test)]"):
                end = i
                break
        for i in range(end):
            l = lines[i]
            m = IF_LINE.match(l)
            if m and not m.group(2).startswith("let "):
                out.append((f, i, 0, l, m.group(1) + "true" + m.group(3), "cond-true"))
                out.append((f, i, 0, l, m.group(1) + "false" + m.group(3), "cond-false"))
            m = WHILE_LINE.match(l)
            if m and not m.group(2).startswith("let "):
                out.append((f, i, 0, l, m.group(1) + "false" + m.group(3), "cond-false"))
    return out


def sites5(repo):
    """fifth operator set: a propagated error swallowed (`x?;` -> `x.ok();`), an early return / break deleted"""
    out = []
    for f in FILES:
        p = os.path.join(repo, f)
        if not os.path.exists(p):
            continue
        lines = open(p).read().split("\n")
        end = len(lines)
        for i, l in enumerate(lines):
            if l.strip().startswith("#[cfg(test)]"):
                end = i
                break
        for i in range(end):
            l = lines[i]
            code = l.split("//")[0].rstrip()
            if code.endswith("?;") and "let " not in code:
                k = code.rfind("?;")
                out.append((f, i, k, "?;", ".ok();", "swallow-error"))
            st_ = code.strip()
            if st_ in ("return;", "break;", "continue;") or (st_.startswith("return ") and st_.endswith(";") and "(" not in st_[:8]):
                out.append((f, i, 0, l, "", "delete"))
    return out


VALUE = re.compile(r"(?<![\w.&])((?:self|[a-z_][a-z_0-9]*)(?:\.[a-z_][a-z_0-9]*)+)(?![\w(.!])")
SOME = re.compile(r"\bSome\(")


def _matching(code, k):
    d = 0
    for j in range(k, len(code)):
        if code[j] == "(":
            d += 1
        elif code[j] == ")":
            d -= 1
            if d == 0:
                return j
    return -1


def sites6(repo):
    """sixth operator set: a value read (`a.b.c`) replaced by 0, `Some(x)` replaced by None, `x.len()` replaced by 0"""
    out = []
    for f in FILES:
        p = os.path.join(repo, f)
        if not os.path.exists(p):
            continue
        lines = open(p).read().split("\n")
        end = len(lines)
        for i, l in enumerate(lines):
            if l.strip().startswith("#[cfg(test)]"):
                end = i
                break
        for i in range(end):
            l = lines[i]
            s_ = l.strip()
            if not s_ or s_.startswith("//") or s_.startswith("#[") or s_.startswith("use ") or "debug!(" in s_ or "error!(" in s_ or "info!(" in s_ or "trace!(" in s_ or "warn!(" in s_:
                continue
            code = l.split("//")[0]
            for m in VALUE.finditer(code):
                rest = code[m.end():].lstrip()
                if rest.startswith("=") and not rest.startswith("=="):
                    continue  # assignment target
                out.append((f, i, m.start(), m.group(1), "0", "value-0"))
            for m in SOME.finditer(code):
                j = _matching(code, m.end() - 1)
                if j > 0 and "=>" not in code[j:] and not code[:m.start()].rstrip().endswith("let") and "if let" not in code and "while let" not in code and not code[j + 1:].lstrip().startswith("="):
                    out.append((f, i, m.start(), code[m.start():j + 1], "None", "some-none"))
            for m in re.finditer(r"(?<![\w.])((?:self|[a-z_][a-z_0-9]*)(?:\.[a-z_][a-z_0-9]*)*)\.len\(\)", code):
                out.append((f, i, m.start(), m.group(0), "0", "len-0"))
    return out


def sites(repo, ops2=False):
    out = []
    for f in FILES:
        p = os.path.join(repo, f)
        if not os.path.exists(p):
            continue
        lines = open(p).read().split("\n")
        end = len(lines)
        for i, l in enumerate(lines):
            if l.strip().startswith("#[cfg(test)]"):
                end = i
                break
        for i in range(end):
            l = lines[i]
            s = l.strip()
            if not s or s.startswith("//") or s.startswith("#[") or s.startswith("use ") or "debug!(" in s or "error!(" in s or "info!(" in s or "trace!(" in s or s.startswith("///"):
                continue
            code = l.split("//")[0]
            if ops2:
                for a, b in SWAPS:
                    if a.startswith("Some("):
                        continue
                    start = 0
                    while True:
                        k = code.find(a, start)
                        if k < 0:
                            break
                        before = code[k - 1] if k > 0 else " "
                        after = code[k + len(a)] if k + len(a) < len(code) else " "
                        wordy = a[0].isalnum() or a[0] == "_"
                        if not (wordy and (before.isalnum() or before == "_")) and not ((a[-1].isalnum() or a[-1] == "_") and (after.isalnum() or after == "_")):
                            out.append((f, i, k, a, b, "swap"))
                        start = k + len(a)
                for m in CONST.finditer(code):
                    n = int(m.group(1))
                    if n > 0 and "0x" not in code[max(0, m.start() - 2) : m.start() + 1]:
                        out.append((f, i, m.start(), m.group(1), str(n - 1), "const-1"))
                continue
            for a, b in PAIRS:
                start = 0
                while True:
                    k = code.find(a, start)
                    if k < 0:
                        break
                    out.append((f, i, k, a, b, "op"))
                    start = k + len(a)
            for m in CONST.finditer(code):
                n = int(m.group(1))
                if "0x" in code[max(0, m.start() - 2) : m.start() + 1]:
                    continue
                out.append((f, i, m.start(), m.group(1), str(n + 1), "const"))
            if CALL_STMT.match(code) and "let " not in code and "return" not in code:
                out.append((f, i, 0, code, "", "delete"))
    return out


def apply(repo, site):
    f, i, k, a, b, kind = site
    p = os.path.join(repo, f)
    lines = open(p).read().split("\n")
    orig = lines[i]
    if kind == "delete":
        lines[i] = ""
    elif kind == "swap-arg-lines":
        lines[i], lines[i + 1] = lines[i + 1], lines[i]
    elif kind in ("cond-true", "cond-false"):
        lines[i] = b
    else:
        assert orig[k : k + len(a)] == a, (orig, k, a)
        lines[i] = orig[:k] + b + orig[k + len(a) :]
    open(p, "w").write("\n".join(lines))
    return orig


def restore(repo, site, orig):
    f, i = site[0], site[1]
    p = os.path.join(repo, f)
    lines = open(p).read().split("\n")
    if site[5] == "swap-arg-lines":
        lines[i], lines[i + 1] = lines[i + 1], lines[i]
        open(p, "w").write("\n".join(lines))
        return
    lines[i] = orig
    open(p, "w").write("\n".join(lines))


def worker(wid, base, jobs, results, props):
    repo = os.path.join(base, "w%d" % wid)
    subprocess.check_call("cd /repo && tar --exclude=./target --exclude=./.git -cf - . | tar -xf - -C %s" % repo, shell=True)
    env = dict(os.environ, CARGO_TARGET_DIR=os.path.join(repo, "target"), CARGO_NET_OFFLINE="true")
    subprocess.run(["cargo", "test", "--workspace", "--offline", "--lib", "-q"], cwd=repo, env=env, stdout=subprocess.DEVNULL, stderr=subprocess.DEVNULL)
    while True:
        try:
            idx, site = jobs.get_nowait()
        except queue.Empty:
            return
        orig = apply(repo, site)
        rec = {"i": idx, "file": site[0], "line": site[1] + 1, "from": site[3].strip()[:60], "to": site[4][:40], "kind": site[5], "src": orig.strip()[:100]}
        try:
            r = subprocess.run(["cargo", "test", "--workspace", "--offline", "--lib", "-q"], cwd=repo, env=env, stdout=subprocess.PIPE, stderr=subprocess.STDOUT, text=True, timeout=600)
            out = r.stdout
            if "error[" in out or "error: could not compile" in out:
                rec["status"] = "no-compile"
            elif r.returncode != 0:
                rec["status"] = "killed-by-tests"
            else:
                rec["status"] = "survives-tests"
        except subprocess.TimeoutExpired:
            rec["status"] = "test-timeout"
        if rec["status"] == "survives-tests":
            res = try_patch.run_checks(repo, props)
            rec["fired"] = sorted(p for p, (rc, keys, out) in res.items() if rc == 1)
            rec["errors"] = sorted(p for p, (rc, keys, out) in res.items() if rc not in (0, 1))
            rec["keys"] = [k.split("  ")[0] for p, (rc, keys, out) in res.items() if rc == 1 for k in keys[:1]][:4]
        restore(repo, site, orig)
        results.append(rec)
        print(json.dumps(rec), flush=True)


def main():
    ap = argparse.ArgumentParser()
    ap.add_argument("--workers", type=int, default=6)
    ap.add_argument("--limit", type=int, default=0)
    ap.add_argument("--files", default="")
    ap.add_argument("--every", type=int, default=1, help="take every n-th site")
    ap.add_argument("--out", default="")
    ap.add_argument("--ops6", action="store_true", help="sixth operator set: value reads replaced by 0, Some(x) by None, len() by 0")
    ap.add_argument("--ops5", action="store_true", help="fifth operator set: swallowed errors, deleted early returns / breaks")
    ap.add_argument("--ops4", action="store_true", help="fourth operator set: conditions forced to true / false")
    ap.add_argument("--ops3", action="store_true", help="third operator set: positional arguments swapped, assignments deleted")
    ap.add_argument("--ops2", action="store_true", help="second operator set: identifier swaps, dropped negations, constants - 1")
    a = ap.parse_args()
    props = [c["property_id"] for c in json.load(open(os.path.join(HERE, "MANIFEST.json")))["checks"]]
    all_sites = sites6("/repo") if a.ops6 else sites5("/repo") if a.ops5 else sites4("/repo") if a.ops4 else sites3("/repo") if a.ops3 else sites("/repo", a.ops2)
    if a.files:
        keep = a.files.split(",")
        all_sites = [s for s in all_sites if any(k in s[0] for k in keep)]
    all_sites = all_sites[:: a.every]
    if a.limit:
        all_sites = all_sites[: a.limit]
    print("# %d mutation sites" % len(all_sites), flush=True)
    base = tempfile.mkdtemp(prefix="memc-mutate-")
    jobs = queue.Queue()
    for i, s in enumerate(all_sites):
        jobs.put((i, s))
    results = []
    ths = []
    try:
        for w in range(a.workers):
            os.makedirs(os.path.join(base, "w%d" % w))
            t = threading.Thread(target=worker, args=(w, base, jobs, results, props))
            t.start()
            ths.append(t)
        for t in ths:
            t.join()
    finally:
        shutil.rmtree(base, ignore_errors=True)
    st = {}
    for r in results:
        k = r["status"] if r["status"] != "survives-tests" else ("survivor-caught" if r.get("fired") else "survivor-MISSED")
        st[k] = st.get(k, 0) + 1
    print("# summary", json.dumps(st))
    if a.out:
        json.dump(sorted(results, key=lambda r: r["i"]), open(a.out, "w"), indent=1)


if __name__ == "__main__":
    main()
