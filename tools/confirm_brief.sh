#!/bin/sh
# prints a compact summary of tools/confirm_mutant.sh for several ids
for id in "$@"; do
  out=$(tools/confirm_mutant.sh $id 2>&1)
  w=$(echo "$out" | sed -n '/== without the change/,/== with the change: 92/p' | grep -c "test result: ok")
  t92=$(echo "$out" | sed -n '/== with the change: 92/,/== with the change: demo/p' | grep -c "92 passed")
  df=$(echo "$out" | sed -n '/== with the change: demo/,/== checks/p' | grep -cE "FAILED|panicked")
  echo "### $id: demo-passes-without=$w  92-pass-with=$t92  demo-fails-with=$([ $df -gt 0 ] && echo 1 || echo 0)"
  echo "$out" | sed -n '/== checks/,$p' | grep -E "FIRES|^    C" | cut -c1-230
done
