#!/usr/bin/env python3
import json, glob, os
rows = []
for mp in sorted(glob.glob('/verif/seeded/*/meta.json')):
    m = json.load(open(mp))
    rows.append("| %s | %s | %s | %s |" % (m['id'], m['breaks_property'], ", ".join(m['checks_that_fire']) or "**none**", m['needs_to_manifest'].replace("|", "/")))
open('/verif/seeded/INDEX.md', 'w').write("# Independently produced changes (sub-agents, property text only)\n\nEach directory: `patch.diff` (apply with `git -C /repo apply`), the agent's demonstration test (fails with the change, passes without; the 92 tests pass with it), `NOTES.md`, `meta.json`.\nRe-run: `python3 tools/try_patch.py seeded/<id>/patch.diff`.\n\n| id | breaks | checks that fire | needs to manifest |\n|---|---|---|---|\n" + "\n".join(rows) + "\n")
print(len(rows), "entries")
