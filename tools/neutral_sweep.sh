#!/bin/sh
# tools/neutral_sweep.sh [glob] — runs every check against every behaviour-preserving refactoring in selftest/neutral_diffs; prints only alarms
cd "$(dirname "$0")/.."
ls selftest/neutral_diffs/${1:-*}.diff | xargs -P 8 -I{} sh -c 'out=$(python3 tools/try_patch.py {} 2>&1 | grep -v silent | cut -c1-260); [ -n "$out" ] && { echo "=== {}"; echo "$out"; }; true'
echo "sweep done"
