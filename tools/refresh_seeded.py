#!/usr/bin/env python3
"""tools/refresh_seeded.py [-w] — re-runs every check against every stored mutant (seeded/*/patch.diff) and prints which
checks fire now; with -w updates checks_that_fire / rule_instances in meta.json. Exit 1 if a mutant is caught by nothing."""
import glob, json, os, subprocess, sys, concurrent.futures as cf

HERE = os.path.dirname(os.path.dirname(os.path.abspath(__file__)))
write = "-w" in sys.argv


def one(mp):
    d = os.path.dirname(mp)
    r = subprocess.run([sys.executable, os.path.join(HERE, "tools", "try_patch.py"), os.path.join(d, "patch.diff")], stdout=subprocess.PIPE, stderr=subprocess.STDOUT, text=True)
    fired = [l.split()[0] for l in r.stdout.splitlines() if l.endswith("FIRES:")]
    inst = [l.strip()[:200] for l in r.stdout.splitlines() if l.startswith("    C")]
    na = "patch does not apply" in r.stdout
    return mp, fired, inst, na


bad = 0
with cf.ThreadPoolExecutor(5) as ex:
    for mp, fired, inst, na in ex.map(one, sorted(glob.glob(os.path.join(HERE, "seeded", "*", "meta.json")))):
        meta = json.load(open(mp))
        old = meta.get("checks_that_fire", [])
        flag = ""
        if na:
            flag = "  (patch no longer applies)"
        elif not fired:
            flag = "  *** CAUGHT BY NOTHING ***"
            bad += 1
        elif sorted(old) != sorted(fired):
            flag = "  (was %s)" % ",".join(old)
        print("%-55s %s%s" % (meta["id"], ",".join(fired), flag))
        if write and fired and sorted(old) != sorted(fired):
            meta["checks_that_fire"] = fired
            meta["rule_instances"] = inst[:8]
            json.dump(meta, open(mp, "w"), indent=1)
sys.exit(1 if bad else 0)
