#!/usr/bin/env python3
"""tools/save_mutant.py <worktree-name> <seeded-id> <property> "<needs>" — stores a confirmed mutant under /verif/seeded/<seeded-id>/"""
import json, os, shutil, subprocess, sys, glob
name, sid, prop, needs = sys.argv[1:5]
src = "/tmp/wt/%s" % name
dst = "/verif/seeded/%s" % sid
os.makedirs(dst, exist_ok=True)
shutil.copy(os.path.join(src, "mutant.diff"), os.path.join(dst, "patch.diff"))
demo = sorted(glob.glob(os.path.join(src, "memcrs/tests/demo_*.rs")))[0]
shutil.copy(demo, os.path.join(dst, os.path.basename(demo)))
if os.path.exists(os.path.join(src, "NOTES.md")):
    shutil.copy(os.path.join(src, "NOTES.md"), os.path.join(dst, "NOTES.md"))
r = subprocess.run([sys.executable, "/verif/tools/try_patch.py", os.path.join(dst, "patch.diff")], stdout=subprocess.PIPE, text=True)
fires = [l.strip()[:200] for l in r.stdout.splitlines() if l.startswith("    C")]
fired_props = [l.split()[0] for l in r.stdout.splitlines() if l.endswith("FIRES:")]
meta = {
    "id": sid,
    "breaks_property": prop,
    "origin": "independent sub-agent given only the property text and a scratch worktree",
    "needs_to_manifest": needs,
    "confirmed": "tools/confirm_mutant.sh: fresh scratch worktree of /repo HEAD; demo passes without the change; with it the 92 lib tests pass and the demo fails",
    "demo": os.path.basename(demo),
    "repo_head": subprocess.check_output(["git", "-C", "/repo", "log", "--format=%h", "-1"], text=True).strip(),
    "checks_that_fire": fired_props,
    "rule_instances": fires[:8],
    "ran": "python3 tools/try_patch.py seeded/%s/patch.diff" % sid,
}
json.dump(meta, open(os.path.join(dst, "meta.json"), "w"), indent=1)
print(sid, "fires:", fired_props)
