#!/usr/bin/env python3
"""tools/try_patch.py <patch.diff> [Cxx ...]  — applies a patch to a scratch copy of /repo's
working tree (outside /repo and /verif), runs the given checks (default: all claimed) against
it and prints which fire. The scratch copy is removed afterwards."""
import json, os, shutil, subprocess, sys, tempfile

HERE = os.path.dirname(os.path.dirname(os.path.abspath(__file__)))


def make_scratch(patch):
    d = tempfile.mkdtemp(prefix="memc-scratch-")
    subprocess.check_call("cd /repo && tar --exclude=./target --exclude=./.git -cf - . | tar -xf - -C %s" % d, shell=True)
    if patch:
        r = subprocess.run(["patch", "-p1", "-s", "-d", d, "-i", os.path.abspath(patch)], stdout=subprocess.PIPE, stderr=subprocess.STDOUT, text=True)
        if r.returncode != 0:
            shutil.rmtree(d)
            raise SystemExit("patch does not apply:\n" + r.stdout)
    return d


def run_checks(d, props):
    out = tempfile.mkdtemp(prefix="memc-ev-")
    res = {}
    for p in props:
        r = subprocess.run([os.path.join(HERE, "check"), p, "--repo", d, "--out", out], stdout=subprocess.PIPE, stderr=subprocess.STDOUT, text=True)
        keys = [l.strip() for l in r.stdout.splitlines() if l.startswith("  C")]
        res[p] = (r.returncode, keys, r.stdout)
    shutil.rmtree(out, ignore_errors=True)
    return res


if __name__ == "__main__":
    patch = sys.argv[1]
    props = sys.argv[2:]
    if not props:
        m = json.load(open(os.path.join(HERE, "MANIFEST.json")))
        props = [c["property_id"] for c in m["checks"]]
    d = make_scratch(patch if patch != "-" else None)
    try:
        res = run_checks(d, props)
    finally:
        shutil.rmtree(d, ignore_errors=True)
    fired = False
    for p, (rc, keys, out) in res.items():
        if rc == 1:
            fired = True
            print("%s FIRES:" % p)
            for k in keys:
                print("   ", k[:260])
        elif rc != 0:
            print("%s exit %d:\n%s" % (p, rc, out[-1500:]))
        else:
            print("%s silent" % p)
    sys.exit(0 if fired else 3)
