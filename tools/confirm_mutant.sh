#!/bin/sh
# tools/confirm_mutant.sh <ID> [name]: confirms an agent-produced mutant in a fresh scratch worktree of /repo HEAD:
#  without the change: demo passes; with it: the 92 lib tests pass and the demo fails. Then runs all checks on it.
ID="$1"; NAME="${2:-$1}"
SRC=/tmp/wt/$NAME
W=$(mktemp -d /tmp/confirm.XXXX)
git -C /repo worktree add -q --detach "$W/wt" HEAD || exit 2
cd "$W/wt"
demo=$(ls $SRC/memcrs/tests/demo_*.rs | head -1)
mkdir -p memcrs/tests; cp "$demo" memcrs/tests/
tn=$(basename "$demo" .rs)
export CARGO_TARGET_DIR=$SRC/target
echo "== without the change: demo"
cargo test --offline -p memcrs --test $tn 2>&1 | grep -E "^test result|panicked" | head -3
git apply "$SRC/mutant.diff" || { echo "PATCH DOES NOT APPLY"; }
echo "== with the change: 92 lib tests"
cargo test --workspace --offline --lib 2>&1 | grep -E "^test result" | head -1
echo "== with the change: demo"
cargo test --offline -p memcrs --test $tn 2>&1 | grep -E "^test result|panicked" | head -3
cd /verif
git -C /repo worktree remove --force "$W/wt"; rm -rf "$W"
echo "== checks"
python3 tools/try_patch.py $SRC/mutant.diff 2>&1 | grep -v silent | cut -c1-260
