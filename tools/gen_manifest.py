#!/usr/bin/env python3
"""Regenerates /verif/MANIFEST.json from the table below (kept in one place so that
claimed / not_applicable stay consistent)."""
import json
import os
import sys

HERE = os.path.dirname(os.path.dirname(os.path.abspath(__file__)))
sys.path.insert(0, HERE)
sys.path.insert(0, os.path.join(HERE, "analysis"))

props = [json.loads(l) for l in open(os.path.join(HERE, "properties.jsonl"))]
import importlib

CLAIMS = {}
for p in props:
    pid = p["id"]
    try:
        mod = importlib.import_module("rules." + pid.lower())
    except ModuleNotFoundError:
        continue
    if getattr(mod, "NOT_CLAIMED", None):
        continue
    CLAIMS[pid] = mod

checks = []
na = []
for p in props:
    pid = p["id"]
    if pid in CLAIMS:
        mod = CLAIMS[pid]
        checks.append(
            {
                "property_id": pid,
                "quick_cmd": "./check %s --tier quick" % pid,
                "thorough_cmd": "./check %s --tier thorough" % pid,
                "evidence_file": "/verif/evidence/%s.json" % pid,
                "replay_cmd_template": "./check --explain {path}",
                "engine": "memc-static",
                "level_claimed": {
                    "category": "other",
                    "text": mod.LEVEL_TEXT,
                    "design_ref": "DESIGN.md section 4, %s" % pid,
                },
                "level_note": "Decides only the structural clauses named in level_claimed.text (each a necessary condition of the property), for all inputs/schedules at once; does not decide the behaviour itself. Trusted base: rustc's built MIR and callee resolution, the memc-facts driver, the DashMap/bytes/tokio semantic tables in /verif/analysis, and: "
                + "; ".join(mod.ASSUMPTIONS),
                "technique": getattr(mod, "TECHNIQUE", "static analysis over rustc MIR: path-sensitive abstract interpretation (term domain), call-graph and dataflow rules specific to memc-rs"),
            }
        )
    else:
        reason = "no finished static rule yet (framework under construction; see DESIGN.md section 9)"
        try:
            mod = importlib.import_module("rules." + pid.lower())
            reason = mod.NOT_CLAIMED
        except ModuleNotFoundError:
            pass
        na.append({"property_id": pid, "reason": reason})

m = {
    "version": 1,
    "setup_cmd": "./setup.sh",
    "hooks": {
        "guard": "memcrs_verif",
        "enable": "none needed: static analysis reads the unmodified source; no hook commits exist",
        "baseline_off_cmd": "cd /repo && cargo test --workspace --no-fail-fast --offline",
        "source_commits": [],
        "add_only": True,
    },
    "engines": [
        {
            "name": "memc-static",
            "path": "/verif/check",
            "serves_properties": sorted(CLAIMS),
            "kind_free_text": "rustc_private driver (driver/) dumps built MIR + resolved callees of /repo's current tree as JSON; python analyses (analysis/, rules/) decide per-property structural rules: abstract interpretation over a term/affine domain, guard-liveness dataflow, call-graph reachability, dominance",
        }
    ],
    "checks": checks,
    "notes": "Static analysis only: nothing from /repo is executed. Every check exits 1 with VIOLATION lines when a rule instance fails, prints KNOWN-FINDING for instances listed in known_findings.json, and exits 2 (no verdict) on an internal error of the checker. Fix commits in /repo are listed in known_findings.json with status 'fixed'.",
    "not_applicable": na,
}
json.dump(m, open(os.path.join(HERE, "MANIFEST.json"), "w"), indent=1)
print("claimed:", sorted(CLAIMS), "not applicable:", [x["property_id"] for x in na])
