"""Rule/result framework shared by all property checks."""
import json
import os
import sys
import time
import traceback

from mir import AnchorMissing, loc_s

HERE = os.path.dirname(os.path.abspath(__file__))
VERIF = os.path.dirname(HERE)


class Instance:
    """one obligation of a rule: `key` is stable (no line numbers, no block ids)"""

    def __init__(self, key, ok, what, loc=None, detail=None, sample=None):
        self.key = key
        self.ok = ok
        self.what = what
        self.loc = loc
        self.detail = detail
        self.sample = sample


class Report:
    def __init__(self, rule_id, decides, floor=0):
        self.rule_id = rule_id
        self.decides = decides
        self.floor = floor
        self.instances = []
        self.advisories = []
        self.functions = set()
        self.call_sites = 0
        self.evaluations = 0
        self.exhaustive = None
        self.samples = []
        self.notes = []

    def ok(self, key, what, loc=None, detail=None, sample=None):
        self.instances.append(Instance(key, True, what, loc, detail, sample))

    def bad(self, key, what, loc=None, detail=None):
        self.instances.append(Instance(key, False, what, loc, detail))

    def check(self, cond, key, what_ok, what_bad=None, loc=None, detail=None):
        if cond:
            self.ok(key, what_ok, loc, detail)
        else:
            self.bad(key, what_bad or ("NOT: " + what_ok), loc, detail)
        return cond

    def advise(self, text):
        self.advisories.append(text)

    def analysed(self, *bodies):
        for b in bodies:
            if b is not None:
                self.functions.add(b.path if hasattr(b, "path") else str(b))

    def sample(self, s):
        if len(self.samples) < 12:
            self.samples.append(s)


class Ctx:
    def __init__(self, facts, tier, seed, config="dev"):
        self.facts = facts
        self.tier = tier
        self.seed = seed
        self.config = config
        self._cache = {}


from absint import Budget


def run_rules(prop, rules, ctx):
    """rules: list of (rule_id, fn(ctx)->Report)"""
    reports = []
    for rid, fn in rules:
        try:
            rep = fn(ctx)
            if rep.rule_id != rid:
                rep.rule_id = rid
        except AnchorMissing as e:
            rep = Report(rid, "(rule could not run)")
            rep.bad("anchor", "anchor missing: %s — the construct this rule is about is not in the tree under the name the rule knows; the rule fails closed" % e.what)
        except Budget as e:
            # the code under this rule has more paths than the interpreter explores (far more than today's tree has): the
            # rule cannot say that the property holds, and fails closed like a missing anchor
            rep = Report(rid, "(rule could not run to completion)")
            rep.bad("analysis-budget", "the code this rule is about could not be analysed within the path budget (%s): it is far more branching than the tree the rule was written against; the rule fails closed" % e)
        except Exception as e:  # internal error of the checker: reported as such, exit 2
            rep = Report(rid, "(internal error)")
            rep.internal_error = "%s: %s\n%s" % (type(e).__name__, e, traceback.format_exc())
        # floor
        n = len(rep.instances)
        if not getattr(rep, "internal_error", None) and n < rep.floor:
            rep.bad("floor", "rule matched %d instances, fewer than the %d confirmed by reading (vacuity guard)" % (n, rep.floor))
        reports.append(rep)
    return reports


def load_known():
    p = os.path.join(VERIF, "known_findings.json")
    if not os.path.exists(p):
        return []
    with open(p) as f:
        return json.load(f)["findings"]


def finish(prop, tier, seed, reports, t0, level_text, assumptions, extra_cov=None, out_dir=None):
    """prints the verdict lines, writes evidence, returns exit code"""
    out_dir = out_dir or os.path.join(VERIF, "evidence")
    os.makedirs(os.path.join(out_dir, "violations"), exist_ok=True)
    known = [k for k in load_known() if k["property"] == prop]
    known_keys = {k["key"]: k for k in known if k.get("status") == "known"}
    violations = []
    known_hits = []
    internal = []
    obligations = 0
    discharged = 0
    functions = set()
    call_sites = 0
    evaluations = 0
    samples = []
    advisories = []
    rules_summary = []
    distinct = set()
    for rep in reports:
        if getattr(rep, "internal_error", None):
            internal.append((rep.rule_id, rep.internal_error))
            continue
        nbad = 0
        seen_inst = set()
        for inst in rep.instances:
            full = "%s:%s" % (rep.rule_id, inst.key)
            if (full, inst.ok) in seen_inst:
                continue  # same obligation reached on several paths
            seen_inst.add((full, inst.ok))
            obligations += 1
            distinct.add(full)
            if inst.ok:
                discharged += 1
            elif full in known_keys:
                known_hits.append((full, known_keys[full]["what"]))
            else:
                nbad += 1
                violations.append((rep, inst, full))
        functions |= rep.functions
        call_sites += rep.call_sites
        evaluations += rep.evaluations
        for s in rep.samples:
            samples.append({"rule": rep.rule_id, "sample": s})
        for inst in rep.instances[:3]:
            samples.append({"rule": rep.rule_id, "instance": inst.key, "holds": inst.ok, "what": inst.what, "at": inst.loc})
        advisories += ["%s: %s" % (rep.rule_id, a) for a in rep.advisories]
        rules_summary.append(
            {
                "rule": rep.rule_id,
                "decides": rep.decides,
                "instances": len(rep.instances),
                "floor": rep.floor,
                "violated": nbad,
                "exhaustive": rep.exhaustive,
            }
        )
    # stale replay files of this property
    vdir = os.path.join(out_dir, "violations")
    for f in os.listdir(vdir):
        if f.startswith(prop + "."):
            os.remove(os.path.join(vdir, f))
    lines = []
    for full, what in known_hits:
        lines.append("KNOWN-FINDING: property=%s %s %s" % (prop, full, what))
    n = 0
    for rep, inst, full in violations:
        n += 1
        rp = os.path.join(vdir, "%s.%s.%d.json" % (prop, rep.rule_id.split(".")[-1], n))
        with open(rp, "w") as f:
            json.dump(
                {
                    "property": prop,
                    "rule": rep.rule_id,
                    "rule_decides": rep.decides,
                    "key": full,
                    "what": inst.what,
                    "at": inst.loc,
                    "detail": inst.detail,
                },
                f,
                indent=1,
                default=str,
            )
        lines.append("  %s  %s  at %s" % (full, inst.what, inst.loc or "?"))
        lines.append("VIOLATION property=%s replay=%s" % (prop, rp))
    wall = time.time() - t0
    cov = {
        "explanation": level_text,
        "obligations": obligations,
        "discharged": discharged,
        "evaluations": max(evaluations, obligations),
        "distinct_nontrivial": len(distinct),
        "rule": "one obligation per (rule, subject) pair found in the resolved program of the current tree; distinct = distinct keys whose subject was located (counted)",
        "samples": samples[:40],
        "rules": rules_summary,
        "functions_analysed": sorted(functions),
        "call_sites": call_sites,
        "known_findings": [k for k, _ in known_hits],
        "advisories": advisories,
        "checker_cmd": "./check %s --tier %s" % (prop, tier),
        "trusted_base": ["rustc nightly built MIR + Instance::try_resolve", "memc-facts driver", "python analysis in /verif/analysis"],
    }
    if extra_cov:
        cov.update(extra_cov)
    ev = {
        "property_id": prop,
        "tier": tier,
        "seed": seed,
        "level": "other",
        "coverage": cov,
        "assumptions": assumptions,
        "wall_s": round(wall, 2),
        "violations": len(violations),
    }
    with open(os.path.join(out_dir, "%s.json" % prop), "w") as f:
        json.dump(ev, f, indent=1, default=str)
    for rs in rules_summary:
        print("%-8s %3d instances (floor %d) %s  — %s" % (rs["rule"], rs["instances"], rs["floor"], "OK" if not rs["violated"] else "%d VIOLATED" % rs["violated"], rs["decides"][:100]))
    for l in lines:
        print(l)
    if internal:
        for rid, err in internal:
            print("INTERNAL-ERROR in %s (checker bug, no verdict):\n%s" % (rid, err), file=sys.stderr)
        return 2
    print("%s: %d obligations, %d hold, %d known findings, %d violations (%.1fs)" % (prop, obligations, discharged, len(known_hits), len(violations), wall))
    return 1 if violations else 0
