"""Path-sensitive abstract interpreter over built MIR with a term domain.

Values are: known integers, uninterpreted terms (hashable tuples: parameters,
field selections, results of calls that are not inlined), affine combinations
of terms, known aggregates (Struct / TupleV), references to local places and
closures.  Branches are decided only by constant folding and by *facts*
(interval / discriminant knowledge) that were either assumed by the rule that
drives the interpreter (the finite case split it enumerates) or learned from
an earlier branch on the same path.  No solver is involved and nothing from
/repo is executed: the interpreter works on the fact base.

Used for: dispatch tables and predicate truth tables (E5), may-depend sets and
order of consuming calls (E2), event sequences per command (E4/E6), byte
accounting on BytesMut (E8) and path facts at panic sites (E7).
"""
import re
from collections import OrderedDict

TOP = ("top",)


class Struct:
    """known aggregate (struct or enum variant); fields overlay an optional opaque base term"""

    __slots__ = ("adt", "variant", "vi", "fields", "base")

    def __init__(self, adt, variant, vi, fields, base=None):
        self.adt = adt
        self.variant = variant
        self.vi = vi
        self.fields = fields  # OrderedDict name -> value
        self.base = base

    def get(self, name):
        if name in self.fields:
            return self.fields[name]
        if self.base is not None:
            return ("field", self.base, name)
        return TOP

    def with_field(self, name, v):
        f = OrderedDict(self.fields)
        f[name] = v
        return Struct(self.adt, self.variant, self.vi, f, self.base)

    def __repr__(self):
        nm = (self.adt or "?").split("::")[-1]
        if self.variant and self.variant != nm:
            nm += "::" + self.variant
        return "%s{%s%s}" % (
            nm,
            ", ".join("%s: %r" % kv for kv in self.fields.items()),
            (", ..%r" % (self.base,)) if self.base is not None else "",
        )


class TupleV:
    __slots__ = ("items",)

    def __init__(self, items):
        self.items = list(items)

    def __repr__(self):
        return "(%s)" % ", ".join(map(repr, self.items))


class Ref:
    __slots__ = ("root", "path")

    def __init__(self, root, path=()):
        self.root = root
        self.path = tuple(path)

    def __repr__(self):
        return "&%r%s" % (self.root, "".join("." + str(p) for p in self.path))


class ClosureV:
    __slots__ = ("path", "caps", "kind")

    def __init__(self, path, caps, kind="closure"):
        self.path = path
        self.caps = list(caps)
        self.kind = kind

    def __repr__(self):
        return "[%s %s]" % (self.kind, self.path.split("::", 1)[-1])


def tform(v):
    """hashable term form of any value (used when a value becomes part of a term)"""
    if isinstance(v, (int, str)) or v is None:
        return v
    if isinstance(v, tuple):
        return v
    if isinstance(v, Struct):
        return (
            "struct",
            v.adt,
            v.variant,
            tuple((k, tform(x)) for k, x in v.fields.items()),
            v.base,
        )
    if isinstance(v, TupleV):
        return ("tuple",) + tuple(tform(x) for x in v.items)
    if isinstance(v, Ref):
        return ("ref", v.root, v.path)
    if isinstance(v, ClosureV):
        return ("closure", v.path, tuple(tform(c) for c in v.caps))
    return ("?", repr(v))


# ---------------------------------------------------------------- linear forms


def to_lin(v):
    """-> (dict atom->coef, const) or None"""
    if isinstance(v, bool):
        return {}, int(v)
    if isinstance(v, int):
        return {}, v
    if isinstance(v, tuple):
        if v and v[0] == "lin":
            return dict(v[1]), v[2]
        if v == TOP:
            return None
        return {v: 1}, 0
    return None


def from_lin(d, c):
    d = {a: k for a, k in d.items() if k != 0}
    if not d:
        return c
    if len(d) == 1 and c == 0:
        (a, k), = d.items()
        if k == 1:
            return a
    return ("lin", tuple(sorted(d.items(), key=lambda x: repr(x[0]))), c)


def lin_add(a, b, sign=1):
    la, lb = to_lin(a), to_lin(b)
    if la is None or lb is None:
        return None
    d = dict(la[0])
    for k, v in lb[0].items():
        d[k] = d.get(k, 0) + sign * v
    return from_lin(d, la[1] + sign * lb[1])


def lin_scale(a, k):
    la = to_lin(a)
    if la is None:
        return None
    return from_lin({x: c * k for x, c in la[0].items()}, la[1] * k)


def canon(d):
    """canonical atoms part: returns (key, factor) with key*factor == d (factor = +-g)"""
    items = sorted(d.items(), key=lambda x: repr(x[0]))
    if not items:
        return (), 1
    from math import gcd

    g = 0
    for _, k in items:
        g = gcd(g, abs(k))
    s = 1 if items[0][1] > 0 else -1
    f = s * g
    return tuple((a, k // f) for a, k in items), f


INF = float("inf")

CMP_FLIP = {"Lt": "Gt", "Gt": "Lt", "Le": "Ge", "Ge": "Le", "Eq": "Eq", "Ne": "Ne"}
CMP_NEG = {"Lt": "Ge", "Ge": "Lt", "Gt": "Le", "Le": "Gt", "Eq": "Ne", "Ne": "Eq"}


def cmp_const(op, a, b):
    return {
        "Lt": a < b,
        "Le": a <= b,
        "Gt": a > b,
        "Ge": a >= b,
        "Eq": a == b,
        "Ne": a != b,
    }[op]


class Interval:
    __slots__ = ("lo", "hi", "excl")

    def __init__(self, lo=-INF, hi=INF, excl=frozenset()):
        self.lo = lo
        self.hi = hi
        self.excl = excl

    def empty(self):
        if self.lo > self.hi:
            return True
        if self.lo == self.hi and self.lo in self.excl:
            return True
        return False

    def decide(self, op, k):
        """truth of (x op k) for all x in interval: True / False / None"""
        lo, hi = self.lo, self.hi
        if op == "Lt":
            if hi < k:
                return True
            if lo >= k:
                return False
        elif op == "Le":
            if hi <= k:
                return True
            if lo > k:
                return False
        elif op == "Gt":
            if lo > k:
                return True
            if hi <= k:
                return False
        elif op == "Ge":
            if lo >= k:
                return True
            if hi < k:
                return False
        elif op == "Eq":
            if lo == hi == k:
                return True
            if k < lo or k > hi or k in self.excl:
                return False
        elif op == "Ne":
            if lo == hi == k:
                return False
            if k < lo or k > hi or k in self.excl:
                return True
        return None

    def refine(self, op, k):
        lo, hi, ex = self.lo, self.hi, self.excl
        if op == "Lt":
            hi = min(hi, k - 1)
        elif op == "Le":
            hi = min(hi, k)
        elif op == "Gt":
            lo = max(lo, k + 1)
        elif op == "Ge":
            lo = max(lo, k)
        elif op == "Eq":
            lo = max(lo, k)
            hi = min(hi, k)
        elif op == "Ne":
            ex = ex | {k}
            if lo == k:
                lo = k + 1
            if hi == k:
                hi = k - 1
        # an excluded value at a bound tightens the bound (whichever fact came first)
        n = 0
        while lo in ex and lo <= hi and n < 8:
            lo += 1
            n += 1
        n = 0
        while hi in ex and lo <= hi and n < 8:
            hi -= 1
            n += 1
        return Interval(lo, hi, ex)

    def __repr__(self):
        return "[%s,%s]%s" % (self.lo, self.hi, ("\\" + str(sorted(self.excl))) if self.excl else "")


# ---------------------------------------------------------------- names


def strip_generics(s):
    """remove ::<...> turbofish segments and <'a, K, V> argument lists of paths"""
    if s is None:
        return None
    out = []
    i = 0
    n = len(s)
    while i < n:
        if s.startswith("::<", i):
            # skip balanced <...>
            depth = 0
            j = i + 2
            while j < n:
                if s[j] == "<":
                    depth += 1
                elif s[j] == ">":
                    depth -= 1
                    if depth == 0:
                        break
                j += 1
            i = j + 1
            continue
        out.append(s[i])
        i += 1
    return "".join(out)


_gen_re = re.compile(r"<[^<>]*>")


def norm_impl_path(s):
    """normalise `<T<'a, K> as Trait>::m` -> `<T as Trait>::m` (drop type argument lists)"""
    s = strip_generics(s)
    if s is None:
        return None
    # drop argument lists inside the leading <... as ...> qualifier
    if s.startswith("<"):
        # iteratively remove innermost <..> that do not contain ' as '
        prev = None
        while prev != s:
            prev = s
            s2 = []
            last = 0
            for m in _gen_re.finditer(s):
                if " as " in m.group(0) or m.start() == 0:
                    continue
                s2.append(s[last : m.start()])
                last = m.end()
            s2.append(s[last:])
            s = "".join(s2)
    return s


LOG_MACROS = (
    "log::debug",
    "log::info",
    "log::warn",
    "log::error",
    "log::trace",
    "log::log",
    "tracing::debug",
    "tracing::info",
    "tracing::warn",
    "tracing::error",
    "tracing::trace",
    "tracing::event",
    "tracing::macros::debug",
    "tracing::macros::error",
)


def is_log_span(span):
    if not span or "exp" not in span:
        return False
    e = span["exp"]
    return any(e.endswith(m) or e == m for m in LOG_MACROS) or e.startswith("log::") or e.startswith("tracing::")


STD_DISCR = {
    ("std::option::Option", "None"): 0,
    ("std::option::Option", "Some"): 1,
    ("std::result::Result", "Ok"): 0,
    ("std::result::Result", "Err"): 1,
    ("std::ops::ControlFlow", "Continue"): 0,
    ("std::ops::ControlFlow", "Break"): 1,
    ("std::task::Poll", "Ready"): 0,
    ("std::task::Poll", "Pending"): 1,
}

SIZE_OF = {
    "u8": 1,
    "i8": 1,
    "u16": 2,
    "i16": 2,
    "u32": 4,
    "i32": 4,
    "u64": 8,
    "i64": 8,
    "usize": 8,
    "isize": 8,
    "u128": 16,
    "i128": 16,
    "bool": 1,
}

INT_BITS = {k: v * 8 for k, v in SIZE_OF.items() if k != "bool"}


def mk(adt, variant, **fields):
    vi = STD_DISCR.get((adt, variant), 0)
    return Struct(adt, variant, vi, OrderedDict(fields))


def Ok(v):
    return mk("std::result::Result", "Ok", **{"0": v})


def Err(v):
    return mk("std::result::Result", "Err", **{"0": v})


def Some(v):
    return mk("std::option::Option", "Some", **{"0": v})


def NoneV():
    return mk("std::option::Option", "None")


class Event:
    __slots__ = ("kind", "name", "args", "site", "span", "ctx", "result", "callee", "extra")

    def __init__(self, kind, name, args, site, span, ctx, result=None, callee=None, extra=None):
        self.kind = kind
        self.name = name
        self.args = args
        self.site = site
        self.span = span
        self.ctx = ctx
        self.result = result
        self.callee = callee
        self.extra = extra

    def __repr__(self):
        return "%s %s(%s)%s" % (
            self.kind,
            self.name,
            ", ".join(repr(a) for a in self.args),
            (" in " + "/".join(c.split("::")[-1] for c in self.ctx)) if self.ctx else "",
        )


class State:
    def __init__(self):
        self.mem = {}
        self.iv = {}  # canonical atoms key -> Interval
        self.discr = {}  # term -> int | ('not', frozenset)
        self.events = []
        self.pc = []  # path condition: (description, truth)
        self.visits = {}
        self.nframes = 0
        self.bufs = {}  # buffer term -> consumed (linear value) ; None = unknown
        self.notes = []
        self.cut = None
        self.entered = frozenset()

    def add_pc(self, cond, truth, site):
        # (condition, outcome, site, number of events recorded before the branch)
        self.pc.append((cond, truth, site, len(self.events)))

    def fork(self):
        s = State.__new__(State)
        s.mem = dict(self.mem)
        s.iv = dict(self.iv)
        s.discr = dict(self.discr)
        s.events = list(self.events)
        s.pc = list(self.pc)
        s.visits = dict(self.visits)
        s.nframes = self.nframes
        s.bufs = dict(self.bufs)
        s.notes = list(self.notes)
        s.cut = self.cut
        s.entered = self.entered
        return s


class PathResult:
    def __init__(self, state, ret, cut=None):
        self.state = state
        self.ret = ret
        self.cut = cut  # None | reason string
        self.events = state.events

    def calls(self, pred=None):
        return [e for e in self.events if e.kind == "call" and (pred is None or pred(e))]


class Budget(Exception):
    pass


class Interp:
    def __init__(self, facts, policy=None, models=None, max_paths=20000, max_depth=12, loop_bound=2,
                 dyn_impl=None, follow_log=False, self_impl=None):
        self.facts = facts
        self.policy = policy or (lambda callee, args: "inline")
        self.models = dict(DEFAULT_MODELS)
        if models:
            self.models.update(models)
        self.max_paths = max_paths
        self.max_depth = max_depth
        self.loop_bound = loop_bound
        self.dyn_impl = dyn_impl or {}
        self.self_impl = self_impl or {}  # calls on Self inside a trait's default body (not virtual calls)
        self.follow_log = follow_log
        self.explore_callbacks = True
        self.npaths = 0
        self.steps = 0
        self.max_steps = 3_000_000

    # ------------------------------------------------------------ memory
    def read_root(self, st, root):
        if root in st.mem:
            return st.mem[root]
        if root[0] == "H":
            return root[1]
        return TOP

    def _proj_value(self, st, v, p):
        """apply one projection to a value (no address tracking); returns value"""
        k = p[0]
        if k == "*":
            if isinstance(v, Ref):
                return self.read_addr(st, v.root, v.path)
            if isinstance(v, tuple) and v != TOP:
                return self.read_root(st, ("H", v))
            if isinstance(v, (ClosureV, Struct, TupleV)):
                return v  # by-value object where a reference was expected: transparent
            return TOP
        if k == "f":
            name = p[1]
            if isinstance(v, Struct):
                return v.get(name)
            if isinstance(v, TupleV):
                try:
                    return v.items[int(name)]
                except Exception:
                    return TOP
            if isinstance(v, ClosureV):
                idx = p[2]
                if idx < len(v.caps):
                    return v.caps[idx]
                return TOP
            if isinstance(v, tuple) and v != TOP:
                return ("field", v, name)
            return TOP
        if k == "v":
            if isinstance(v, Struct):
                return v
            if isinstance(v, tuple) and v != TOP:
                return ("as", v, p[1])
            return TOP
        if k in ("idxv", "cidx"):
            i = p[1]
            base = v
            while isinstance(base, tuple) and base and base[0] in ("deref", "ref"):
                base = base[1]
            if isinstance(base, tuple) and base and base[0] == "bufslice" and (isinstance(i, int) or isinstance(i, tuple)):
                # a byte of a view onto a byte buffer: named by the buffer and its offset in the stream
                off = lin_add(base[2], i, 1)
                if off is not None:
                    return ("bufread", base[1], tform(off), 1)
            if isinstance(base, tuple) and base and base[:2] == ("agg", "array") and isinstance(i, int) and 0 <= i < len(base) - 2:
                return base[2 + i]
            if isinstance(v, tuple) and v != TOP:
                return ("index", v)
            return TOP
        if k in ("idx", "sub"):
            if isinstance(v, tuple) and v != TOP:
                return ("index", v)
            return TOP
        return v

    def resolve(self, st, frame, place):
        """-> (root, path) address of a place, following references"""
        root = ("L", frame, place.local)
        path = ()
        for p in place.proj:
            if p[0] == "*":
                v = self.read_addr(st, root, path)
                if isinstance(v, Ref):
                    root, path = v.root, v.path
                elif isinstance(v, tuple) and v != TOP:
                    root, path = ("H", v), ()
                elif isinstance(v, (ClosureV, Struct, TupleV)):
                    pass  # transparent (see _proj_value)
                else:
                    root, path = ("H", ("unknown_ptr",)), ()
            else:
                if p[0] == "f":
                    # field access through a pinned/boxed reference (coroutine `_1.field`): auto-deref
                    v = self.read_addr(st, root, path)
                    if isinstance(v, Ref):
                        root, path = v.root, v.path
                if p[0] == "idx":
                    # slice / array element: remember the index *value* (the index local belongs to this frame)
                    p = ("idxv", self.read_root(st, ("L", frame, p[1])))
                path = path + (p,)
        return root, path

    def read_addr(self, st, root, path):
        v = self.read_root(st, root)
        for p in path:
            v = self._proj_value(st, v, p)
        return v

    def read_place(self, st, frame, place):
        root, path = self.resolve(st, frame, place)
        return self.read_addr(st, root, path)

    def _write_into(self, st, v, path, val):
        if not path:
            return val
        p = path[0]
        k = p[0]
        if k == "f":
            name = p[1]
            if isinstance(v, Struct):
                return v.with_field(name, self._write_into(st, v.get(name), path[1:], val))
            if isinstance(v, TupleV):
                items = list(v.items)
                i = int(name)
                while len(items) <= i:
                    items.append(TOP)
                items[i] = self._write_into(st, items[i], path[1:], val)
                return TupleV(items)
            if isinstance(v, ClosureV):
                caps = list(v.caps)
                i = p[2]
                while len(caps) <= i:
                    caps.append(TOP)
                caps[i] = self._write_into(st, caps[i], path[1:], val)
                return ClosureV(v.path, caps, v.kind)
            base = v if (isinstance(v, tuple) and v != TOP) else None
            s = Struct(None, None, 0, OrderedDict(), base)
            inner = ("field", base, name) if base is not None else TOP
            return s.with_field(name, self._write_into(st, inner, path[1:], val))
        if k == "v":
            return self._write_into(st, v, path[1:], val)
        # index etc: weak
        return TOP

    def write_addr(self, st, root, path, val):
        cur = self.read_root(st, root)
        st.mem[root] = self._write_into(st, cur, path, val)

    def write_place(self, st, frame, place, val, body=None, site=None, span=None):
        root, path = self.resolve(st, frame, place)
        if root[0] == "H":
            # a write through an opaque pointer is an observable effect
            st.events.append(Event("write", "store", [root[1], path_names(path), val], site, span, tuple(self.ctx)))
        self.write_addr(st, root, path, val)

    # ------------------------------------------------------------ operands
    def operand(self, st, frame, op):
        if op.kind == "const":
            c = op.const
            if "val" in c:
                return c["val"]
            if "fn" in c:
                return ("fn", c["fn"])
            if "str" in c:
                return ("str", c["str"])
            if "def" in c:
                if "evalrepr" in c:
                    return ("constitem", c["def"], c["evalrepr"])
                return ("constitem", c["def"])
            r = c.get("repr")
            if r == "()":
                return TupleV([])
            return ("const", r or c.get("ty"))
        if op.place is None:
            return TOP
        return self.read_place(st, frame, op.place)

    # ------------------------------------------------------------ facts
    def type_range(self, st, v, oty):
        """a bare term of unsigned type lies in [0, 2^bits-1]"""
        if oty in INT_BITS and not oty.startswith("i") and isinstance(v, tuple) and v and v[0] not in ("lin", "top"):
            key, f = canon({v: 1})
            iv = st.iv.get(key)
            if iv is None or iv.lo == -INF or iv.hi == INF:
                iv = iv or Interval()
                st.iv[key] = Interval(max(iv.lo, 0), min(iv.hi, (1 << INT_BITS[oty]) - 1), iv.excl)

    def decide_cmp(self, st, op, a, b, oty=None, depth=0):
        """-> True/False/None ; comparison of two values under the path facts; min/max atoms are
        decided by a two-way case split (min(p,q) = p with p <= q, or = q with q <= p)"""
        r = self._decide_core(st, op, a, b, oty)
        if r is not None or depth >= 2:
            return r
        mm = None
        for side in (a, b):
            for x in atoms(side):
                if isinstance(x, tuple) and len(x) == 3 and x[0] in ("min", "max"):
                    mm = x
                    break
            if mm:
                break
        if mm is None:
            return None
        kind, p, q = mm
        outs = set()
        for pick, other in ((p, q), (q, p)):
            s2 = st.fork()
            rel = "Le" if kind == "min" else "Ge"
            if not self.assume_cmp(s2, rel, pick, other, True, oty) or self.infeasible(s2):
                continue  # infeasible branch
            a2 = subst_term(a, mm, pick)
            b2 = subst_term(b, mm, pick)
            outs.add(self.decide_cmp(s2, op, a2, b2, oty, depth + 1))
        if len(outs) == 1:
            return outs.pop()
        return None

    def infeasible(self, st):
        """do the interval facts contradict each other (one elimination step)?"""
        for key, iv in list(st.iv.items()):
            if len(key) < 2:
                continue
            lo, hi = self.bounds(st, from_lin(dict(key), 0), depth=1)
            if lo > hi:
                return True
        return False

    def _decide_core(self, st, op, a, b, oty=None):
        """-> True/False/None ; comparison of two values under the path facts"""
        if oty:
            self.type_range(st, a, oty)
            self.type_range(st, b, oty)
        la, lb = to_lin(a), to_lin(b)
        if la is None or lb is None:
            if op in ("Eq", "Ne"):
                ta, tb = tform(a), tform(b)
                if isinstance(a, Struct) and isinstance(b, Struct) and not a.fields and not b.fields:
                    r = a.variant == b.variant
                    return r if op == "Eq" else not r
            return None
        d = dict(la[0])
        for k, v in lb[0].items():
            d[k] = d.get(k, 0) - v
        d = {k: v for k, v in d.items() if v != 0}
        c = la[1] - lb[1]
        if not d:
            return cmp_const(op, c, 0)
        key, f = canon(d)
        # key*f + c  op 0   <=>  key  op'  -c/f
        if f < 0:
            op = CMP_FLIP[op]
            f = -f
            c = -c
        iv = st.iv.get(key)
        if iv is not None:
            r = decide_scaled(iv, op, f, -c)
            if r is not None:
                return r
        lo, hi = self.bounds(st, from_lin(dict(key), 0))
        if lo == -INF and hi == INF:
            return None
        return decide_scaled(Interval(lo, hi), op, f, -c)

    def assume_cmp(self, st, op, a, b, truth, oty=None):
        """record the fact (a op b) == truth; returns False if infeasible"""
        if oty:
            self.type_range(st, a, oty)
            self.type_range(st, b, oty)
        la, lb = to_lin(a), to_lin(b)
        if la is None or lb is None:
            return True
        if not truth:
            op = CMP_NEG[op]
        d = dict(la[0])
        for k, v in lb[0].items():
            d[k] = d.get(k, 0) - v
        d = {k: v for k, v in d.items() if v != 0}
        c = la[1] - lb[1]
        if not d:
            return cmp_const(op, c, 0)
        key, f = canon(d)
        if f < 0:
            op = CMP_FLIP[op]
            f = -f
            c = -c
        iv = st.iv.get(key, Interval())
        iv2 = refine_scaled(iv, op, f, -c)
        if iv2.empty():
            return False
        st.iv[key] = iv2
        return True

    # ------------------------------------------------------------ ranges
    def _atom_bounds(self, st, v, depth):
        lo, hi = -INF, INF
        if v[0] in ("trunc", "cast") and v[1] in INT_BITS and not v[1].startswith("i"):
            lo, hi = 0, (1 << INT_BITS[v[1]]) - 1
            il, ih = self.bounds(st, v[2], depth + 1)
            if il >= 0 and ih <= hi:
                lo, hi = il, ih
        elif v[0] == "bufread":
            w = v[3]
            if isinstance(w, int):
                lo, hi = 0, (1 << (8 * w)) - 1
        elif v[0] in ("len", "len0"):
            lo, hi = 0, (1 << 63) - 1
        elif v[0] == "call" and len(v) >= 4 and v[1].split("::")[-1] in ("len", "remaining", "capacity"):
            lo, hi = 0, (1 << 63) - 1
        elif v[0] == "min" and len(v) == 3:
            a, b = self.bounds(st, v[1], depth + 1), self.bounds(st, v[2], depth + 1)
            lo, hi = min(a[0], b[0]), min(a[1], b[1])
        elif v[0] == "max" and len(v) == 3:
            a, b = self.bounds(st, v[1], depth + 1), self.bounds(st, v[2], depth + 1)
            lo, hi = max(a[0], b[0]), max(a[1], b[1])
        key, f = canon({v: 1})
        iv = st.iv.get(key)
        if iv is not None:
            lo, hi = max(lo, iv.lo), min(hi, iv.hi)
        return lo, hi

    def bounds(self, st, v, depth=0):
        """(lo, hi) of a numeric value under the path facts: interval arithmetic over its affine form,
        refined by one elimination step against each known fact on an affine form (v = K + R)"""
        if isinstance(v, bool):
            return int(v), int(v)
        if isinstance(v, int):
            return v, v
        if depth > 6 or not isinstance(v, tuple) or not v or v == TOP:
            return -INF, INF
        if v[0] == "lin":
            mine, const = dict(v[1]), v[2]
        else:
            mine, const = {v: 1}, 0
        slo = shi = const
        for a, k in mine.items():
            l, h = self._atom_bounds(st, a, depth)
            if k >= 0:
                slo += k * l
                shi += k * h
            else:
                slo += k * h
                shi += k * l
        if len(mine) > 1:
            key, f = canon(mine)
            iv = st.iv.get(key)
            if iv is not None and f != 0:
                a, b = iv.lo * f, iv.hi * f
                slo, shi = max(slo, min(a, b) + const), min(shi, max(a, b) + const)
        if depth < 2:
            for key2, iv2 in list(st.iv.items()):
                if len(key2) < 2 or (iv2.lo == -INF and iv2.hi == INF):
                    continue
                for sign in (1, -1):
                    rest = dict(mine)
                    for a2, k2 in key2:
                        rest[a2] = rest.get(a2, 0) - sign * k2
                    rest = {a2: k2 for a2, k2 in rest.items() if k2 != 0}
                    if len(rest) > len(mine) + 1:
                        continue
                    rl, rh = self.bounds(st, from_lin(rest, const), depth + 1)
                    kl, kh = (iv2.lo, iv2.hi) if sign == 1 else (-iv2.hi, -iv2.lo)
                    slo, shi = max(slo, kl + rl), min(shi, kh + rh)
        return slo, shi

    def check_overflow(self, st, base, a, b, oty):
        """'safe' | 'panics' | 'unknown' for an overflow-checked a (base) b of type oty"""
        bits = INT_BITS.get(oty)
        if not bits:
            return "unknown"
        signed = oty.startswith("i")
        tmin = -(1 << (bits - 1)) if signed else 0
        tmax = (1 << (bits - 1)) - 1 if signed else (1 << bits) - 1
        if not signed:
            self.type_range(st, a, oty)
            self.type_range(st, b, oty)
        if base == "Add" and bits >= 64:
            # a closure-private counter (starts at a constant, only the closure changes it) plus a small constant:
            # 2^64 invocations would be needed
            for x, y in ((a, b), (b, a)):
                if isinstance(x, tuple) and x and x[0] == "counter" and isinstance(y, int) and 0 <= y <= 1024:
                    return "safe"
        if base == "Sub" and not signed:
            d = self.decide_cmp(st, "Ge", a, b, oty)
            if d is True:
                return "safe"
            if d is False:
                return "panics"
        la, ha = self.bounds(st, a)
        lb, hb = self.bounds(st, b)
        if base == "Add":
            lo, hi = la + lb, ha + hb
        elif base == "Sub":
            lo, hi = la - hb, ha - lb
        elif base == "Mul":
            c = [la * lb, la * hb, ha * lb, ha * hb] if all(x not in (INF, -INF) for x in (la, lb, ha, hb)) else [-INF, INF]
            lo, hi = min(c), max(c)
        else:
            return "unknown"
        if lo >= tmin and hi <= tmax:
            return "safe"
        if hi < tmin or lo > tmax:
            return "panics"
        return "unknown"

    # ------------------------------------------------------------ rvalues
    def rvalue(self, st, frame, body, rv, site, span):
        k = rv.k
        if k == "use":
            return self.operand(st, frame, rv.ops[0])
        if k == "ref":
            root, path = self.resolve(st, frame, rv.place)
            if root[0] == "H":
                # address of something behind an opaque pointer: the term itself
                v = root[1]
                for p in path:
                    if p[0] == "f":
                        v = ("field", v, p[1])
                    elif p[0] == "v":
                        v = ("as", v, p[1])
                    else:
                        v = ("index", v)
                # but if memory holds an overlay for it, keep a real reference
                if root in st.mem:
                    return Ref(root, path)
                return v
            return Ref(root, path)
        if k == "rawptr":
            root, path = self.resolve(st, frame, rv.place)
            return Ref(root, path)
        if k == "binop":
            a = self.operand(st, frame, rv.ops[0])
            b = self.operand(st, frame, rv.ops[1])
            return self.binop(st, rv.op, a, b, rv.j.get("oty"), site)
        if k == "unop":
            a = self.operand(st, frame, rv.ops[0])
            if rv.op == "Not":
                oty = (rv.j.get("oty") or "bool").split("::")[-1]
                if isinstance(a, int):
                    if oty in INT_BITS and oty != "bool":
                        # bitwise complement within the operand's width (signed types: two's complement value)
                        bits = INT_BITS[oty]
                        r = (~a) & ((1 << bits) - 1)
                        if oty.startswith("i") and r >= (1 << (bits - 1)):
                            r -= 1 << bits
                        return r
                    return 0 if a else 1
                if oty in INT_BITS and oty != "bool":
                    return ("unop", "Not", tform(a))
                if isinstance(a, tuple) and a and a[0] == "cmp":
                    return ("cmp", CMP_NEG[a[1]], a[2], a[3], a[4])
                if isinstance(a, tuple) and a and a[0] == "not":
                    return a[1]
                return ("not", tform(a))
            if rv.op == "Neg":
                r = lin_scale(a, -1)
                return r if r is not None else TOP
            if rv.op == "PtrMetadata":
                base = tform(a)
                while isinstance(base, tuple) and base and base[0] in ("deref", "ref"):
                    base = base[1]
                if isinstance(base, tuple) and base and base[0] == "bufslice" and base not in st.bufs:
                    return base[3]  # a view that nothing consumes from: its length is what it was cut to
                return ("len", tform(a))
            return ("unop", rv.op, tform(a))
        if k == "cast":
            a = self.operand(st, frame, rv.ops[0])
            return self.cast(st, a, rv.j.get("kind", ""), rv.j.get("oty"), rv.j.get("ty"))
        if k == "discr":
            v = self.read_place(st, frame, rv.place)
            return self.discr_of(st, v)
        if k == "agg":
            ak = rv.j["ak"]
            vals = [self.operand(st, frame, o) for o in rv.ops]
            if ak == "adt":
                fields = OrderedDict(zip(rv.j["fields"], vals))
                return Struct(rv.j["adt"], rv.j["variant"], rv.j["vi"], fields)
            if ak in ("closure", "coroutine", "coroutine_closure"):
                return ClosureV(rv.j["def"], vals, ak)
            if ak == "tuple":
                return TupleV(vals)
            return ("agg", ak) + tuple(tform(v) for v in vals)
        if k == "repeat":
            return ("repeat", tform(self.operand(st, frame, rv.ops[0])))
        return TOP

    def discr_value(self, s):
        if s.adt in self.facts.adts:
            for v in self.facts.adts[s.adt]["variants"]:
                if v["name"] == s.variant:
                    return v["discr"] if v["discr"] is not None else 0
        return STD_DISCR.get((s.adt, s.variant), s.vi)

    def discr_of(self, st, v):
        if isinstance(v, Struct) and v.variant is not None:
            return self.discr_value(v)
        if isinstance(v, int):
            return v
        if isinstance(v, tuple) and v != TOP:
            t = ("discr", v)
            d = st.discr.get(v)
            if isinstance(d, int):
                return d
            return t
        return TOP

    def cast(self, st, a, kind, oty, ty):
        if kind.startswith("IntToInt") or kind.startswith("Transmute") and False:
            bits = INT_BITS.get(ty)
            obits = INT_BITS.get(oty)
            if isinstance(a, int):
                if bits and not ty.startswith("i"):
                    return a & ((1 << bits) - 1)
                return a
            if a == TOP:
                return TOP
            if bits and obits and bits >= obits:
                self.type_range(st, a, oty)
                return a  # widening (same signedness assumed for the code base's unsigned ints)
            if oty == "bool":
                return a
            if isinstance(a, tuple) and a[0] == "discr":
                return a
            if bits and not ty.startswith("i"):
                lo, hi = self.bounds(st, a)
                if lo >= 0 and hi <= (1 << bits) - 1:
                    return a  # provably lossless under the path facts
            return ("trunc", ty, tform(a))
        if kind.startswith("PointerCoercion") or kind.startswith("PtrToPtr") or kind.startswith("Subtype"):
            return a
        if a == TOP:
            return TOP
        return ("cast", ty, tform(a))

    def binop(self, st, op, a, b, oty, site):
        base = op.replace("WithOverflow", "").replace("Unchecked", "")
        with_ov = op.endswith("WithOverflow")
        if base in ("Add", "Sub"):
            r = lin_add(a, b, 1 if base == "Add" else -1)
            if r is None:
                r = ("binop", base, tform(a), tform(b))
            elif isinstance(r, int) and oty in INT_BITS and not oty.startswith("i"):
                bits = INT_BITS[oty]
                ov = r < 0 or r >= (1 << bits)
                if with_ov:
                    return TupleV([r & ((1 << bits) - 1), 1 if ov else 0])
                r &= (1 << bits) - 1
            if with_ov:
                return TupleV([r, ("ovf", base, tform(a), tform(b), oty, site)])
            return r
        if base == "Mul":
            r = None
            if isinstance(a, int):
                r = lin_scale(b, a)
            elif isinstance(b, int):
                r = lin_scale(a, b)
            if r is None:
                r = ("binop", "Mul", tform(a), tform(b))
            if with_ov:
                return TupleV([r, ("ovf", base, tform(a), tform(b), oty, site) if not isinstance(r, int) else 0])
            return r
        if base in CMP_FLIP:
            d = self.decide_cmp(st, base, a, b, oty)
            if d is not None:
                return 1 if d else 0
            return ("cmp", base, tform(a), tform(b), oty)
        if base in ("BitAnd", "BitOr", "BitXor") and isinstance(a, int) and isinstance(b, int):
            return {"BitAnd": a & b, "BitOr": a | b, "BitXor": a ^ b}[base]
        if base in ("Div", "Rem", "Shl", "Shr") and isinstance(a, int) and isinstance(b, int) and b != 0:
            try:
                return {"Div": a // b, "Rem": a % b, "Shl": a << b, "Shr": a >> b}[base]
            except Exception:
                return TOP
        if base == "Shl" and isinstance(b, int) and isinstance(a, tuple) and a and a[0] == "bufread" and b % 8 == 0:
            return ("binop", "Shl", tform(a), b)
        if base == "BitOr":
            # big-endian assembly of adjacent bytes of one buffer: (hi << 8*w_lo) | lo
            for hi_, lo_ in ((a, b), (b, a)):
                if isinstance(hi_, tuple) and hi_ and hi_[:2] == ("binop", "Shl") and isinstance(hi_[2], tuple) and hi_[2][0] == "bufread" and isinstance(lo_, tuple) and lo_ and lo_[0] == "bufread":
                    h = hi_[2]
                    if h[1] == lo_[1] and isinstance(lo_[3], int) and hi_[3] == 8 * lo_[3] and lin_add(h[2], h[3], 1) == lo_[2]:
                        return ("bufread", h[1], h[2], h[3] + lo_[3])
        if base == "BitAnd" and (a == 0 or b == 0):
            return 0
        if base == "BitOr" and (a == 1 or b == 1) and oty == "bool":
            return 1
        if base == "Cmp":
            return ("ordering", tform(a), tform(b))
        return ("binop", base, tform(a), tform(b))

    # ------------------------------------------------------------ execution
    def run(self, body, args, st=None, seeds=None):
        """interpret `body` with argument values; returns list of PathResult"""
        self.ctx = []
        self.npaths = 0
        self.steps = 0
        st = st or State()
        if seeds:
            seeds(st)
        out = []
        self.panic_paths = []
        for s, ret in self.call_body(body, args, st, 0):
            pr = PathResult(s, ret, s.cut)
            if s.cut and (s.cut.startswith("panic") or s.cut.startswith("diverges")):
                self.panic_paths.append(pr)
            else:
                out.append(pr)
        return out

    def call_body(self, body, args, st, depth, rust_call=False):
        """generator of (state, return value)"""
        if depth > self.max_depth:
            st2 = st.fork()
            yield st2, ("deep", body.path)
            return
        st.nframes += 1
        frame = st.nframes
        st.entered = st.entered | {body.path}
        # arguments
        nargs = body.arg_count
        vals = list(args)
        if rust_call and body.kind in ("closure", "coroutine") and len(vals) == 2:
            # rust-call ABI: (closure, (a, b, ..)) -> closure, a, b, ..
            t = vals[1]
            if isinstance(t, TupleV):
                vals = [vals[0]] + list(t.items)
            elif nargs >= 2:
                vals = [vals[0]] + [("field", tform(t), str(i)) for i in range(nargs - 1)]
        for i in range(nargs):
            v = vals[i] if i < len(vals) else TOP
            st.mem[("L", frame, i + 1)] = v
        work = [(st, 0, 0)]
        while work:
            st, bb, si = work.pop()
            # run one block
            res = self.run_block(body, frame, st, bb, si, depth)
            for item in res:
                if item[0] == "ret":
                    yield item[1], item[2]
                else:
                    work.append((item[1], item[2], 0))

    def run_block(self, body, frame, st, bb, si, depth):
        """returns list of ('ret', state, value) | ('go', state, bb)"""
        self.steps += 1
        if self.steps > self.max_steps:
            raise Budget("step budget exceeded")
        key = (frame, bb)
        n = st.visits.get(key, 0) + 1
        st.visits[key] = n
        if n > self.loop_bound:
            st.cut = "loop bound at %s bb%d" % (body.path, bb)
            self.npaths += 1
            return [("ret", st, ("cut",))]
        blk = body.blocks[bb]
        site0 = (body.path, bb)
        for idx in range(si, len(blk.stmts)):
            s = blk.stmts[idx]
            if s.k == "assign":
                v = self.rvalue(st, frame, body, s.rv, (body.path, bb, idx), s.span)
                self.write_place(st, frame, s.place, v, body, (body.path, bb, idx), s.span)
            elif s.k == "setdiscr":
                pass
        t = blk.term
        k = t.k
        if k == "goto":
            return [("go", st, t.t)]
        if k == "return":
            self.npaths += 1
            if self.npaths > self.max_paths:
                raise Budget("path budget exceeded")
            return [("ret", st, self.read_addr(st, ("L", frame, 0), ()))]
        if k == "unreachable":
            return []
        if k in ("resume", "terminate", "coroutine_drop"):
            return []
        if k == "drop":
            return [("go", st, t.t)]
        if k == "assert":
            c = self.operand(st, frame, t.cond)
            exp = 1 if t.j["expected"] else 0
            kind = t.msg.get("kind", "?")
            if isinstance(c, int):
                st.events.append(Event("obligation", "assert:" + kind, [kind, t.msg.get("op"), None, None, None], site0, t.span, tuple(self.ctx), extra={"status": "safe" if c == exp else "panics", "body": body.path}))
                if c != exp:
                    st.events.append(Event("panic", "assert:" + kind, [], site0, t.span, tuple(self.ctx)))
                    st.cut = "panic: assert %s" % kind
                    return [("ret", st, ("cut",))]
                return [("go", st, t.t)]
            status = "unknown"
            desc = [kind, t.msg.get("op")]
            if isinstance(c, tuple) and c and c[0] == "ovf":
                _, base, a, b, oty, _site = c
                status = self.check_overflow(st, base, a, b, oty)
                desc = ["Overflow", base, a, b, oty]
            elif kind == "BoundsCheck":
                ln = self.operand(st, frame, Operand_from(t.msg["len"]))
                ix = self.operand(st, frame, Operand_from(t.msg["index"]))
                d = self.decide_cmp(st, "Lt", ix, ln, "usize")
                status = "safe" if d is True else ("panics" if d is False else "unknown")
                desc = ["BoundsCheck", None, ix, ln, "usize"]
            st.events.append(Event("obligation", "assert:" + kind, desc, site0, t.span, tuple(self.ctx), extra={"status": status, "body": body.path}))
            if status == "panics":
                st.events.append(Event("panic", "assert:" + kind, desc, site0, t.span, tuple(self.ctx)))
                st.cut = "panic: assert %s" % kind
                return [("ret", st, ("cut",))]
            return [("go", st, t.t)]
        if k == "yield":
            st.events.append(Event("yield", "yield", [], site0, t.span, tuple(self.ctx)))
            return [("go", st, t.t)]
        if k == "switch":
            return self.do_switch(body, frame, st, t, site0)
        if k == "call":
            site_c = site0 if n == 1 else (body.path, bb, n)
            return self.do_call(body, frame, st, t, site_c, depth)
        if k == "tailcall":
            return []
        return []

    def do_switch(self, body, frame, st, t, site):
        v = self.operand(st, frame, t.discr)
        targets = t.targets
        other = t.otherwise
        if isinstance(v, bool):
            v = int(v)
        if isinstance(v, int):
            for val, b in targets:
                if val == v:
                    return [("go", st, b)]
            return [("go", st, other)]
        if not self.follow_log and is_log_span(t.span):
            # logging guards: follow the "disabled" edge only (documented assumption)
            for val, b in targets:
                if val == 0:
                    return [("go", st, b)]
        out = []
        if isinstance(v, tuple) and v and v[0] == "cmp":
            _, op, a, b, oty = v
            d = self.decide_cmp(st, op, a, b, oty)
            if d is not None:
                return self.do_switch_const(st, t, 1 if d else 0)
            for truth in (0, 1):
                s2 = st.fork()
                if self.assume_cmp(s2, op, a, b, bool(truth), oty):
                    s2.add_pc(v, bool(truth), site)
                    out.extend(self.do_switch_const(s2, t, truth))
            return out
        if isinstance(v, tuple) and v and v[0] == "discr":
            term = v[1]
            known = st.discr.get(term)
            excl = known[1] if isinstance(known, tuple) else frozenset()
            vals = [val for val, _ in targets]
            for val, b in targets:
                if val in excl:
                    continue
                s2 = st.fork()
                s2.discr[term] = val
                s2.add_pc(v, val, site)
                out.append(("go", s2, b))
            if not self.block_unreachable(body, other):
                s2 = st.fork()
                s2.discr[term] = ("not", excl | frozenset(vals))
                s2.add_pc(v, ("not", tuple(vals)), site)
                out.append(("go", s2, other))
            return out
        if v == TOP or not isinstance(v, tuple):
            for val, b in targets:
                out.append(("go", st.fork(), b))
            if not self.block_unreachable(body, other):
                out.append(("go", st.fork(), other))
            return out
        # generic integer / boolean term
        for val, b in targets:
            d = self.decide_cmp(st, "Eq", v, val)
            if d is False:
                continue
            s2 = st.fork()
            if self.assume_cmp(s2, "Eq", v, val, True):
                s2.add_pc(("cmp", "Eq", v, val, None), True, site)
                out.append(("go", s2, b))
            if d is True:
                return out
        if not self.block_unreachable(body, other):
            s2 = st.fork()
            ok = True
            for val, b in targets:
                if not self.assume_cmp(s2, "Ne", v, val, True):
                    ok = False
            if ok:
                s2.add_pc(("notin", v, tuple(val for val, _ in targets)), True, site)
                out.append(("go", s2, other))
        return out

    def do_switch_const(self, st, t, val):
        for v, b in t.targets:
            if v == val:
                return [("go", st, b)]
        return [("go", st, t.otherwise)]

    def block_unreachable(self, body, b):
        blk = body.blocks[b]
        return blk.term.k == "unreachable" and not any(s.k == "assign" for s in blk.stmts)

    # ------------------------------------------------------------ calls
    def callee_names(self, c):
        names = []
        if c.path:
            names.append(strip_generics(c.path))
        if c.resolved:
            names.append(norm_impl_path(c.resolved))
        return names

    def do_call(self, body, frame, st, t, site, depth):
        c = t.callee
        args = [self.operand(st, frame, a) for a in t.args]
        names = self.callee_names(c)
        name = names[0] if names else "<indirect>"
        rname = names[-1] if names else name
        if not self.follow_log and is_log_span(t.span) and not self._user_call(t):
            # call that belongs to a logging macro expansion: no effect modelled
            if t.t is None:
                return []
            self.write_place(st, frame, t.dest, ("logcall", name), body, site, t.span)
            return [("go", st, t.t)]
        results = None
        # 0. call through a fn pointer whose value is known (a fn item or an enum-variant / tuple-struct constructor)
        if c.ikind == "fnptr" and c.j.get("fnptr") is not None:
            fv = self.operand(st, frame, Operand_from(c.j["fnptr"]))
            if isinstance(fv, Ref):
                fv = self.read_addr(st, fv.root, fv.path)
            if isinstance(fv, tuple) and fv and fv[0] == "fn":
                if fv[1] in self.facts.bodies:
                    results = self.invoke(st, fv, args, depth, site)
                else:
                    ctor = self.ctor_struct(fv[1], args)
                    if ctor is not None:
                        results = [(st, ctor)]
        # 1. models
        for nm in (names[::-1] + names) if results is None else ():
            m = self.models.get(nm)
            if m is None:
                for suf, fn in SUFFIX_MODELS:
                    if nm.endswith(suf):
                        m = fn
                        break
            if m is not None:
                results = m(self, st, t, args, site, depth)
                if results is not None:
                    break
        if results is None:
            target = None
            if c.resolved and c.resolved_local and c.ikind in ("item", "closure_once_shim", "fnptr_shim", "reify_shim"):
                target = self.facts.bodies.get(c.resolved)
            elif c.ikind != "virtual" and not c.resolved and c.path in self.self_impl:
                target = self.facts.bodies.get(self.self_impl[c.path])
            elif c.ikind == "virtual" and c.path in self.dyn_impl:
                target = self.facts.bodies.get(self.dyn_impl[c.path])
            elif c.path and c.path in self.dyn_impl:
                target = self.facts.bodies.get(self.dyn_impl[c.path])
            elif c.path is None and t.j["callee"].get("indirect") is not None:
                pass
            decision = "opaque"
            if target is not None:
                decision = self.policy(target, args)
            if target is not None and decision == "inline":
                results = []
                self.ctx.append(target.path)
                try:
                    rc = target.kind in ("closure", "coroutine") and (c.trait or "").startswith("std::ops::Fn")
                    for s2, ret in self.call_body(target, args, st.fork(), depth + 1, rust_call=rc):
                        if s2.cut:
                            results.append((s2, ("cut",)))
                        else:
                            results.append((s2, ret))
                finally:
                    self.ctx.pop()
                # record the call itself as an event too (at the front is impossible; mark as 'enter')
            else:
                ev_name = rname if (c.resolved and c.ikind != "virtual") else name
                snap = [self.snapshot(st, a) for a in args]
                res = ("call", ev_name, site, tuple(tform(a) for a in snap))
                if c.ikind == "virtual" or target is not None:
                    # a call into state the analysis does not see (a trait object, an in-crate function kept opaque): a
                    # second invocation from the same site with the same arguments (the enclosing helper was entered
                    # twice) need not return what the first did — its result is a distinct unknown
                    n_prev = sum(1 for e_ in st.events if e_.kind == "call" and e_.result is not None and e_.result[:2] == res[:2] and e_.result[3:] == res[3:] and tuple(e_.result[2][:len(site)]) == tuple(site))
                    if n_prev:
                        res = ("call", ev_name, tuple(site) + ("again%d" % n_prev,), res[3])
                st.events.append(Event("call", ev_name, snap, site, t.span, tuple(self.ctx), res, c, extra={"raw_args": args}))
                results = [(st, res)]
                # an external callee may invoke the closures it is given: explore them (effects only)
                for ai, a in enumerate(args):
                    cv = a
                    if isinstance(cv, Ref):
                        cv = self.read_addr(st, cv.root, cv.path)
                    if isinstance(cv, ClosureV) and cv.kind == "coroutine" and cv.path in self.facts.bodies and self.explore_callbacks:
                        cb = self.facts.bodies[cv.path]
                        nxt = []
                        for s_, r_ in results:
                            self.ctx.append("spawned:" + ev_name + "|" + cb.path)
                            try:
                                got = [(s2, r2) for s2, r2 in self.call_body(cb, [cv, ("cx",)], s_.fork(), depth + 1)]
                            finally:
                                self.ctx.pop()
                            for s2, cret in got:
                                if s2.cut and s2.cut.startswith("loop"):
                                    s2.cut = None
                                nxt.append((s2, r_))
                        results = nxt or results
                        continue
                    if isinstance(cv, ClosureV) and cv.kind == "closure" and cv.path in self.facts.bodies and self.explore_callbacks:
                        cb = self.facts.bodies[cv.path]
                        nargs = max(cb.arg_count - 1, 0)
                        cargs = [("cbarg", ev_name.split("::")[-1], site, i) for i in range(nargs)]
                        nxt = []
                        for s_, r_ in results:
                            got = self.invoke(s_, a if isinstance(a, Ref) else cv, cargs, depth, site, label="callback:" + ev_name)
                            fnmut = cb.locals[1]["ty"].startswith("&mut ") if len(cb.locals) > 1 else False
                            for s2, cret in got:
                                if s2.cut and s2.cut.startswith("loop"):
                                    s2.cut = None
                                s2.events.append(Event("callback-return", ev_name, [cret], site, t.span, tuple(self.ctx), extra={"closure": cv.path}))
                                if fnmut and cv.caps:
                                    # the callee may call an FnMut closure any number of times: second visit with
                                    # its by-value captured state unknown
                                    hv = ClosureV(cv.path, [c_ if isinstance(c_, Ref) else (("counter", cv.path.split("::")[-2], i_) if isinstance(c_, int) else ("captured", cv.path.split("::")[-2], i_)) for i_, c_ in enumerate(cv.caps)], cv.kind)
                                    again = self.invoke(s2, hv, cargs, depth, site, label="callback-again:" + ev_name)
                                    for s3, _c3 in again:
                                        if s3.cut and s3.cut.startswith("loop"):
                                            s3.cut = None
                                        nxt.append((s3, r_))
                                else:
                                    nxt.append((s2, r_))
                        results = nxt or results
        out = []
        for s2, ret in results:
            if s2.cut:
                out.append(("ret", s2, ("cut",)))
                continue
            if ret is DIVERGE or t.t is None:
                s2.cut = "panic: %s" % name if ret is DIVERGE else "diverges: %s" % name
                out.append(("ret", s2, ("cut",)))
                continue
            self.write_place(s2, frame, t.dest, ret, body, site, t.span)
            out.append(("go", s2, t.t))
        return out

    def snapshot(self, st, v, depth=0):
        """value with references replaced by what they point to right now"""
        if depth > 6:
            return v
        if isinstance(v, Ref):
            return self.snapshot(st, self.read_addr(st, v.root, v.path), depth + 1)
        return v

    def _user_call(self, t):
        # a call evaluated inside a log macro but written by the user has a non-expansion fn_span
        fs = t.j.get("fn_span")
        return bool(fs) and "exp" not in fs

    # helper for models: invoke a closure value
    def ctor_struct(self, path, args):
        """value built by calling the constructor fn of an enum variant / tuple struct (`Enum::Variant` used as a fn)"""
        adts = self.facts.adts
        if "::" not in path:
            return None
        head, last = path.rsplit("::", 1)
        a = adts.get(head)
        if a is not None:
            for vi, v in enumerate(a["variants"]):
                if v["name"] == last and len(v["fields"]) == len(args):
                    return Struct(head, last, vi, OrderedDict((fl["name"], x) for fl, x in zip(v["fields"], args)))
        a = adts.get(path)
        if a is not None and len(a["variants"]) == 1 and len(a["variants"][0]["fields"]) == len(args):
            v = a["variants"][0]
            return Struct(path, v["name"], 0, OrderedDict((fl["name"], x) for fl, x in zip(v["fields"], args)))
        return None

    def invoke(self, st, fval, argvals, depth, site=None, label=None):
        """call a closure/fn value; returns list of (state, ret)"""
        if isinstance(fval, ClosureV):
            b = self.facts.bodies.get(fval.path)
            if b is not None:
                self.ctx.append(b.path if label is None else label + "|" + b.path)
                try:
                    return [(s, r) for s, r in self.call_body(b, [fval] + list(argvals), st.fork(), depth + 1)]
                finally:
                    self.ctx.pop()
        if isinstance(fval, Ref):
            inner = self.read_addr(st, fval.root, fval.path)
            if isinstance(inner, ClosureV):
                # call through a reference: write back captured state is by reference anyway
                b = self.facts.bodies.get(inner.path)
                if b is not None:
                    self.ctx.append(b.path if label is None else label + "|" + b.path)
                    try:
                        return [(s, r) for s, r in self.call_body(b, [fval] + list(argvals), st.fork(), depth + 1)]
                    finally:
                        self.ctx.pop()
        if isinstance(fval, tuple) and fval and fval[0] == "fn":
            b = self.facts.bodies.get(fval[1])
            if b is not None:
                self.ctx.append(b.path)
                try:
                    return [(s, r) for s, r in self.call_body(b, argvals, st.fork(), depth + 1)]
                finally:
                    self.ctx.pop()
        res = ("callval", tform(fval), tuple(tform(a) for a in argvals))
        st.events.append(Event("call", "<value>", [fval] + list(argvals), site, None, tuple(self.ctx), res))
        return [(st, res)]


DIVERGE = ("diverge",)


def subst_term(v, old, new):
    """replace every occurrence of the atom `old` in a value by `new` (re-normalising affine forms)"""
    if v == old:
        return new
    if isinstance(v, tuple) and v:
        if v[0] == "lin":
            acc = v[2]
            for a, k in v[1]:
                a2 = subst_term(a, old, new)
                sc = lin_scale(a2, k)
                acc = lin_add(acc, sc if sc is not None else a2, 1)
                if acc is None:
                    return v
            return acc
        return tuple(subst_term(x, old, new) if isinstance(x, tuple) else x for x in v)
    return v


def Operand_from(j):
    from mir import Operand

    return Operand(j)


def path_names(path):
    return tuple(p[1] if p[0] in ("f", "v") else p[0] for p in path)


def decide_scaled(iv, op, f, k):
    """truth of (x*f op k) for all integer x in iv (f>0)"""
    if f == 1:
        return iv.decide(op, k)
    # x*f op k
    import math

    if op in ("Eq", "Ne"):
        if k % f != 0:
            return op == "Ne"
        return iv.decide(op, k // f)
    if op == "Lt":  # x*f < k  <=> x < k/f <=> x <= ceil(k/f)-1
        return iv.decide("Le", math.ceil(k / f) - 1)
    if op == "Le":
        return iv.decide("Le", math.floor(k / f))
    if op == "Gt":
        return iv.decide("Ge", math.floor(k / f) + 1)
    if op == "Ge":
        return iv.decide("Ge", math.ceil(k / f))
    return None


def refine_scaled(iv, op, f, k):
    import math

    if f == 1:
        return iv.refine(op, k)
    if op == "Eq":
        if k % f != 0:
            return Interval(1, 0)
        return iv.refine("Eq", k // f)
    if op == "Ne":
        if k % f != 0:
            return iv
        return iv.refine("Ne", k // f)
    if op == "Lt":
        return iv.refine("Le", math.ceil(k / f) - 1)
    if op == "Le":
        return iv.refine("Le", math.floor(k / f))
    if op == "Gt":
        return iv.refine("Ge", math.floor(k / f) + 1)
    if op == "Ge":
        return iv.refine("Ge", math.ceil(k / f))
    return iv


# ---------------------------------------------------------------- models


def deref_arg(I, st, v):
    """value behind a reference-like argument"""
    if isinstance(v, Ref):
        return I.read_addr(st, v.root, v.path)
    return v


def m_identity(I, st, t, args, site, depth):
    return [(st, args[0] if args else TOP)]


def m_deref(I, st, t, args, site, depth):
    v = args[0]
    if isinstance(v, Ref):
        inner = I.read_addr(st, v.root, v.path)
        if isinstance(inner, (Struct, TupleV, ClosureV, Ref)):
            return [(st, Ref(v.root, v.path))]
        if inner == TOP:
            return [(st, TOP)]
        return [(st, ("deref", tform(inner)))]
    if v == TOP:
        return [(st, TOP)]
    return [(st, ("deref", tform(v)))]


def m_clone(I, st, t, args, site, depth):
    v = deref_arg(I, st, args[0])
    return [(st, v)]


def split_result(I, st, v):
    """-> list of (state, 'Ok'|'Err', payload) for a Result-like value"""
    if isinstance(v, Struct) and v.variant in ("Ok", "Err"):
        return [(st, v.variant, v.get("0"))]
    if isinstance(v, tuple) and v != TOP:
        known = st.discr.get(v)
        out = []
        for name, d in (("Ok", 0), ("Err", 1)):
            if isinstance(known, int) and known != d:
                continue
            if isinstance(known, tuple) and d in known[1]:
                continue
            s2 = st.fork()
            s2.discr[v] = d
            s2.add_pc(("discr", v), d, None)
            out.append((s2, name, ("field", ("as", v, name), "0")))
        return out
    return [(st.fork(), "Ok", TOP), (st.fork(), "Err", TOP)]


def split_option(I, st, v):
    if isinstance(v, Struct) and v.variant in ("Some", "None"):
        return [(st, v.variant, v.get("0") if v.variant == "Some" else None)]
    if isinstance(v, tuple) and v != TOP:
        known = st.discr.get(v)
        out = []
        for name, d in (("None", 0), ("Some", 1)):
            if isinstance(known, int) and known != d:
                continue
            if isinstance(known, tuple) and d in known[1]:
                continue
            s2 = st.fork()
            s2.discr[v] = d
            s2.add_pc(("discr", v), d, None)
            out.append((s2, name, ("field", ("as", v, "Some"), "0") if name == "Some" else None))
        return out
    return [(st.fork(), "Some", TOP), (st.fork(), "None", None)]


def m_result_map(I, st, t, args, site, depth):
    out = []
    for s2, var, payload in split_result(I, st, args[0]):
        if var == "Ok":
            for s3, r in I.invoke(s2, args[1], [payload], depth, site):
                out.append((s3, Ok(r)))
        else:
            out.append((s2, Err(payload)))
    return out


def m_result_map_err(I, st, t, args, site, depth):
    out = []
    for s2, var, payload in split_result(I, st, args[0]):
        if var == "Err":
            for s3, r in I.invoke(s2, args[1], [payload], depth, site):
                out.append((s3, Err(r)))
        else:
            out.append((s2, Ok(payload)))
    return out


def m_result_and_then(I, st, t, args, site, depth):
    out = []
    for s2, var, payload in split_result(I, st, args[0]):
        if var == "Ok":
            for s3, r in I.invoke(s2, args[1], [payload], depth, site):
                out.append((s3, r))
        else:
            out.append((s2, Err(payload)))
    return out


def m_option_map(I, st, t, args, site, depth):
    out = []
    for s2, var, payload in split_option(I, st, args[0]):
        if var == "Some":
            for s3, r in I.invoke(s2, args[1], [payload], depth, site):
                out.append((s3, Some(r)))
        else:
            out.append((s2, NoneV()))
    return out


def m_ok_or(I, st, t, args, site, depth):
    out = []
    for s2, var, payload in split_option(I, st, args[0]):
        if var == "Some":
            out.append((s2, Ok(payload)))
        elif t.callee.name == "ok_or":
            out.append((s2, Err(args[1])))
        else:
            for s3, r in I.invoke(s2, args[1], [], depth, site):
                out.append((s3, Err(r)))
    return out


def _split(I, st, t, v):
    """split an Option or a Result by the callee's type: -> [(state, good?, payload, rebuild(payload) for the same variant)]"""
    is_opt = "ption" in (t.callee.path or "")
    out = []
    if is_opt:
        for s2, var, payload in split_option(I, st, v):
            out.append((s2, var == "Some", payload, is_opt))
    else:
        for s2, var, payload in split_result(I, st, v):
            out.append((s2, var == "Ok", payload, is_opt))
    return out


def _same(is_opt, good, payload):
    if is_opt:
        return Some(payload) if good else NoneV()
    return Ok(payload) if good else Err(payload)


def m_inspect(I, st, t, args, site, depth):
    """inspect / inspect_err: run the closure on a reference to the payload, hand the value back unchanged"""
    on_good = t.callee.name == "inspect"
    out = []
    for s2, good, payload, is_opt in _split(I, st, t, args[0]):
        if good == on_good:
            for s3, _r in I.invoke(s2, args[1], [payload], depth, site):
                out.append((s3, _same(is_opt, good, payload)))
        else:
            out.append((s2, _same(is_opt, good, payload)))
    return out


def m_map_or(I, st, t, args, site, depth):
    """map_or(default, f) / map_or_else(default_fn, f)"""
    lazy = t.callee.name == "map_or_else"
    out = []
    for s2, good, payload, is_opt in _split(I, st, t, args[0]):
        if good:
            for s3, r in I.invoke(s2, args[2], [payload], depth, site):
                out.append((s3, r))
        elif lazy:
            for s3, r in I.invoke(s2, args[1], [] if is_opt else [payload], depth, site):
                out.append((s3, r))
        else:
            out.append((s2, args[1]))
    return out


def m_unwrap_or_else(I, st, t, args, site, depth):
    out = []
    for s2, good, payload, is_opt in _split(I, st, t, args[0]):
        if good:
            out.append((s2, payload))
        else:
            for s3, r in I.invoke(s2, args[1], [] if is_opt else [payload], depth, site):
                out.append((s3, r))
    return out


def m_is_and(I, st, t, args, site, depth):
    """is_some_and / is_ok_and / is_none_or / is_err_and"""
    nm = t.callee.name
    out = []
    for s2, good, payload, is_opt in _split(I, st, t, args[0]):
        if nm in ("is_some_and", "is_ok_and"):
            if good:
                out.extend(I.invoke(s2, args[1], [payload], depth, site))
            else:
                out.append((s2, 0))
        elif nm == "is_err_and":
            if not good:
                out.extend(I.invoke(s2, args[1], [payload], depth, site))
            else:
                out.append((s2, 0))
        elif nm == "is_none_or":
            if good:
                out.extend(I.invoke(s2, args[1], [payload], depth, site))
            else:
                out.append((s2, 1))
    return out


def m_or_else(I, st, t, args, site, depth):
    """Option::or_else / Result::or_else / Option::or / Result::or / and"""
    nm = t.callee.name
    out = []
    for s2, good, payload, is_opt in _split(I, st, t, args[0]):
        if nm in ("or", "or_else"):
            if good:
                out.append((s2, _same(is_opt, True, payload)))
            elif nm == "or":
                out.append((s2, args[1]))
            else:
                out.extend(I.invoke(s2, args[1], [] if is_opt else [payload], depth, site))
        elif nm == "and":
            out.append((s2, args[1] if good else _same(is_opt, False, payload)))
    return out


def m_then(I, st, t, args, site, depth):
    """bool::then_some(v) (v is evaluated by the caller, eagerly) / bool::then(f)"""
    b = args[0]
    out = []
    forks = []
    if isinstance(b, int):
        forks = [(st, bool(b))]
    else:
        for truth in (True, False):
            s2 = st.fork()
            if isinstance(b, tuple) and b and b[0] == "cmp":
                if not I.assume_cmp(s2, b[1], b[2], b[3], truth, b[4]):
                    continue
            s2.add_pc(b, truth, site)
            forks.append((s2, truth))
    for s2, truth in forks:
        if not truth:
            out.append((s2, NoneV()))
        elif t.callee.name == "then_some":
            out.append((s2, Some(args[1])))
        else:
            for s3, r in I.invoke(s2, args[1], [], depth, site):
                out.append((s3, Some(r)))
    return out


def m_result_ok(I, st, t, args, site, depth):
    out = []
    for s2, var, payload in split_result(I, st, args[0]):
        out.append((s2, Some(payload) if var == "Ok" else NoneV()))
    return out


def m_option_and_then(I, st, t, args, site, depth):
    out = []
    for s2, var, payload in split_option(I, st, args[0]):
        if var == "Some":
            for s3, r in I.invoke(s2, args[1], [payload], depth, site):
                out.append((s3, r))
        else:
            out.append((s2, NoneV()))
    return out


def m_is_variant(I, st, t, args, site, depth):
    v = deref_arg(I, st, args[0])
    want = {"is_some": "Some", "is_none": "None", "is_ok": "Ok", "is_err": "Err"}[t.callee.name]
    if t.callee.name in ("is_some", "is_none"):
        cases = split_option(I, st, v)
    else:
        cases = split_result(I, st, v)
    return [(s2, 1 if var == want else 0) for s2, var, _pl in cases]


def m_try_branch(I, st, t, args, site, depth):
    out = []
    v = args[0]
    sty = t.callee.self_ty or ""
    is_opt = sty.startswith("std::option::Option") or sty.startswith("core::option::Option")
    if is_opt:
        for s2, var, payload in split_option(I, st, v):
            if var == "Some":
                out.append((s2, mk("std::ops::ControlFlow", "Continue", **{"0": payload})))
            else:
                out.append((s2, mk("std::ops::ControlFlow", "Break", **{"0": NoneV()})))
        return out
    for s2, var, payload in split_result(I, st, v):
        if var == "Ok":
            out.append((s2, mk("std::ops::ControlFlow", "Continue", **{"0": payload})))
        else:
            out.append((s2, mk("std::ops::ControlFlow", "Break", **{"0": Err(payload)})))
    return out


def m_from_residual(I, st, t, args, site, depth):
    v = args[0]
    if isinstance(v, Struct) and v.variant == "Err":
        return [(st, Err(v.get("0")))]
    if isinstance(v, Struct) and v.variant == "None":
        return [(st, NoneV())]
    return [(st, Err(("residual", tform(v))))]


def m_poll(I, st, t, args, site, depth):
    fut = args[0]
    inner = deref_arg(I, st, fut)
    if isinstance(inner, Ref):
        inner = deref_arg(I, st, inner)
    if isinstance(inner, ClosureV) and inner.kind == "coroutine":
        b = I.facts.bodies.get(inner.path)
        if b is not None and I.policy(b, args) == "inline":
            out = []
            I.ctx.append(b.path)
            try:
                for s2, r in I.call_body(b, [fut if isinstance(fut, Ref) else inner, args[1] if len(args) > 1 else TOP], st.fork(), depth + 1):
                    out.append((s2, mk("std::task::Poll", "Ready", **{"0": r})))
            finally:
                I.ctx.pop()
            return out
    res = ("await", tform(inner))
    st.events.append(Event("await", "await", [inner], site, t.span, tuple(I.ctx), res))
    return [(st, mk("std::task::Poll", "Ready", **{"0": res}))]


def m_pin_new(I, st, t, args, site, depth):
    return [(st, args[0])]


def m_size_of(I, st, t, args, site, depth):
    ta = t.callee.targs
    if ta and ta[0] in SIZE_OF:
        return [(st, SIZE_OF[ta[0]])]
    if ta and ta[0] in I.facts.adts:
        a = I.facts.adts[ta[0]]
        if a["kind"] == "Struct" and len(a["variants"]) == 1:
            sizes = [SIZE_OF.get(f_["ty"]) for f_ in a["variants"][0]["fields"]]
            if sizes and all(x is not None for x in sizes):
                al = max(sizes)
                tot = sum(sizes)
                return [(st, (tot + al - 1) // al * al)]
    return None


def m_panic(I, st, t, args, site, depth):
    st.events.append(Event("obligation", "explicit-panic", ["panic", None, None, None, None], site, t.span, tuple(I.ctx), extra={"status": "panics", "body": site[0]}))
    st.events.append(Event("panic", strip_generics(t.callee.path), args, site, t.span, tuple(I.ctx)))
    return [(st, DIVERGE)]


def m_eq(I, st, t, args, site, depth):
    a = deref_arg(I, st, args[0])
    b = deref_arg(I, st, args[1])
    a = deref_arg(I, st, a)
    b = deref_arg(I, st, b)
    op = "Eq" if t.callee.name == "eq" else "Ne"
    if isinstance(a, tuple) and isinstance(b, tuple) and a[:1] == ("str",) and b[:1] == ("str",):
        r = a[1] == b[1]
        return [(st, 1 if (r if op == "Eq" else not r) else 0)]
    d = I.decide_cmp(st, op, a, b)
    if d is not None:
        return [(st, 1 if d else 0)]
    if isinstance(a, Struct) or isinstance(b, Struct):
        return None
    return [(st, ("cmp", op, tform(a), tform(b), None))]


def m_discriminant_value(I, st, t, args, site, depth):
    v = deref_arg(I, st, args[0])
    return [(st, I.discr_of(st, v))]


def m_from_u8(I, st, t, args, site, depth):
    """num_traits::FromPrimitive::from_u8 etc. (default methods forward to the
    derived from_i64/from_u64 of the in-crate enum)"""
    self_ty = t.callee.self_ty
    if not self_ty:
        return None
    for meth in ("from_i64", "from_u64"):
        p = None
        for i in I.facts.impls:
            if i["self"] == self_ty and (i.get("trait") or "").endswith("FromPrimitive"):
                for it in i["items"]:
                    if it["name"] == meth:
                        p = it["path"]
        if p and p in I.facts.bodies:
            b = I.facts.bodies[p]
            I.ctx.append(b.path)
            try:
                return [(s, r) for s, r in I.call_body(b, [args[0]], st.fork(), depth + 1)]
            finally:
                I.ctx.pop()
    return None


def m_unwrap(I, st, t, args, site, depth):
    v = args[0]
    nm = t.callee.name
    if isinstance(v, Struct) and v.variant in ("Ok", "Some"):
        st.events.append(Event("obligation", "precondition:" + nm, [nm, None, v, None, None], site, t.span, tuple(I.ctx), extra={"status": "safe", "body": site[0]}))
        return [(st, v.get("0"))]
    if isinstance(v, Struct) and v.variant in ("Err", "None"):
        st.events.append(Event("obligation", "precondition:" + nm, [nm, None, v, None, None], site, t.span, tuple(I.ctx), extra={"status": "panics", "body": site[0]}))
        st.events.append(Event("panic", nm, args, site, t.span, tuple(I.ctx)))
        return [(st, DIVERGE)]
    st.events.append(Event("obligation", "precondition:" + nm, [nm, None, v, None, None], site, t.span, tuple(I.ctx), extra={"status": "unknown", "body": site[0]}))
    if isinstance(v, tuple) and v != TOP:
        good = "Some" if "ption" in (t.callee.path or "") else "Ok"
        return [(st, ("field", ("as", tform(v), good), "0"))]
    return [(st, TOP)]


def m_gen_range(I, st, t, args, site, depth):
    rng = args[1] if len(args) > 1 else None
    status = "unknown"
    if isinstance(rng, Struct):
        lo, hi = rng.get("start"), rng.get("end")
        d = I.decide_cmp(st, "Lt", lo, hi, "usize")
        status = "safe" if d is True else ("panics" if d is False else "unknown")
    st.events.append(Event("obligation", "precondition:gen_range", ["gen_range", None, rng, None, None], site, t.span, tuple(I.ctx), extra={"status": status, "body": site[0]}))
    return None


def m_saturating(I, st, t, args, site, depth):
    a, b = args[0], args[1]
    oty = (t.callee.self_ty or "").split("::")[-1] if t.callee.self_ty else None
    name = t.callee.name
    if name == "saturating_sub":
        d = I.decide_cmp(st, "Ge", a, b, oty)
        if d is True:
            r = lin_add(a, b, -1)
            if r is not None:
                return [(st, r)]
        if d is False:
            return [(st, 0)]
    if name == "saturating_add":
        bits = INT_BITS.get(oty)
        la, ha = I.bounds(st, a)
        lb, hb = I.bounds(st, b)
        if bits and ha + hb <= (1 << bits) - 1:
            r = lin_add(a, b, 1)
            if r is not None:
                return [(st, r)]
    # undecided: an opaque result with the facts that hold for unsigned saturating arithmetic
    res = ("call", "core::num::" + name, site, (tform(a), tform(b)))
    st.events.append(Event("call", "core::num::" + name, [a, b], site, t.span, tuple(I.ctx), res, t.callee))
    if oty in INT_BITS and not oty.startswith("i"):
        if name == "saturating_add":
            I.assume_cmp(st, "Ge", res, a, True, oty)
            I.assume_cmp(st, "Ge", res, b, True, oty)
        elif name == "saturating_sub":
            I.assume_cmp(st, "Le", res, a, True, oty)
    return [(st, res)]


def m_try_from_int(I, st, t, args, site, depth):
    """<uN as TryFrom<uM>>::try_from: Ok(x) when x fits, Err otherwise (unsigned targets only)"""
    tgt = (t.callee.self_ty or "").split("::")[-1]
    if tgt not in INT_BITS or tgt.startswith("i") or not args:
        return None
    x = args[0]
    hi = (1 << INT_BITS[tgt]) - 1
    d = I.decide_cmp(st, "Le", x, hi, "u128")
    out = []
    if d is not False:
        s1 = st if d is True else st.fork()
        if d is True or I.assume_cmp(s1, "Le", x, hi, True, "u128"):
            if d is not True:
                s1.add_pc(("cmp", "Le", tform(x), hi, "u128"), True, site)
            out.append((s1, Ok(x)))
    if d is not True:
        s2 = st if d is False else st.fork()
        if d is False or I.assume_cmp(s2, "Gt", x, hi, True, "u128"):
            if d is not False:
                s2.add_pc(("cmp", "Le", tform(x), hi, "u128"), False, site)
            out.append((s2, Err(("tryfrom_error", site))))
    return out or None


def m_from_int(I, st, t, args, site, depth):
    """<uN as From<uM>>::from (lossless widening): the value itself"""
    tgt = (t.callee.self_ty or "").split("::")[-1]
    src = [a.split("::")[-1] for a in (t.callee.targs or [])]
    if tgt in INT_BITS and args and any(a in INT_BITS or a == "bool" for a in src) and len(args) == 1:
        return [(st, args[0])]
    return None


def m_from_be_bytes(I, st, t, args, site, depth):
    """uN::from_be_bytes([b0, b1, ..]) of adjacent bytes of one buffer = the big-endian read of that width"""
    v = tform(args[0]) if args else None
    if isinstance(v, tuple) and v[:2] == ("agg", "array"):
        bs = v[2:]
        if bs and all(isinstance(x, tuple) and x and x[0] == "bufread" and x[3] == 1 and x[1] == bs[0][1] for x in bs):
            ok = all(lin_add(bs[0][2], i, 1) == x[2] for i, x in enumerate(bs))
            if ok:
                return [(st, ("bufread", bs[0][1], bs[0][2], len(bs)))]
    return None


def m_into(I, st, t, args, site, depth):
    """<T as Into<U>>::into -> the crate's own `impl From<T> for U`, when there is exactly one for the destination type"""
    try:
        body = I.facts.bodies.get(site[0]) if site else None
        if body is None or t.dest is None or len(args) != 1:
            return None
        u = body.local_ty(t.dest.local)
        cands = [b for p_, b in I.facts.bodies.items() if p_.startswith("<%s as std::convert::From<" % u) and p_.endswith(">::from")]
        if len(cands) != 1:
            return None
        I.ctx.append(cands[0].path)
        try:
            return [(s2, r) for s2, r in I.call_body(cands[0], args, st.fork(), depth + 1)]
        finally:
            I.ctx.pop()
    except Exception:
        return None


def m_wrapping(I, st, t, args, site, depth):
    """wrapping_add / wrapping_sub / wrapping_neg as plain (modular) affine arithmetic — the rules reason modulo 2^n where
    wrap-around matters (C07.R2) by looking at the call term, so keep the call as an atom and only fold constants"""
    name = t.callee.name
    oty = (t.callee.self_ty or "").split("::")[-1] if t.callee.self_ty else None
    bits = INT_BITS.get(oty)
    if bits and all(isinstance(a, int) for a in args):
        m = (1 << bits) - 1
        if name == "wrapping_add":
            return [(st, (args[0] + args[1]) & m)]
        if name == "wrapping_sub":
            return [(st, (args[0] - args[1]) & m)]
        if name == "wrapping_neg":
            return [(st, (-args[0]) & m)]
    return None


def m_fetch_update(I, st, t, args, site, depth):
    """Atomic::fetch_update(set, fetch, |v| Some(v (+|-) n)) is fetch_add / fetch_sub of n: recognised when the closure maps
    the current value to a wrapping sum/difference with something that does not depend on it; anything else stays a
    fetch_update (an overwrite of the atomic)"""
    if len(args) < 4:
        return None
    cur = ("atomic_cur", site)
    outs = I.invoke(st.fork(), args[3], [cur], depth, site)
    if len(outs) != 1:
        return None
    s2, r = outs[0]
    if not (isinstance(r, Struct) and r.variant == "Some"):
        return None
    new = tform(r.get("0"))
    op = amount = None
    if isinstance(new, tuple) and new and new[0] == "call" and new[1].split("::")[-1] in ("wrapping_add", "wrapping_sub") and len(new[3]) == 2 and new[3][0] == cur and cur not in atoms(new[3][1]):
        op = "fetch_add" if new[1].endswith("wrapping_add") else "fetch_sub"
        amount = new[3][1]
    else:
        d = lin_add(new, cur, -1)
        if d is not None and cur not in atoms(d) and not (isinstance(d, int) and d < 0):
            op, amount = "fetch_add", d
        else:
            d2_ = lin_add(cur, new, -1)
            if d2_ is not None and cur not in atoms(d2_):
                op, amount = "fetch_sub", d2_
    if op is None:
        return None
    name = "std::sync::atomic::Atomic::" + op
    snap = [I.snapshot(s2, args[0]), amount, args[1]]
    res = ("call", name, site, tuple(tform(a) for a in snap))
    s2.events.append(Event("call", name, snap, site, t.span, tuple(I.ctx), res, t.callee, extra={"via": "fetch_update"}))
    return [(s2, Ok(res))]


def m_fetch_add(I, st, t, args, site, depth):
    """fetch_add(n.wrapping_neg()) is fetch_sub(n) (identical modular arithmetic): present it as such"""
    if len(args) < 2:
        return None
    a = tform(args[1])
    if isinstance(a, tuple) and a and a[0] == "call" and a[1].endswith("wrapping_neg") and len(a[3]) == 1:
        name = "std::sync::atomic::Atomic::fetch_sub"
        snap = [I.snapshot(st, args[0]), a[3][0]] + [I.snapshot(st, x) for x in args[2:]]
        res = ("call", name, site, tuple(tform(x) for x in snap))
        st.events.append(Event("call", name, snap, site, t.span, tuple(I.ctx), res, t.callee, extra={"via": "fetch_add(wrapping_neg)"}))
        return [(st, res)]
    return None


def m_to_be_bytes(I, st, t, args, site, depth):
    ty = (t.callee.self_ty or "").split("::")[-1]
    if ty in INT_BITS and args:
        return [(st, ("be_bytes", tform(args[0]), INT_BITS[ty] // 8))]
    return None


def m_checked(I, st, t, args, site, depth):
    """checked_add / checked_sub on unsigned integers: Some(a (+|-) b) when it fits, None otherwise"""
    name = t.callee.name
    oty = (t.callee.self_ty or "").split("::")[-1] if t.callee.self_ty else None
    if oty not in INT_BITS or oty.startswith("i") or len(args) != 2:
        return None
    a, b = args
    if name == "checked_sub":
        op, fits = "Ge", lin_add(a, b, -1)
    else:
        return None
    if fits is None:
        return None
    d = I.decide_cmp(st, op, a, b, oty)
    out = []
    if d is not False:
        s1 = st if d is True else st.fork()
        if d is True or I.assume_cmp(s1, op, a, b, True, oty):
            if d is not True:
                s1.add_pc(("cmp", op, tform(a), tform(b), oty), True, site)
            out.append((s1, Some(fits)))
    if d is not True:
        s2 = st if d is False else st.fork()
        if d is False or I.assume_cmp(s2, op, a, b, False, oty):
            if d is not False:
                s2.add_pc(("cmp", op, tform(a), tform(b), oty), False, site)
            out.append((s2, NoneV()))
    return out or None


def m_fmt_format(I, st, t, args, site, depth):
    """format!("{}", x) is x.to_string() (one default Display placeholder, no literal text: template b"\xc0\x00")"""
    a = tform(args[0]) if args else None
    if not (isinstance(a, tuple) and a and a[0] == "call" and a[1].endswith("Arguments::new") and len(a[3]) == 2):
        return None
    tmpl, arr = a[3]
    if not (isinstance(tmpl, tuple) and tmpl and tmpl[0] == "const" and tmpl[1] in ('b"\\xc0\\x00"', "b\"\\xc0\\x00\"")):
        return None
    while isinstance(arr, tuple) and arr and arr[0] in ("ref", "deref"):
        arr = arr[1]
    if not (isinstance(arr, tuple) and arr[:2] == ("agg", "array") and len(arr) == 3):
        return None
    d = arr[2]
    if not (isinstance(d, tuple) and d and d[0] == "call" and d[1].endswith("Argument::new_display") and len(d[3]) == 1):
        return None
    x = d[3][0]
    while isinstance(x, tuple) and x and x[0] in ("ref", "deref"):
        x = x[1]
    name = "std::string::ToString::to_string"
    res = ("call", name, site, (x,))
    st.events.append(Event("call", name, [x], site, t.span, tuple(I.ctx), res, t.callee, extra={"via": "format!"}))
    return [(st, res)]


def m_unwrap_or(I, st, t, args, site, depth):
    v = args[0]
    if isinstance(v, Struct) and v.variant in ("Ok", "Some"):
        return [(st, v.get("0"))]
    if isinstance(v, Struct) and v.variant in ("Err", "None"):
        return [(st, args[1])]
    return None


def m_default(I, st, t, args, site, depth):
    sty = t.callee.self_ty or ""
    if sty in INT_BITS:
        return [(st, 0)]
    if sty == "bool":
        return [(st, 0)]
    return None


def m_str_len(I, st, t, args, site, depth):
    v = deref_arg(I, st, args[0])
    if isinstance(v, tuple) and v and v[0] == "str":
        return [(st, len(v[1].encode("utf-8")))]
    return [(st, ("len", tform(v)))]


def m_min(I, st, t, args, site, depth):
    a, b = args[0], args[1]
    if isinstance(a, int) and isinstance(b, int):
        return [(st, min(a, b) if t.callee.name == "min" else max(a, b))]
    d = I.decide_cmp(st, "Le", a, b)
    if d is not None:
        small, big = (a, b) if d else (b, a)
        return [(st, small if t.callee.name == "min" else big)]
    return [(st, (t.callee.name, tform(a), tform(b)))]


def m_fn_call(I, st, t, args, site, depth):
    """<F as FnOnce/FnMut/Fn>::call_* inside a generic body that was inlined: the callable is a value of the caller"""
    c = t.callee
    if c.resolved and c.resolved_local:
        return None  # statically resolved: the ordinary inlining path knows the body
    if len(args) < 2:
        return None
    fv = args[0]
    inner = I.read_addr(st, fv.root, fv.path) if isinstance(fv, Ref) else fv
    callable_ = isinstance(inner, ClosureV) or (isinstance(inner, tuple) and inner and inner[0] == "fn" and inner[1] in I.facts.bodies)
    if not callable_:
        return None
    a = args[1]
    a = I.read_addr(st, a.root, a.path) if isinstance(a, Ref) else a
    argvals = list(a.items) if isinstance(a, TupleV) else None
    if argvals is None:
        return None
    return I.invoke(st, fv if isinstance(inner, ClosureV) else inner, argvals, depth, site)


DEFAULT_MODELS = {
    "std::ops::FnOnce::call_once": m_fn_call,
    "std::ops::FnMut::call_mut": m_fn_call,
    "std::ops::Fn::call": m_fn_call,
    "std::ops::Deref::deref": m_deref,
    "std::ops::DerefMut::deref_mut": m_deref,
    "std::clone::Clone::clone": m_clone,
    "std::convert::Into::into": m_into,
    "std::result::Result::map": m_result_map,
    "std::result::Result::map_err": m_result_map_err,
    "std::result::Result::and_then": m_result_and_then,
    "std::option::Option::map": m_option_map,
    "std::option::Option::and_then": m_option_and_then,
    "std::option::Option::ok_or": m_ok_or,
    "std::option::Option::ok_or_else": m_ok_or,
    "std::result::Result::ok": m_result_ok,
    "std::option::Option::is_some": m_is_variant,
    "std::option::Option::is_none": m_is_variant,
    "std::result::Result::is_ok": m_is_variant,
    "std::result::Result::is_err": m_is_variant,
    "std::ops::Try::branch": m_try_branch,
    "std::ops::FromResidual::from_residual": m_from_residual,
    "std::future::IntoFuture::into_future": m_identity,
    "std::pin::Pin::new_unchecked": m_pin_new,
    "std::pin::Pin::new": m_pin_new,
    "std::future::Future::poll": m_poll,
    "std::mem::size_of": m_size_of,
    "core::mem::size_of": m_size_of,
    "std::cmp::PartialEq::eq": m_eq,
    "std::cmp::PartialEq::ne": m_eq,
    "std::intrinsics::discriminant_value": m_discriminant_value,
    "core::intrinsics::discriminant_value": m_discriminant_value,
    "num_traits::FromPrimitive::from_u8": m_from_u8,
    "num_traits::FromPrimitive::from_u16": m_from_u8,
    "num_traits::FromPrimitive::from_u32": m_from_u8,
    "std::default::Default::default": m_default,
    "core::str::len": m_str_len,
    "std::str::len": m_str_len,
    "std::cmp::min": m_min,
    "std::cmp::max": m_min,
    "std::cmp::Ord::min": m_min,
    "std::cmp::Ord::max": m_min,
    "std::result::Result::inspect": m_inspect,
    "std::result::Result::inspect_err": m_inspect,
    "std::option::Option::inspect": m_inspect,
    "std::result::Result::map_or": m_map_or,
    "std::result::Result::map_or_else": m_map_or,
    "std::option::Option::map_or": m_map_or,
    "std::option::Option::map_or_else": m_map_or,
    "std::result::Result::unwrap_or_else": m_unwrap_or_else,
    "std::option::Option::unwrap_or_else": m_unwrap_or_else,
    "std::option::Option::is_some_and": m_is_and,
    "std::option::Option::is_none_or": m_is_and,
    "std::result::Result::is_ok_and": m_is_and,
    "std::result::Result::is_err_and": m_is_and,
    "std::option::Option::or": m_or_else,
    "std::option::Option::or_else": m_or_else,
    "std::option::Option::and": m_or_else,
    "std::result::Result::or": m_or_else,
    "std::result::Result::or_else": m_or_else,
    "std::result::Result::and": m_or_else,
    "core::bool::then_some": m_then,
    "core::bool::then": m_then,
    "std::sync::atomic::Atomic::fetch_add": m_fetch_add,
    "std::sync::atomic::Atomic::fetch_update": m_fetch_update,
    "std::sync::atomic::AtomicU64::fetch_update": m_fetch_update,
    "std::convert::TryFrom::try_from": m_try_from_int,
    "std::convert::From::from": m_from_int,
    "std::option::Option::unwrap_or": m_unwrap_or,
    "std::result::Result::unwrap_or": m_unwrap_or,
    "std::option::Option::unwrap": m_unwrap,
    "std::option::Option::expect": m_unwrap,
    "std::result::Result::unwrap": m_unwrap,
    "std::result::Result::expect": m_unwrap,
    "rand::Rng::gen_range": m_gen_range,
    "core::panicking::panic": m_panic,
    "core::panicking::panic_fmt": m_panic,
    "std::rt::begin_panic": m_panic,
    "std::rt::panic_fmt": m_panic,
    "core::panicking::panic_explicit": m_panic,
}
DEFAULT_MODELS = {k: v for k, v in DEFAULT_MODELS.items() if v is not None}
SUFFIX_MODELS = [
    ("fmt::format", m_fmt_format),
    ("::to_be_bytes", m_to_be_bytes),
    ("::checked_sub", m_checked),
    ("::wrapping_add", m_wrapping),
    ("::wrapping_sub", m_wrapping),
    ("::wrapping_neg", m_wrapping),
    ("::from_be_bytes", m_from_be_bytes),
    ("::saturating_sub", m_saturating),
    ("::saturating_add", m_saturating),
    ("FromPrimitive::from_u8", m_from_u8),
    ("FromPrimitive::from_u16", m_from_u8),
    ("FromPrimitive::from_u32", m_from_u8),
]


# ---------------------------------------------------------------- term utilities


def atoms(v, acc=None, stop=None):
    """all leaf atoms / subterms of a value (for may-depend queries)"""
    if acc is None:
        acc = set()
    v = tform(v)

    def walk(x):
        if isinstance(x, tuple):
            if not x or x in acc:
                return
            acc.add(x)
            for y in x:
                walk(y)
        elif isinstance(x, (list,)):
            for y in x:
                walk(y)

    walk(v)
    return acc


def mentions(v, pred):
    for a in atoms(v):
        if pred(a):
            return True
    return False


def find_terms(v, pred):
    return [a for a in atoms(v) if pred(a)]


def is_call(term, name_suffix=None):
    return isinstance(term, tuple) and len(term) >= 4 and term[0] == "call" and (name_suffix is None or term[1].endswith(name_suffix))


def field_chain(term):
    """('field', ('field', base, 'a'), 'b') -> (base, ('a','b')) ; transparent through 'as'/'deref'"""
    names = []
    while isinstance(term, tuple) and term and term[0] in ("field", "as", "deref"):
        if term[0] == "field":
            names.append(term[2])
        term = term[1]
    return term, tuple(reversed(names))
