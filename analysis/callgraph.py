"""E1: whole-crate call graph over the fact base (dyn calls -> all in-crate impls,
closures -> edge from the creating body)."""
from collections import defaultdict

from absint import strip_generics, norm_impl_path


class CallGraph:
    def __init__(self, facts):
        self.facts = facts
        self.edges = defaultdict(set)  # body path -> set of local body paths
        self.static_edges = defaultdict(set)  # same, without dynamic-dispatch edges
        self.ext = defaultdict(set)  # body path -> set of external callee names (normalised)
        self.sites = defaultdict(list)  # body path -> [(bb, Term)]
        self.trait_impls = defaultdict(list)  # trait method path -> [impl method path]
        for i in facts.impls:
            for it in i["items"]:
                if it.get("trait_item"):
                    self.trait_impls[it["trait_item"]].append(it["path"])
        for b in facts.bodies.values():
            for bb, t in b.all_calls():
                self.sites[b.path].append((bb, t))
                for tgt in self.targets(t.callee):
                    if tgt in facts.bodies:
                        self.edges[b.path].add(tgt)
                        if t.callee.resolved and t.callee.ikind != "virtual":
                            self.static_edges[b.path].add(tgt)
                    else:
                        self.ext[b.path].add(tgt)
            # closures / coroutines created here
            for blk in b.blocks:
                for s in blk.stmts:
                    if s.k == "assign" and s.rv.k == "agg" and s.rv.j.get("ak") in ("closure", "coroutine", "coroutine_closure"):
                        d = s.rv.j["def"]
                        if d in facts.bodies:
                            self.edges[b.path].add(d)
                            self.static_edges[b.path].add(d)
            # fn items passed as values
            for blk in b.blocks:
                for s in blk.stmts:
                    if s.k == "assign":
                        for o in s.rv.ops:
                            if o.kind == "const" and "fn" in o.const and o.const["fn"] in facts.bodies:
                                self.edges[b.path].add(o.const["fn"])
                t = blk.term
                for o in t.args:
                    if o.kind == "const" and "fn" in o.const and o.const["fn"] in facts.bodies:
                        self.edges[b.path].add(o.const["fn"])

    def targets(self, c):
        """possible callees (def paths; external ones normalised) of a call"""
        out = []
        if c.path is None:
            return out
        if c.resolved and c.ikind not in ("virtual",):
            if c.resolved in self.facts.bodies:
                out.append(c.resolved)
            else:
                out.append(norm_impl_path(c.resolved))
                # external default method of a trait forwarding to in-crate impls is handled by models
            return out
        # dyn / unresolved: all in-crate impls of the trait method, plus the default body
        impls = self.trait_impls.get(c.path, [])
        out.extend(impls)
        if c.path in self.facts.bodies:
            out.append(c.path)
        if not out:
            out.append(strip_generics(c.path))
        return out

    def reachable(self, roots):
        seen = set()
        st = list(roots)
        while st:
            x = st.pop()
            if x in seen:
                continue
            seen.add(x)
            st.extend(self.edges.get(x, ()))
        return seen

    def callers_of(self, pred):
        """[(body path, bb, Term)] of calls whose callee satisfies pred(Callee)"""
        out = []
        for bp, sites in self.sites.items():
            for bb, t in sites:
                if pred(t.callee):
                    out.append((bp, bb, t))
        return out

    def may_reach_ext(self, root, pred, memo=None):
        """does anything reachable from root call an external callee with pred(name)?  returns witness path or None"""
        seen = set()
        st = [(root, (root,))]
        while st:
            x, path = st.pop()
            if x in seen:
                continue
            seen.add(x)
            for bb, t in self.sites.get(x, ()):
                for tgt in self.targets(t.callee):
                    if tgt not in self.facts.bodies and pred(tgt, t):
                        return path + (tgt,)
            for y in self.edges.get(x, ()):
                st.append((y, path + (y,)))
        return None


def get(ctx):
    if "callgraph" not in ctx._cache:
        ctx._cache["callgraph"] = CallGraph(ctx.facts)
    return ctx._cache["callgraph"]
