"""E3: guard liveness. For every local whose type contains a DashMap lock-carrying
type (the driver marks it), the program points where it may hold a shard lock:
forward may-analysis on built MIR (gen: initialisation; kill: move-out, Drop,
StorageDead, and the edges of a discriminant switch that select a variant
without a guard)."""


def lock_locals(body):
    return {i for i, l in enumerate(body.locals) if l.get("lock")}


def _moved_locals(ops, locks):
    out = set()
    for o in ops:
        if o.kind == "move" and o.place.local in locks:
            out.add(o.place.local)
    return out


def analyse(body):
    """returns dict with:
    calls: list of (bb, Term, held) — lock-typed locals that may hold a lock while the call runs
           (arguments moved into the call are not counted as held by the caller)
    yields: list of (bb, Term, held)
    locals: the lock-typed locals"""
    locks = lock_locals(body)
    res = {"calls": [], "yields": [], "locals": locks, "returns": []}
    if not locks:
        for bb, t in body.calls():
            res["calls"].append((bb, t, frozenset(), frozenset()))
        return res
    nb = len(body.blocks)
    IN = [None] * nb
    entry = frozenset(l for l in locks if 1 <= l <= body.arg_count)
    IN[0] = entry
    work = [0]
    reach = body.reachable()
    edge_kill = {}

    def discr_source(blk, op):
        """local whose discriminant the switch operand holds, if assigned in this block"""
        if op.place is None:
            return None
        tgt = op.place.local
        for s in reversed(blk.stmts):
            if s.k == "assign" and s.place.is_local() and s.place.local == tgt:
                if s.rv.k == "discr":
                    return s.rv.place
                return None
        return None

    def transfer(bb, live):
        live = set(live)
        blk = body.blocks[bb]
        for s in blk.stmts:
            if s.k == "assign":
                live -= _moved_locals(s.rv.ops, locks)
                if s.place.local in locks:
                    live.add(s.place.local)
            elif s.k == "dead":
                live.discard(s.local)
        return live

    out_calls = {}
    out_yields = {}
    while work:
        bb = work.pop()
        live = transfer(bb, IN[bb])
        blk = body.blocks[bb]
        t = blk.term
        succ_live = {}
        if t.k == "call":
            moved = _moved_locals(t.args, locks)
            held = frozenset(live - moved)
            prev = out_calls.get(bb)
            out_calls[bb] = (held | prev[0] if prev else held, frozenset(live) | (prev[1] if prev else frozenset()))
            after = set(live) - moved
            if t.dest is not None and t.dest.local in locks:
                after.add(t.dest.local)
            if t.t is not None:
                succ_live[t.t] = after
        elif t.k == "drop":
            after = set(live)
            if t.place.is_local():
                after.discard(t.place.local)
            succ_live[t.t] = after
        elif t.k == "yield":
            prev = out_yields.get(bb, frozenset())
            out_yields[bb] = prev | frozenset(live)
            succ_live[t.t] = set(live)
        elif t.k == "switch":
            src = discr_source(blk, t.discr)
            variants = None
            if src is not None and src.local in locks and src.is_local():
                variants = body.locals[src.local].get("lock_variants")
            for val, b2 in t.targets:
                after = set(live)
                if variants:
                    for v in variants:
                        if v["discr"] == val and not v["holds"]:
                            after.discard(src.local)
                cur = succ_live.get(b2)
                succ_live[b2] = after if cur is None else (cur | after)
            o = t.otherwise
            after = set(live)
            if variants:
                listed = {val for val, _ in t.targets}
                rest = [v for v in variants if v["discr"] not in listed]
                if rest and all(not v["holds"] for v in rest):
                    after.discard(src.local)
            cur = succ_live.get(o)
            succ_live[o] = after if cur is None else (cur | after)
        else:
            for s in t.succs():
                succ_live[s] = set(live)
            if t.k == "return":
                res["returns"].append((bb, frozenset(live)))
        for s, l in succ_live.items():
            if s not in reach:
                continue
            new = frozenset(l) if IN[s] is None else (IN[s] | frozenset(l))
            if new != IN[s]:
                IN[s] = new
                work.append(s)
    for bb, (held, before) in sorted(out_calls.items()):
        res["calls"].append((bb, body.blocks[bb].term, held, before))
    for bb, held in sorted(out_yields.items()):
        res["yields"].append((bb, body.blocks[bb].term, held))
    return res
