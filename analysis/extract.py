"""Runs the memc-facts driver over a source tree (content-addressed cache)."""
import fcntl
import hashlib
import os
import shutil
import subprocess
import sys
import time

HERE = os.path.dirname(os.path.abspath(__file__))
VERIF = os.path.dirname(HERE)
BUILD = os.path.join(VERIF, "build")
REPO = os.environ.get("MEMC_REPO", "/repo")

SLOTS = 6  # cargo target directories used side by side for scratch trees (~150 MB each, built on first use)

CONFIGS = {
    # name -> extra RUSTFLAGS
    "dev": "",
    "nochecks": "-C overflow-checks=off -C debug-assertions=off",
}


def tree_hash(repo):
    h = hashlib.sha256()
    files = []
    for root, dirs, fs in os.walk(repo):
        dirs[:] = sorted(d for d in dirs if d not in ("target", ".git", "fuzz"))
        for f in sorted(fs):
            if f.endswith(".rs") or f in ("Cargo.toml", "Cargo.lock", "rust-toolchain", "rust-toolchain.toml", "config.toml"):
                files.append(os.path.join(root, f))
    for p in files:
        h.update(os.path.relpath(p, repo).encode())
        h.update(b"\0")
        with open(p, "rb") as fh:
            h.update(fh.read())
        h.update(b"\0")
    drv = os.path.join(VERIF, "driver", "src", "main.rs")
    with open(drv, "rb") as fh:
        h.update(fh.read())
    return h.hexdigest()[:20]


def extract(repo=None, config="dev", quiet=True):
    """returns the directory holding the fact files for the current tree"""
    repo = repo or REPO
    th = tree_hash(repo)
    out = os.path.join(BUILD, "facts", "%s.%s" % (th, config))
    os.makedirs(os.path.join(BUILD, "facts"), exist_ok=True)
    lockp = os.path.join(BUILD, "extract.%s.lock" % config)
    if os.path.exists(os.path.join(out, "OK")):
        return out  # complete fact dirs are only ever renamed into place: no need to queue behind a running extraction
    # one extraction per tree at a time (hlock); extractions of different trees run side by side, each in one of a few
    # cargo target directories (a target directory serves one cargo at a time)
    os.makedirs(os.path.join(BUILD, "locks"), exist_ok=True)
    hlock = open(os.path.join(BUILD, "locks", "%s.%s.lock" % (th, config)), "w")
    fcntl.flock(hlock, fcntl.LOCK_EX)
    if os.path.exists(os.path.join(out, "OK")):
        hlock.close()
        return out
    slot, lf = None, None
    for i in range(SLOTS):
        cand = open(lockp if i == 0 else "%s.%d" % (lockp, i), "w")
        try:
            fcntl.flock(cand, fcntl.LOCK_EX | fcntl.LOCK_NB)
            slot, lf = i, cand
            break
        except OSError:
            cand.close()
    if lf is None:
        slot = os.getpid() % SLOTS
        lf = open(lockp if slot == 0 else "%s.%d" % (lockp, slot), "w")
        fcntl.flock(lf, fcntl.LOCK_EX)
    with lf, hlock:
        ok = os.path.join(out, "OK")
        if os.path.exists(ok):
            return out
        if os.path.exists(out):
            shutil.rmtree(out)
        tmp = out + ".tmp"
        if os.path.exists(tmp):
            shutil.rmtree(tmp)
        tgt = os.path.join(BUILD, "target-%s" % config if slot == 0 else "target-%s.%d" % (config, slot))
        t0 = time.time()
        r = subprocess.run(
            [os.path.join(VERIF, "extract.sh"), repo, tmp, tgt, CONFIGS[config]],
            stdout=subprocess.PIPE,
            stderr=subprocess.PIPE,
            text=True,
        )
        if r.returncode != 0:
            raise ExtractError("fact extraction failed (does /repo compile?):\n" + r.stderr[-3000:])
        # freshness: the fact files must carry the nonce of this very run
        nonce = open(os.path.join(tmp, "nonce")).read().strip()
        import json

        need = {"memcrs.lib.json", "memcrsd.bin.json"}
        have = {f for f in os.listdir(tmp) if f.endswith(".json")}
        if not need <= have:
            raise ExtractError("fact files missing after extraction: have %s (stale cargo cache?)" % sorted(have))
        for f in need:
            with open(os.path.join(tmp, f)) as fh:
                head = fh.read(400)
            if nonce not in head:
                raise ExtractError("stale fact file %s (nonce mismatch)" % f)
        with open(os.path.join(tmp, "OK"), "w") as fh:
            fh.write("%s %.1fs\n" % (th, time.time() - t0))
        os.rename(tmp, out)
        # keep the cache small: drop fact dirs beyond the 48 most recent once they are a few minutes old (parallel runs over scratch copies each need theirs to stay)
        fd = os.path.join(BUILD, "facts")
        try:
            ds = sorted((os.path.getmtime(os.path.join(fd, d)), d) for d in os.listdir(fd) if not d.endswith(".tmp"))
            for mt, d in ds[:-48]:
                if time.time() - mt > 240:  # never one that a check running side by side may be about to read
                    shutil.rmtree(os.path.join(fd, d), ignore_errors=True)
            ld = os.path.join(BUILD, "locks")
            for l in os.listdir(ld):
                lp = os.path.join(ld, l)
                if time.time() - os.path.getmtime(lp) > 7200:
                    os.unlink(lp)
        except OSError:
            pass  # another extraction is tidying up at the same moment
        return out


class ExtractError(Exception):
    pass


if __name__ == "__main__":
    print(extract(config=sys.argv[1] if len(sys.argv) > 1 else "dev"))


def extract_fixtures():
    """fact dir of /verif/fixtures (positive fixtures for the zero-count rules)"""
    fx = os.path.join(VERIF, "fixtures")
    h = hashlib.sha256()
    for p in (os.path.join(fx, "src", "lib.rs"), os.path.join(fx, "Cargo.toml"), os.path.join(VERIF, "driver", "src", "main.rs")):
        with open(p, "rb") as fh:
            h.update(fh.read())
    out = os.path.join(BUILD, "facts", "fixtures.%s" % h.hexdigest()[:16])
    lockp = os.path.join(BUILD, "extract.fixtures.lock")
    os.makedirs(os.path.join(BUILD, "facts"), exist_ok=True)
    with open(lockp, "w") as lf:
        fcntl.flock(lf, fcntl.LOCK_EX)
        if os.path.exists(os.path.join(out, "OK")):
            os.utime(out)
            return out
        tmp = out + ".tmp"
        shutil.rmtree(tmp, ignore_errors=True)
        shutil.rmtree(out, ignore_errors=True)
        tgt = os.path.join(BUILD, "target-fixtures")
        r = subprocess.run(
            [os.path.join(VERIF, "extract.sh"), fx, tmp, tgt, "", "memc-fixtures"],
            stdout=subprocess.PIPE,
            stderr=subprocess.PIPE,
            text=True,
        )
        if r.returncode != 0 or not os.path.exists(os.path.join(tmp, "memc_fixtures.lib.json")):
            raise ExtractError("fixture extraction failed:\n" + r.stderr[-3000:])
        with open(os.path.join(tmp, "OK"), "w") as fh:
            fh.write("ok\n")
        os.rename(tmp, out)
        return out
