"""E8: semantic table for bytes::{Buf, BufMut, BytesMut, Bytes} used by the
interpreter.  Per buffer (identified by its term) the state keeps
  consumed : affine expression — bytes removed from the front since the buffer was first seen
  len0     : affine expression — length when first seen plus everything appended since
so that `len()` = len0 - consumed, every read knows its wire offset, and the
bytes a function consumed are an affine expression that rules can compare."""
from absint import TOP, Event, Ref, Struct, TupleV, deref_arg, tform, lin_add, to_lin, from_lin, strip_generics

GET_WIDTH = {
    "get_u8": 1,
    "get_i8": 1,
    "get_u16": 2,
    "get_i16": 2,
    "get_u16_le": 2,
    "get_u32": 4,
    "get_i32": 4,
    "get_u32_le": 4,
    "get_u64": 8,
    "get_i64": 8,
    "get_u64_le": 8,
    "get_u128": 16,
}
PUT_WIDTH = {
    "put_u8": 1,
    "put_i8": 1,
    "put_u16": 2,
    "put_u16_le": 2,
    "put_u32": 4,
    "put_u32_le": 4,
    "put_u64": 8,
    "put_u64_le": 8,
}


def buf_key(I, st, v):
    v = deref_arg(I, st, v)
    v = deref_arg(I, st, v)
    return tform(v)


def buf_state(st, key):
    b = st.bufs.get(key)
    if b is None:
        if isinstance(key, tuple) and key and key[0] == "bufslice":
            b = (0, key[3])
        elif isinstance(key, tuple) and key and key[0] == "newbuf":
            b = (0, 0)
        else:
            b = (0, ("len0", key))
        st.bufs[key] = b
    return b


def buf_len(st, key):
    c, l0 = buf_state(st, key)
    r = lin_add(l0, c, -1)
    return r if r is not None else TOP


def _consume(st, key, n):
    c, l0 = buf_state(st, key)
    nc = lin_add(c, n, 1)
    st.bufs[key] = (nc if nc is not None else TOP, l0)
    return c


def _append(st, key, n):
    c, l0 = buf_state(st, key)
    nl = lin_add(l0, n, 1)
    st.bufs[key] = (c, nl if nl is not None else TOP)


def _oblige(I, st, t, site, what, need, have, body=None):
    """record a precondition `have >= need` of a bytes call (it panics otherwise)"""
    d = I.decide_cmp(st, "Ge", have, need, "usize")
    status = "safe" if d is True else ("panics" if d is False else "unknown")
    st.events.append(Event("obligation", "precondition:" + what, [what, None, have, need, "usize"], site, t.span, tuple(I.ctx), extra={"status": status, "body": site[0]}))
    return status


def m_get(I, st, t, args, site, depth):
    w = GET_WIDTH[t.callee.name]
    key = buf_key(I, st, args[0])
    _oblige(I, st, t, site, t.callee.name, w, buf_len(st, key))
    off = _consume(st, key, w)
    res = ("bufread", key, tform(off), w)
    st.events.append(Event("buf", t.callee.name, [key, off, w], site, t.span, tuple(I.ctx), res, extra={"op": "read", "buf": key, "offset": off, "width": w, "remaining_before": lin_add(buf_state(st, key)[1], off, -1)}))
    return [(st, res)]


def m_split_to(I, st, t, args, site, depth):
    key = buf_key(I, st, args[0])
    n = args[1]
    _oblige(I, st, t, site, "split_to", n, buf_len(st, key))
    off = _consume(st, key, n)
    res = ("bufslice", key, tform(off), tform(n))
    st.events.append(Event("buf", "split_to", [key, off, n], site, t.span, tuple(I.ctx), res, extra={"op": "read", "buf": key, "offset": off, "width": n, "remaining_before": lin_add(buf_state(st, key)[1], off, -1)}))
    return [(st, res)]


def m_index_range(I, st, t, args, site, depth):
    """&buf[a..b] / &buf[..b] / &buf[a..] / &buf[..] on a byte buffer: a view (nothing is consumed)"""
    key = buf_key(I, st, args[0])
    base = key
    while isinstance(base, tuple) and base and base[0] in ("deref", "ref"):
        base = base[1]
    rng = args[1] if len(args) > 1 else None
    if isinstance(rng, Ref):
        rng = I.read_addr(st, rng.root, rng.path)
    known = base == ("param", "src") or base in st.bufs or (isinstance(base, tuple) and base and base[0] in ("bufslice", "newbuf", "buftail"))
    if not known or not isinstance(rng, Struct) or not (rng.adt or "").startswith("std::ops::Range"):
        return None
    c, _l0 = buf_state(st, base)
    ln = buf_len(st, base)
    nm = (rng.adt or "").split("::")[-1]
    start = rng.get("start") if nm in ("Range", "RangeFrom") else 0
    end = rng.get("end") if nm in ("Range", "RangeTo") else ln
    if nm == "RangeFull":
        start, end = 0, ln
    if nm not in ("Range", "RangeTo", "RangeFrom", "RangeFull"):
        return None
    _oblige(I, st, t, site, "index", end, ln)
    if nm in ("Range",):
        _oblige(I, st, t, site, "index", start, end)
    off = lin_add(c, start, 1)
    n = lin_add(end, start, -1)
    if off is None or n is None:
        return None
    return [(st, ("bufslice", base, tform(off), tform(n)))]


def m_get_uint(I, st, t, args, site, depth):
    """Buf::get_uint(n) / get_int(n): an n-byte big-endian read (n must be a known constant)"""
    w = args[1] if len(args) > 1 else None
    if not isinstance(w, int):
        return None
    key = buf_key(I, st, args[0])
    _oblige(I, st, t, site, t.callee.name, w, buf_len(st, key))
    off = _consume(st, key, w)
    res = ("bufread", key, tform(off), w)
    st.events.append(Event("buf", t.callee.name, [key, off, w], site, t.span, tuple(I.ctx), res, extra={"op": "read", "buf": key, "offset": off, "width": w, "remaining_before": lin_add(buf_state(st, key)[1], off, -1)}))
    return [(st, res)]


def m_has_remaining(I, st, t, args, site, depth):
    key = buf_key(I, st, args[0])
    l = buf_len(st, key)
    d = I.decide_cmp(st, "Ne", l, 0, "usize")
    if d is not None:
        return [(st, 1 if d else 0)]
    return [(st, ("cmp", "Ne", tform(l), 0, "usize"))]


def m_advance(I, st, t, args, site, depth):
    key = buf_key(I, st, args[0])
    n = args[1]
    _oblige(I, st, t, site, "advance", n, buf_len(st, key))
    off = _consume(st, key, n)
    st.events.append(Event("buf", "advance", [key, off, n], site, t.span, tuple(I.ctx), None, extra={"op": "skip", "buf": key, "offset": off, "width": n, "remaining_before": lin_add(buf_state(st, key)[1], off, -1)}))
    return [(st, TupleV([]))]


def m_len(I, st, t, args, site, depth):
    key = buf_key(I, st, args[0])
    return [(st, buf_len(st, key))]


def m_is_empty(I, st, t, args, site, depth):
    key = buf_key(I, st, args[0])
    l = buf_len(st, key)
    d = I.decide_cmp(st, "Eq", l, 0, "usize")
    if d is not None:
        return [(st, 1 if d else 0)]
    return [(st, ("cmp", "Eq", tform(l), 0, "usize"))]


def m_clear(I, st, t, args, site, depth):
    key = buf_key(I, st, args[0])
    c, l0 = buf_state(st, key)
    st.events.append(Event("buf", "clear", [key], site, t.span, tuple(I.ctx), None, extra={"op": "clear", "buf": key, "dropped": buf_len(st, key)}))
    st.bufs[key] = (l0, l0)
    return [(st, TupleV([]))]


def m_split_off(I, st, t, args, site, depth):
    key = buf_key(I, st, args[0])
    at = args[1]
    _oblige(I, st, t, site, "split_off", at, buf_len(st, key))
    c, l0 = buf_state(st, key)
    tail_len = lin_add(buf_len(st, key), at, -1)
    res = ("buftail", key, tform(c), tform(at))
    st.events.append(Event("buf", "split_off", [key, at], site, t.span, tuple(I.ctx), res, extra={"op": "split_off", "buf": key, "at": at, "len_before": buf_len(st, key)}))
    # self keeps [0, at)
    nl0 = lin_add(c, at, 1)
    st.bufs[key] = (c, nl0 if nl0 is not None else TOP)
    # the returned tail is a buffer of its own
    st.bufs[res] = (0, tail_len if tail_len is not None else TOP)
    return [(st, res)]


def m_freeze(I, st, t, args, site, depth):
    return [(st, args[0])]


def capacity_of(st, key):
    return st.bufs.get(("cap", key))


def m_new(I, st, t, args, site, depth):
    n = sum(1 for e in st.events if e.kind == "buf" and e.name == "new")
    res = ("newbuf", site[0].split("::")[-1], n)
    st.events.append(Event("buf", "new", list(args), site, t.span, tuple(I.ctx), res, extra={"op": "new", "capacity": args[0] if args else 0}))
    st.bufs[res] = (0, 0)
    st.bufs[("cap", res)] = args[0] if args else 0
    return [(st, res)]


def m_read_buf(I, st, t, args, site, depth):
    """tokio read_buf(stream, buf): appends at most capacity - len bytes (BytesMut grows by 64 when full: noted)"""
    key = buf_key(I, st, args[1])
    cap = capacity_of(st, key)
    ln = buf_len(st, key)
    free = lin_add(cap, ln, -1) if cap is not None else None
    nth = sum(1 for e in st.events if e.kind == "buf" and e.name == "read_buf")
    res = ("call", "tokio::io::AsyncReadExt::read_buf", (site[0], site[1], nth), (tform(I.snapshot(st, args[0])), key))
    st.events.append(Event("buf", "read_buf", [key], site, t.span, tuple(I.ctx), res, extra={"op": "read_buf", "buf": key, "capacity": cap, "len": ln, "free": free}))
    st.events.append(Event("call", "tokio::io::AsyncReadExt::read_buf", [I.snapshot(st, args[0]), key], site, t.span, tuple(I.ctx), res, t.callee))
    return [(st, res)]


def m_reserve(I, st, t, args, site, depth):
    key = buf_key(I, st, args[0])
    cap = capacity_of(st, key)
    if cap is not None:
        need = lin_add(buf_len(st, key), args[1], 1)
        # reserve never shrinks: capacity' = max(capacity, len + additional)
        st.bufs[("cap", key)] = ("max", tform(cap), tform(need)) if need is not None else None
    st.events.append(Event("buf", "reserve", [key, args[1]], site, t.span, tuple(I.ctx), None, extra={"op": "reserve", "buf": key, "size": args[1]}))
    return [(st, TupleV([]))]


def m_put(I, st, t, args, site, depth):
    key = buf_key(I, st, args[0])
    w = PUT_WIDTH[t.callee.name]
    c, l0 = buf_state(st, key)
    st.events.append(Event("buf", t.callee.name, [key, args[1]], site, t.span, tuple(I.ctx), None, extra={"op": "put", "buf": key, "width": w, "value": args[1], "at": l0}))
    _append(st, key, w)
    return [(st, TupleV([]))]


def m_put_slice(I, st, t, args, site, depth):
    key = buf_key(I, st, args[0])
    v = deref_arg(I, st, args[1])
    n = ("len", tform(v))
    tv = tform(v)
    while isinstance(tv, tuple) and tv and tv[0] in ("deref", "ref"):
        tv = tv[1]
    if isinstance(tv, tuple) and tv and tv[0] == "be_bytes":
        # &x.to_be_bytes(): the big-endian image of x, as wide as its type = put_uN(x)
        n, v = tv[2], tv[1]
    elif isinstance(tv, tuple) and tv[:2] == ("agg", "array"):
        # &[b0, b1, ..]: one byte each
        n = len(tv) - 2
        if n == 1:
            v = tv[2]
    c, l0 = buf_state(st, key)
    st.events.append(Event("buf", t.callee.name, [key, v], site, t.span, tuple(I.ctx), None, extra={"op": "put", "buf": key, "width": n, "value": v, "at": l0}))
    _append(st, key, n)
    return [(st, TupleV([]))]


def m_bytes_new(I, st, t, args, site, depth):
    return [(st, ("emptybytes",))]


def m_bytes_len(I, st, t, args, site, depth):
    v = deref_arg(I, st, args[0])
    v = tform(v)
    if v == ("emptybytes",):
        return [(st, 0)]
    if isinstance(v, tuple) and v and v[0] == "bufslice":
        return [(st, v[3])]
    return [(st, ("len", v))]


BUF_MODELS = {}
for _n in GET_WIDTH:
    BUF_MODELS["bytes::Buf::" + _n] = m_get
    BUF_MODELS["bytes::buf::Buf::" + _n] = m_get
for _n in PUT_WIDTH:
    BUF_MODELS["bytes::BufMut::" + _n] = m_put
    BUF_MODELS["bytes::buf::BufMut::" + _n] = m_put
def _strip_ref(v):
    while isinstance(v, tuple) and v and v[0] in ("deref", "ref"):
        v = v[1]
    return v


def _new_filled(I, st, t, site, parts, what):
    """a fresh buffer holding the given byte sequences one after the other (put events in that order)"""
    n = sum(1 for e in st.events if e.kind == "buf" and e.name == "new")
    res = ("newbuf", site[0].split("::")[-1], n)
    st.events.append(Event("buf", "new", [], site, t.span, tuple(I.ctx), res, extra={"op": "new", "capacity": 0}))
    st.bufs[res] = (0, 0)
    for v in parts:
        c, l0 = buf_state(st, res)
        w = ("len", tform(v))
        st.events.append(Event("buf", what, [res, v], site, t.span, tuple(I.ctx), None, extra={"op": "put", "buf": res, "width": w, "value": v, "at": l0}))
        _append(st, res, w)
    return res


def m_concat(I, st, t, args, site, depth):
    """[a, b, ..].concat(): the byte sequences one after the other"""
    v = _strip_ref(tform(deref_arg(I, st, args[0]))) if args else None
    if not (isinstance(v, tuple) and v[:2] == ("agg", "array") and len(v) > 2):
        return None
    parts = [_strip_ref(x) for x in v[2:]]
    return [(st, _new_filled(I, st, t, site, parts, "concat"))]


def _iter_parts(term):
    """byte sequences of a.iter().chain(b.iter()).copied() style iterator terms, in order; None when not of that shape"""
    term = _strip_ref(term)
    if not (isinstance(term, tuple) and term and term[0] == "call"):
        return None
    nm = term[1].split("::")[-1]
    if nm in ("copied", "cloned", "into_iter") and len(term[3]) == 1:
        return _iter_parts(term[3][0])
    if nm == "chain" and len(term[3]) == 2:
        a, b = _iter_parts(term[3][0]), _iter_parts(term[3][1])
        return a + b if a is not None and b is not None else None
    if nm == "iter" and len(term[3]) == 1:
        return [_strip_ref(term[3][0])]
    return None


def m_from_iter(I, st, t, args, site, depth):
    parts = _iter_parts(tform(args[0])) if args else None
    if not parts:
        return None
    return [(st, _new_filled(I, st, t, site, parts, "from_iter"))]


def m_bytes_from(I, st, t, args, site, depth):
    v = tform(deref_arg(I, st, args[0]))
    if isinstance(v, tuple) and v and v[0] in ("newbuf", "bufslice", "buftail"):
        return [(st, args[0])]
    return None


BUF_MODELS.update(
    {
        "std::vec::Vec::with_capacity": m_new,
        "alloc::vec::Vec::with_capacity": m_new,
        "std::vec::Vec::new": m_new,
        "alloc::vec::Vec::new": m_new,
        "std::vec::Vec::extend_from_slice": m_put_slice,
        "alloc::vec::Vec::extend_from_slice": m_put_slice,
        "<bytes::Bytes as std::convert::From>::from": m_bytes_from,
        "<bytes::Bytes as std::convert::From<std::vec::Vec<u8>>>::from": m_bytes_from,
        "<bytes::Bytes as std::convert::From<bytes::BytesMut>>::from": m_bytes_from,
        "std::ops::Index::index": m_index_range,
        "std::ops::IndexMut::index_mut": m_index_range,
        "std::slice::Concat::concat": m_concat,
        "alloc::slice::Concat::concat": m_concat,
        "std::slice::concat": m_concat,
        "alloc::slice::concat": m_concat,
        "std::iter::FromIterator::from_iter": m_from_iter,
        "bytes::BytesMut::split_to": m_split_to,
        "bytes::Buf::copy_to_bytes": m_split_to,
        "bytes::buf::Buf::copy_to_bytes": m_split_to,
        "bytes::BytesMut::copy_to_bytes": m_split_to,
        "bytes::Buf::get_uint": m_get_uint,
        "bytes::buf::Buf::get_uint": m_get_uint,
        "bytes::Buf::has_remaining": m_has_remaining,
        "bytes::buf::Buf::has_remaining": m_has_remaining,
        "bytes::Buf::advance": m_advance,
        "bytes::buf::Buf::advance": m_advance,
        "bytes::BytesMut::len": m_len,
        "bytes::Buf::remaining": m_len,
        "bytes::BytesMut::is_empty": m_is_empty,
        "bytes::BytesMut::clear": m_clear,
        "bytes::BytesMut::split_off": m_split_off,
        "bytes::BytesMut::freeze": m_freeze,
        "bytes::BytesMut::new": m_new,
        "bytes::BytesMut::with_capacity": m_new,
        "bytes::BytesMut::reserve": m_reserve,
        "bytes::BufMut::put_slice": m_put_slice,
        "bytes::BufMut::put": m_put_slice,
        "bytes::BytesMut::extend_from_slice": m_put_slice,
        "bytes::Bytes::len": m_bytes_len,
        "bytes::Bytes::new": m_bytes_new,
        "tokio::io::AsyncReadExt::read_buf": m_read_buf,
    }
)
