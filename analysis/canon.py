"""Canonical names for *private* items.

The rules name a handful of private fields and private functions of memc-rs (the vocabulary is simply the names they
have in the pinned tree).  A maintainer may rename or move private items at will without changing behaviour, so before
any rule runs the fact base is put into that vocabulary: every such item is *identified structurally* in the tree under
analysis — a field by its type inside its (public) owner, a function by what it does (which public API it calls, what
it constructs, what it returns) — and renamed in the facts.  An item that cannot be identified uniquely is left alone;
the rules that need it then fail closed as before.  Public API names are never touched.

The pass works on the raw JSON of the driver (all crates of one extraction) and returns a log of what it renamed."""
import json
import re

MS = "memcrs::memory_store::store::MemoryStore"
RP = "memcrs::memcache::random_policy::RandomPolicy"
CACHE = "memcrs::cache::cache::Cache"
MEMC = "memcrs::memcache::store::MemcStore"
HANDLER = "memcrs::memcache_server::handler::BinaryHandler"
CODEC = "memcrs::protocol::binary_codec::MemcacheBinaryCodec"
CONN = "memcrs::protocol::binary_connection::MemcacheBinaryConnection"
CLIENT = "memcrs::memcache_server::client_handler::Client"
SERVER = "memcrs::memcache_server::memc_tcp::MemcacheTcpServer"
BREQ = "memcrs::protocol::binary_codec::BinaryRequest"
TIMER = "memcrs::server::timer::SystemTimer"
STATE_ENUM = "memcrs::protocol::binary_codec::RequestParserState"
SRVCFG = "memcrs::memcache_server::memc_tcp::MemcacheServerConfig"
ATOMIC_U64 = ("std::sync::atomic::Atomic<u64>", "std::sync::atomic::AtomicU64", "core::sync::atomic::AtomicU64")

# (owner, predicate on the field's type, canonical name)
FIELD_ROLES = [
    (SERVER, lambda t: "tokio::sync::Semaphore" in t, "limit_connections"),
    (SERVER, lambda t: t == "std::sync::Arc<%s>" % MEMC, "storage"),
    (SERVER, lambda t: t == SRVCFG, "config"),
    (CLIENT, lambda t: t == CONN, "stream"),
    (CLIENT, lambda t: t.endswith("::ClientConfig"), "config"),
    (CLIENT, lambda t: t == HANDLER, "handler"),
    (CLIENT, lambda t: "tokio::sync::Semaphore" in t, "limit_connections"),
    (CLIENT, lambda t: t == "std::net::SocketAddr", "addr"),
    (RP, lambda t: "dyn " + CACHE in t, "store"),
    (RP, lambda t: t == "u64", "memory_limit"),
    (RP, lambda t: t in ATOMIC_U64, "memory_usage"),
    (MS, lambda t: t.startswith("dashmap::DashMap<"), "memory"),
    (MS, lambda t: "dyn memcrs::server::timer::Timer" in t, "timer"),
    (MS, lambda t: t in ATOMIC_U64, "cas_id"),
    (CONN, lambda t: t == "tokio::net::TcpStream", "stream"),
    (CONN, lambda t: t == CODEC, "codec"),
    (CONN, lambda t: t == "bytes::BytesMut", "buffer"),
    (CODEC, lambda t: t.endswith("::RequestHeader"), "header"),
    (CODEC, lambda t: t == "u32", "item_size_limit"),
    (MEMC, lambda t: "dyn " + CACHE in t, "store"),
    (HANDLER, lambda t: t == "std::sync::Arc<%s>" % MEMC, "storage"),
    (TIMER, lambda t: t in ATOMIC_U64, "seconds"),
]


def strip_generics(p):
    out = []
    depth = 0
    i = 0
    # drop ::<...> turbofish segments only (impl paths "<T as Tr>::m" keep their leading bracket)
    while i < len(p):
        if p.startswith("::<", i):
            depth = 1
            i += 3
            while i < len(p) and depth:
                if p[i] == "<":
                    depth += 1
                elif p[i] == ">":
                    depth -= 1
                i += 1
            continue
        out.append(p[i])
        i += 1
    return "".join(out)


def walk(x, fn):
    if isinstance(x, dict):
        fn(x)
        for v in x.values():
            walk(v, fn)
    elif isinstance(x, list):
        for v in x:
            walk(v, fn)


def calls_of(b):
    out = []
    for blk in b["blocks"]:
        t = blk["term"]
        if t.get("k") == "call" and "callee" in t:
            c = t["callee"]
            out.append((strip_generics(c.get("path") or ""), c, t))
    return out


def aggs_of(b):
    out = []
    for blk in b["blocks"]:
        for s in blk["stmts"]:
            if s.get("k") == "assign" and s["rv"].get("k") == "agg":
                out.append(s["rv"])
    return out


def ret_ty(b):
    return b["locals"][0]["ty"]


class Canon:
    def __init__(self, crates):
        self.crates = crates
        self.log = []
        self.bodies = {}
        self.adts = {}
        for c in crates:
            for b in c["bodies"]:
                self.bodies[b["path"]] = b
            for a in c["adts"]:
                self.adts[a["path"]] = a

    # ------------------------------------------------------------------ helpers
    def inherent(self, adt):
        return [b for b in self.bodies.values() if b.get("impl_self") == adt and b["kind"] == "assoc_fn" and not b.get("impl_trait")]

    def with_closures(self, b):
        """the body and the closures / coroutine bodies defined inside it"""
        return [x for x in self.bodies.values() if x.get("root") == b["path"] or x["path"] == b["path"]]

    def callee_names(self, b):
        out = []
        for x in self.with_closures(b):
            for n, c, _t in calls_of(x):
                out.append(n)
                if c.get("resolved"):
                    out.append(strip_generics(c["resolved"]))
        return out

    def is_pub(self, b):
        return (b.get("vis") or "") == "Public"

    # ------------------------------------------------------------------ fields
    def field_map(self):
        m = {}
        for adt, pred, canonical in FIELD_ROLES:
            a = self.adts.get(adt)
            if a is None:
                continue
            fl = [f for v in a["variants"] for f in v["fields"]]
            hits = [f["name"] for f in fl if pred(f["ty"])]
            if len(hits) != 1 or hits[0] == canonical:
                continue
            if any(f["name"] == canonical for f in fl):
                continue  # the canonical name is taken by another field: leave everything as it is
            m[(adt, hits[0])] = canonical
        # the parser state of the codec: its only field whose type is an enum of the crate
        a = self.adts.get(CODEC)
        if a is not None:
            fl = [f for v in a["variants"] for f in v["fields"]]
            hits = [f for f in fl if f["ty"] in self.adts and self.adts[f["ty"]].get("kind") == "Enum" and f["ty"].startswith("memcrs::")]
            if len(hits) == 1 and hits[0]["name"] != "state" and not any(f["name"] == "state" for f in fl):
                m[(CODEC, hits[0]["name"])] = "state"
        # MemcacheServerConfig: four u32 — identified by the position of the public constructor's parameter they store
        nb = self.bodies.get(SRVCFG + "::new")
        if nb is not None and nb["arg_count"] == 4:
            want = ["timeout_secs", "connection_limit", "item_memory_limit", "listen_backlog"]
            got = {}
            for ag in aggs_of(nb):
                if ag.get("adt") == SRVCFG:
                    for fname, op in zip(ag.get("fields", []), ag.get("ops", [])):
                        src = op.get("copy") or op.get("move")
                        if src and not src.get("p") and 1 <= src["l"] <= 4:
                            got[fname] = want[src["l"] - 1]
            if len(got) == 4 and len(set(got.values())) == 4:
                for old, new in got.items():
                    if old != new:
                        m[(SRVCFG, old)] = new
        return m

    def apply_fields(self, m):
        if not m:
            return

        def fix(d):
            if "f" in d and "n" in d and "a" in d and (d["a"], d["n"]) in m:
                d["n"] = m[(d["a"], d["n"])]
            if d.get("k") == "agg" and d.get("adt") and isinstance(d.get("fields"), list):
                d["fields"] = [m.get((d["adt"], n), n) for n in d["fields"]]

        for c in self.crates:
            walk(c["bodies"], fix)
            for a in c["adts"]:
                for v in a["variants"]:
                    for f in v["fields"]:
                        if (a["path"], f["name"]) in m:
                            f["name"] = m[(a["path"], f["name"])]
        for (adt, old), new in sorted(m.items()):
            self.log.append("field %s.%s -> %s" % (adt.split("::")[-1], old, new))

    # ------------------------------------------------------------------ functions
    def path_map(self):
        pm = {}

        def want(b, canonical_path):
            if b is None or b["path"] == canonical_path:
                return
            if canonical_path in self.bodies or canonical_path in pm.values():
                return  # taken
            pm[b["path"]] = canonical_path

        # the parser-state enum and its two states
        a = self.adts.get(CODEC)
        state_ty = None
        if a is not None:
            for f in (f for v in a["variants"] for f in v["fields"]):
                if f["ty"] in self.adts and self.adts[f["ty"]].get("kind") == "Enum" and f["ty"].startswith("memcrs::"):
                    state_ty = f["ty"] if state_ty is None else False
        fresh = other = None
        if state_ty:
            nb = self.bodies.get(CODEC + "::new")
            variants = [v["name"] for v in self.adts[state_ty]["variants"]]
            if nb is not None and len(variants) == 2:
                fr = [ag["variant"] for ag in aggs_of(nb) if ag.get("adt") == state_ty]
                if len(set(fr)) == 1:
                    fresh = fr[0]
                    other = [v for v in variants if v != fresh][0]
        self.state_ty, self.fresh, self.other = state_ty, fresh, other

        # BinaryHandler: the methods that execute one command, by the MemcStore methods they call
        by_callees = {}
        for b in self.inherent(HANDLER):
            if self.is_pub(b):
                continue
            s = frozenset(n.split("::")[-1] for n in self.callee_names(b) if n.startswith(MEMC + "::"))
            if s:
                by_callees.setdefault(s, []).append(b)
        for s, name in (
            (frozenset(["set"]), "set"),
            (frozenset(["get"]), "get"),
            (frozenset(["add", "replace"]), "add_replace"),
            (frozenset(["append", "prepend"]), "append_prepend"),
            (frozenset(["delete"]), "delete"),
            (frozenset(["flush"]), "flush"),
            (frozenset(["increment"]), "increment"),
            (frozenset(["decrement"]), "decrement"),
        ):
            bs = by_callees.get(s, [])
            if len(bs) == 1 and bs[0]["arg_count"] == 3:
                want(bs[0], HANDLER + "::" + name)

        # Client: the async steps between `handle` (public) and BinaryHandler::handle_request
        asyncs = [b for b in self.inherent(CLIENT) if b.get("is_async") and not self.is_pub(b)]
        hr = [b for b in asyncs if any(n == HANDLER + "::handle_request" for n in self.callee_names(b))]
        if len(hr) == 1:
            want(hr[0], CLIENT + "::handle_request")
            hf = [b for b in asyncs if b is not hr[0] and any(n == hr[0]["path"] for n in self.callee_names(b))]
            if len(hf) == 1:
                want(hf[0], CLIENT + "::handle_frame")

        # connection: the private async helpers
        casyncs = [b for b in self.inherent(CONN) if b.get("is_async") and not self.is_pub(b)]
        sk = [b for b in casyncs if any(n.endswith("AsyncReadExt::read_buf") or n.endswith("AsyncReadExt::read") for n in self.callee_names(b))]
        if len(sk) == 1 and sk[0]["arg_count"] == 2:
            want(sk[0], CONN + "::skip_bytes")
        wr = [b for b in casyncs if any(n.endswith("AsyncWriteExt::write_all") for n in self.callee_names(b))]
        if len(wr) == 1 and wr[0]["arg_count"] == 2:
            want(wr[0], CONN + "::write_data_to_stream")

        # codec
        priv = [b for b in self.inherent(CODEC) if not self.is_pub(b)]
        if state_ty and fresh:
            def assigns(b, variant):
                return any(ag.get("adt") == state_ty and ag.get("variant") == variant for ag in aggs_of(b))

            ip = [b for b in priv if assigns(b, fresh) and b["arg_count"] == 1 and ret_ty(b) == "()"]
            if len(ip) == 1:
                want(ip[0], CODEC + "::init_parser")
            ph = [b for b in priv if assigns(b, other) and b["arg_count"] == 2]
            if len(ph) == 1:
                want(ph[0], CODEC + "::parse_header")
        hv = [b for b in priv if b["arg_count"] == 1 and ret_ty(b) == "bool"]
        if len(hv) == 1:
            want(hv[0], CODEC + "::header_valid")
        rv = [b for b in priv if b["arg_count"] == 3 and ret_ty(b) == "bool"]
        if len(rv) == 1:
            want(rv[0], CODEC + "::request_valid")
        # per-opcode parsers by the request variants they build
        built = {}
        for b in priv:
            vs = frozenset(ag["variant"] for x in self.with_closures(b) for ag in aggs_of(x) if ag.get("adt") == BREQ)
            if vs and b["arg_count"] == 2:
                built.setdefault(vs, []).append(b)
        for vs, name in (
            (frozenset(["Get", "GetQuietly", "GetKey", "GetKeyQuietly"]), "parse_get_request"),
            (frozenset(["Delete", "DeleteQuiet"]), "parse_delete_request"),
            (frozenset(["Set", "Add", "Replace", "SetQuietly", "AddQuietly", "ReplaceQuietly"]), "parse_set_request"),
            (frozenset(["Append", "Prepend", "AppendQuietly", "PrependQuietly"]), "parse_append_prepend_request"),
            (frozenset(["Increment", "Decrement", "IncrementQuiet", "DecrementQuiet"]), "parse_inc_dec_request"),
            (frozenset(["Flush", "FlushQuietly"]), "parse_flush_request"),
            (frozenset(["ItemTooLarge"]), "parse_item_too_large"),
        ):
            bs = built.get(vs, [])
            if len(bs) == 1:
                want(bs[0], CODEC + "::" + name)
        # the dispatcher: the private method through which decode reaches the per-opcode parsers
        parsers = set(b["path"] for bs in built.values() for b in bs)
        disp = [b for b in priv if b["arg_count"] == 2 and b["path"] not in parsers and len(parsers & set(self.callee_names(b))) >= 3]
        if len(disp) == 1:
            want(disp[0], CODEC + "::parse_request")

        # server helpers by what they return
        spriv = [b for b in self.inherent(SERVER) if not self.is_pub(b)]
        cc = [b for b in spriv if ret_ty(b).endswith("::ClientConfig") and b["arg_count"] == 1]
        if len(cc) == 1:
            want(cc[0], SERVER + "::get_client_config")
        tl = [b for b in spriv if "tokio::net::TcpListener" in ret_ty(b)]
        if len(tl) == 1:
            want(tl[0], SERVER + "::get_tcp_listener")

        # eviction policy: the function with the sweep loop, and the decrement helper
        rpriv = [b for b in self.inherent(RP) if not self.is_pub(b)]
        sw = [b for b in rpriv if any(n == CACHE + "::remove_if" for n in self.callee_names(b)) and any(n.endswith("::fetch_add") for n in self.callee_names(b))]
        if len(sw) == 1:
            want(sw[0], RP + "::incr_mem_usage")
        de = [b for b in rpriv if any(n.endswith("::fetch_sub") for n in self.callee_names(b)) and not any(n == CACHE + "::remove_if" for n in self.callee_names(b)) and b["arg_count"] == 2]
        if len(de) == 1:
            want(de[0], RP + "::decr_mem_usage")
        return pm

    def apply_paths(self, pm):
        extra = {}
        if self.state_ty and self.state_ty != STATE_ENUM and STATE_ENUM not in self.adts:
            extra[self.state_ty] = STATE_ENUM
        subs = dict(pm)
        subs.update(extra)
        # variant names of the state enum (also inside constant renderings "<path>::<Variant>")
        vmap = {}
        if self.state_ty and self.fresh and (self.fresh, self.other) != ("None", "HeaderParsed"):
            vmap = {self.fresh: "None", self.other: "HeaderParsed"}
        if not subs and not vmap:
            return
        if vmap:
            def fixv(d):
                if d.get("k") == "agg" and d.get("adt") == self.state_ty and d.get("variant") in vmap:
                    d["variant"] = vmap[d["variant"]]
                if d.get("path") == self.state_ty and "variants" in d:
                    for v in d["variants"]:
                        v["name"] = vmap.get(v["name"], v["name"])

            for c in self.crates:
                walk(c, fixv)
            for old, new in vmap.items():
                subs[self.state_ty + "::" + old] = "\0STATE\0::" + new  # two-step so that swapped names do not collide
                self.log.append("parser state %s -> %s" % (old, new))
        keys = sorted(subs, key=len, reverse=True)
        for ci, c in enumerate(self.crates):
            s = json.dumps(c)
            for old in keys:
                enc_old = json.dumps(old)[1:-1]
                enc_new = json.dumps(subs[old])[1:-1]
                s = re.sub(re.escape(enc_old) + r"(?![A-Za-z0-9_])", lambda _m, enc_new=enc_new: enc_new, s)
            s = s.replace(json.dumps("\0STATE\0")[1:-1], (STATE_ENUM if (self.state_ty in extra) else (self.state_ty or "")))
            c2 = json.loads(s)
            c.clear()
            c.update(c2)
        for old, new in sorted(subs.items()):
            if not new.startswith("\0"):
                self.log.append("path %s -> %s" % (old, new))
        # the simple name of a renamed body
        for c in self.crates:
            for b in c["bodies"]:
                if b["kind"] in ("fn", "assoc_fn") and b.get("name") and not b["path"].endswith("::" + b["name"]):
                    b["name"] = b["path"].rsplit("::", 1)[-1]

    def run(self):
        self.apply_fields(self.field_map())
        pm = self.path_map()
        self.apply_paths(pm)
        return self.log


def canonicalize(crates):
    """crates: list of the driver's per-crate dicts (modified in place); returns the rename log"""
    try:
        return Canon(crates).run()
    except Exception as e:  # never let the convenience layer hide the tree: analyse it as it is
        return ["canonicalisation skipped: %s: %s" % (type(e).__name__, e)]
