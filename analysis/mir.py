"""Fact base loader and basic CFG utilities over the JSON written by the
memc-facts driver (built MIR, resolved callees, type tables)."""
import json
import re
import os
from collections import defaultdict


class Place:
    __slots__ = ("local", "proj")

    def __init__(self, j):
        self.local = j["l"]
        self.proj = tuple(_proj(p) for p in j["p"])

    def is_local(self):
        return not self.proj

    def fields(self):
        """names of Field projections, derefs/downcasts dropped"""
        return tuple(p[1] for p in self.proj if p[0] == "f")

    def __repr__(self):
        s = "_%d" % self.local
        for p in self.proj:
            if p[0] == "*":
                s = "(*%s)" % s
            elif p[0] == "f":
                s = "%s.%s" % (s, p[1])
            elif p[0] == "v":
                s = "(%s as %s)" % (s, p[1])
            elif p[0] == "idx":
                s = "%s[_%d]" % (s, p[1])
            else:
                s = "%s.<%s>" % (s, p[0])
        return s


def _proj(p):
    if p == "*":
        return ("*",)
    if isinstance(p, str):
        return (p,)
    if "f" in p:
        return ("f", p["n"], p["f"])
    if "v" in p:
        return ("v", p["n"], p["v"])
    if "idx" in p:
        return ("idx", p["idx"])
    if "cidx" in p:
        return ("cidx", p["cidx"])
    return ("sub",)


class Operand:
    __slots__ = ("kind", "place", "const")

    def __init__(self, j):
        if "copy" in j:
            self.kind = "copy"
            self.place = Place(j["copy"])
            self.const = None
        elif "move" in j:
            self.kind = "move"
            self.place = Place(j["move"])
            self.const = None
        elif "const" in j:
            self.kind = "const"
            self.place = None
            self.const = j["const"]
        else:
            self.kind = "other"
            self.place = None
            self.const = {"repr": j.get("other")}

    def const_val(self):
        if self.kind == "const":
            return self.const.get("val")
        return None

    def __repr__(self):
        if self.kind == "const":
            c = self.const
            if "val" in c:
                return "const %s_%s" % (c["val"], c["ty"])
            if "fn" in c:
                return "fn %s" % c["fn"]
            if "str" in c:
                return "const %r" % c["str"]
            return "const <%s>" % (c.get("repr") or c.get("def") or c.get("ty"))
        return "%s %r" % (self.kind, self.place)


class Rvalue:
    def __init__(self, j):
        self.k = j["k"]
        self.j = j
        self.ops = []
        self.place = None
        if self.k in ("use", "repeat", "cast", "unop"):
            self.ops = [Operand(j["o"])]
        elif self.k == "binop":
            self.ops = [Operand(j["l"]), Operand(j["r"])]
        elif self.k == "agg":
            self.ops = [Operand(o) for o in j["ops"]]
        if "place" in j:
            self.place = Place(j["place"])
        self.op = j.get("op")

    def __repr__(self):
        k = self.k
        if k == "use":
            return repr(self.ops[0])
        if k == "ref":
            return "&%s%r" % ("mut " if self.j["mut"] else "", self.place)
        if k == "binop":
            return "%s(%r, %r)" % (self.op, self.ops[0], self.ops[1])
        if k == "unop":
            return "%s(%r)" % (self.op, self.ops[0])
        if k == "cast":
            return "%r as %s (%s)" % (self.ops[0], self.j["ty"], self.j["kind"])
        if k == "discr":
            return "discriminant(%r)" % self.place
        if k == "agg":
            ak = self.j["ak"]
            if ak == "adt":
                return "%s::%s{%s}" % (
                    self.j["adt"],
                    self.j["variant"],
                    ", ".join("%s: %r" % (f, o) for f, o in zip(self.j["fields"], self.ops)),
                )
            if ak in ("closure", "coroutine"):
                return "[%s %s](%s)" % (ak, self.j["def"], ", ".join(map(repr, self.ops)))
            return "%s(%s)" % (ak, ", ".join(map(repr, self.ops)))
        return "<%s %s>" % (k, self.j.get("repr", ""))


class Stmt:
    def __init__(self, j):
        self.k = j["k"]
        self.j = j
        self.span = j.get("span")
        self.place = Place(j["place"]) if "place" in j else None
        self.rv = Rvalue(j["rv"]) if "rv" in j else None
        self.local = j.get("l")

    def __repr__(self):
        if self.k == "assign":
            return "%r = %r" % (self.place, self.rv)
        if self.k in ("live", "dead"):
            return "Storage%s(_%d)" % (self.k.capitalize(), self.local)
        return "<%s>" % self.k


class Callee:
    def __init__(self, j):
        self.j = j
        self.path = j.get("path")  # generic (unresolved) path
        self.name = j.get("name")
        self.targs = j.get("targs", [])
        self.trait = j.get("trait")
        self.self_ty = j.get("self_ty")
        self.resolved = j.get("resolved")
        self.resolved_local = j.get("resolved_local", False)
        self.ikind = j.get("ikind")
        self.impl_self = j.get("impl_self")

    def target(self):
        """best known def path"""
        return self.resolved or self.path

    def is_dyn(self):
        return self.ikind == "virtual"

    def __repr__(self):
        if self.path is None:
            return "<indirect %s>" % self.j.get("ty", "")
        s = self.path
        if self.resolved and self.resolved != self.path:
            s += " => " + self.resolved
        if self.ikind == "virtual":
            s += " [dyn %s]" % self.self_ty
        return s


class Term:
    def __init__(self, j):
        self.k = j["k"]
        self.j = j
        self.span = j.get("span")
        self.t = j.get("t")
        self.unwind = j.get("unwind")
        self.callee = Callee(j["callee"]) if "callee" in j else None
        self.args = [Operand(a) for a in j.get("args", [])]
        self.dest = Place(j["dest"]) if "dest" in j else None
        self.place = Place(j["place"]) if "place" in j else None
        self.discr = Operand(j["discr"]) if "discr" in j else None
        self.targets = [(v, b) for v, b in j.get("targets", [])]
        self.otherwise = j.get("otherwise")
        self.cond = Operand(j["cond"]) if "cond" in j else None
        self.msg = j.get("msg")
        self.value = Operand(j["value"]) if "value" in j else None

    def succs(self, unwind=False):
        k = self.k
        out = []
        if k == "goto":
            out = [self.t]
        elif k == "switch":
            out = [b for _, b in self.targets] + [self.otherwise]
        elif k in ("call", "drop", "assert", "yield"):
            if self.t is not None:
                out = [self.t]
            if unwind and self.unwind is not None:
                out.append(self.unwind)
            if unwind and k == "yield" and self.j.get("drop") is not None:
                out.append(self.j["drop"])
        return out

    def __repr__(self):
        k = self.k
        if k == "goto":
            return "goto bb%d" % self.t
        if k == "switch":
            return "switch(%r) [%s, otherwise: bb%d]" % (
                self.discr,
                ", ".join("%d: bb%d" % (v, b) for v, b in self.targets),
                self.otherwise,
            )
        if k == "call":
            return "%r = call %r(%s) -> %s" % (
                self.dest,
                self.callee,
                ", ".join(map(repr, self.args)),
                "bb%d" % self.t if self.t is not None else "!",
            )
        if k == "drop":
            return "drop(%r) -> bb%d" % (self.place, self.t)
        if k == "assert":
            return "assert(%r == %s, %s) -> bb%d" % (self.cond, self.j["expected"], self.msg.get("kind"), self.t)
        if k == "yield":
            return "yield(%r) -> bb%d" % (self.value, self.t)
        return k


class Block:
    def __init__(self, j):
        self.stmts = [Stmt(s) for s in j["stmts"]]
        self.term = Term(j["term"])
        self.cleanup = j["cleanup"]


def loc_s(span):
    if not span:
        return "?"
    return "%s:%d:%d" % (span["file"], span["line"], span["col"])


def from_external_macro(span):
    return bool(span) and "exp" in span and span.get("exp_external", False) and span.get("desugar", "").startswith("Macro")


class Body:
    def __init__(self, j, crate):
        self.j = j
        self.crate = crate
        self.path = j["path"]
        self.kind = j["kind"]
        self.name = j.get("name")
        self.root = j.get("root")
        self.parent = j.get("parent")
        self.impl_self = j.get("impl_self")
        self.impl_trait = j.get("impl_trait")
        self.trait_default = j.get("trait_default")
        self.arg_count = j["arg_count"]
        self.locals = j["locals"]
        self.captures = j.get("captures", [])
        self.span = j["span"]
        self.blocks = [Block(b) for b in j["blocks"]]
        self._preds = None
        self._dom = None
        self._reach = None

    # ---- naming helpers
    def local_name(self, l):
        return self.locals[l].get("name")

    def local_ty(self, l):
        return self.locals[l]["ty"]

    def locals_named(self, name):
        return [i for i, l in enumerate(self.locals) if l.get("name") == name]

    def arg_locals(self):
        return list(range(1, self.arg_count + 1))

    def loc(self):
        return loc_s(self.span)

    # ---- CFG
    def succs(self, b, unwind=False):
        return self.blocks[b].term.succs(unwind)

    def preds(self):
        if self._preds is None:
            p = defaultdict(list)
            for i, blk in enumerate(self.blocks):
                for s in blk.term.succs(False):
                    p[s].append(i)
            self._preds = p
        return self._preds

    def reachable(self):
        """blocks reachable from entry along normal (non-unwind) edges"""
        if self._reach is None:
            seen = {0}
            st = [0]
            while st:
                b = st.pop()
                for s in self.succs(b):
                    if s not in seen:
                        seen.add(s)
                        st.append(s)
            self._reach = seen
        return self._reach

    def reach_from(self, b, stop=()):
        seen = set()
        st = [b]
        while st:
            x = st.pop()
            if x in seen or x in stop:
                continue
            seen.add(x)
            st.extend(self.succs(x))
        return seen

    def dominators(self):
        """dom[b] = set of blocks dominating b (normal edges only)"""
        if self._dom is None:
            reach = sorted(self.reachable())
            allb = set(reach)
            dom = {b: set(allb) for b in reach}
            dom[0] = {0}
            preds = self.preds()
            changed = True
            while changed:
                changed = False
                for b in reach:
                    if b == 0:
                        continue
                    ps = [p for p in preds[b] if p in allb]
                    if not ps:
                        continue
                    new = set.intersection(*(dom[p] for p in ps)) | {b}
                    if new != dom[b]:
                        dom[b] = new
                        changed = True
            self._dom = dom
        return self._dom

    def dominates(self, a, b):
        d = self.dominators()
        return b in d and a in d[b]

    def has_cycle(self):
        """returns list of back edges (a->b where b dominates a)"""
        back = []
        for b in self.reachable():
            for s in self.succs(b):
                if self.dominates(s, b):
                    back.append((b, s))
        return back

    def calls(self):
        """yield (block index, Term) for every call terminator on reachable blocks"""
        for b in sorted(self.reachable()):
            t = self.blocks[b].term
            if t.k == "call":
                yield b, t

    def all_calls(self):
        for b, blk in enumerate(self.blocks):
            if blk.term.k == "call":
                yield b, blk.term

    def returns(self):
        return [b for b in self.reachable() if self.blocks[b].term.k == "return"]

    def pretty(self):
        out = ["fn %s  [%s] %s" % (self.path, self.kind, self.loc())]
        for i, l in enumerate(self.locals):
            out.append(
                "    let _%d: %s%s%s" % (i, l["ty"], "  // " + l["name"] if l.get("name") else "", "  LOCK" if l.get("lock") else "")
            )
        for i, b in enumerate(self.blocks):
            out.append("  bb%d%s:" % (i, " (cleanup)" if b.cleanup else ""))
            for s in b.stmts:
                if s.k in ("nop", "live"):
                    continue
                out.append("      %r" % s)
            out.append("      %r" % b.term)
        return "\n".join(out)


class Facts:
    def __init__(self, paths):
        self.crates = {}
        self.bodies = {}
        self.adts = {}
        self.impls = []
        self.traits = {}
        self.consts = {}
        self.witnesses = {}
        self.meta = {}
        raw = []
        self.std_aliases = []
        for p in paths:
            with open(p) as f:
                txt = f.read()
            # rustc prints a std item under the shortest visible path of any loaded crate (`futures::Future` once the
            # crate uses `futures`): the driver lists such items with their std path, and they are renamed back here
            k = txt.rfind('"std_aliases"')
            if k >= 0:
                al = json.loads("{" + txt[k:].rstrip().rstrip("}") + "}").get("std_aliases") or []
                for a, b in al:
                    if re.fullmatch(r"[A-Za-z_][\w:]*", a) and re.fullmatch(r"[A-Za-z_][\w:]*", b):
                        body, tail = txt[:k], txt[k:]
                        body2 = re.sub(r"(?<![\w:])" + re.escape(a) + r"(?![\w])", b, body)
                        if body2 != body:
                            self.std_aliases.append((a, b))
                        txt = body2 + tail
            raw.append(json.loads(txt))
        import canon

        # private items are renamed to the rules' vocabulary when they can be identified structurally (analysis/canon.py)
        self.canon_log = canon.canonicalize(raw)
        for j in raw:
            cn = j["crate"] + "." + j["crate_kind"]
            self.meta[cn] = {k: j[k] for k in ("crate", "crate_kind", "nonce", "overflow_checks", "debug_assertions", "is_test")}
            for b in j["bodies"]:
                body = Body(b, cn)
                self.bodies[body.path] = body
            for a in j["adts"]:
                self.adts[a["path"]] = a
            for i in j["impls"]:
                i["crate"] = cn
                self.impls.append(i)
            for t in j["traits"]:
                self.traits[t["path"]] = t
            for c in j["consts"]:
                self.consts[c["path"]] = c
            for w in j["coroutine_witnesses"]:
                self.witnesses[w["path"]] = w["saved"]

    def body(self, path):
        return self.bodies.get(path)

    def find(self, suffix):
        """bodies whose path ends with the given suffix"""
        return [b for p, b in self.bodies.items() if p.endswith(suffix)]

    def one(self, path):
        b = self.bodies.get(path)
        if b is None:
            raise AnchorMissing(path)
        return b

    def closures_of(self, root_path):
        return [b for b in self.bodies.values() if b.root == root_path and b.path != root_path]

    def impls_of_trait(self, trait_path):
        return [i for i in self.impls if i.get("trait") == trait_path]

    def impl_method(self, self_ty, trait_path, name):
        for i in self.impls:
            if i["self"] == self_ty and i.get("trait") == trait_path:
                for it in i["items"]:
                    if it["name"] == name:
                        return it["path"]
        return None

    def enum_discr(self, adt_path):
        a = self.adts[adt_path]
        return {v["name"]: v["discr"] for v in a["variants"]}


class AnchorMissing(Exception):
    def __init__(self, what):
        Exception.__init__(self, "anchor missing: %s" % what)
        self.what = what


def load_dir(d):
    ps = sorted(os.path.join(d, f) for f in os.listdir(d) if f.endswith(".json"))
    return Facts(ps)


if __name__ == "__main__":
    import sys

    f = load_dir(sys.argv[1])
    pat = sys.argv[2] if len(sys.argv) > 2 else None
    for p, b in f.bodies.items():
        if pat is None:
            print(b.kind, p)
        elif pat in p:
            print(b.pretty())
            print()
