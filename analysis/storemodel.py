"""Semantic model of the DashMap 5.5.3 API used by the interpreter (trusted
table): which calls look up, write, remove; which run a caller closure under
the shard lock.  Every model emits a 'map' event so that rules can read the
sequence of map operations of a path."""
from absint import (
    split_option,
    DIVERGE,
    TOP,
    ClosureV,
    Event,
    Ref,
    Struct,
    TupleV,
    NoneV,
    Some,
    deref_arg,
    tform,
    strip_generics,
)

DM = "dashmap::DashMap::"

# locking table of DashMap 5.5.3 (every method that takes a shard lock, read or write)
LOCKING_METHODS = [
    "get",
    "get_mut",
    "try_get",
    "try_get_mut",
    "insert",
    "remove",
    "remove_if",
    "remove_if_mut",
    "entry",
    "try_entry",
    "alter",
    "alter_all",
    "view",
    "iter",
    "iter_mut",
    "retain",
    "clear",
    "len",
    "is_empty",
    "contains_key",
    "shrink_to_fit",
    "capacity",
    "into_read_only",
    "clone",
    "extend",
    "shards",
]

MULTI_KEY_MUTATORS = ["clear", "alter_all", "retain", "iter_mut", "shards_mut", "into_iter", "shrink_to_fit"]


def _n(st):
    return sum(1 for e in st.events if e.kind == "map")


def _ev(I, st, t, site, name, **kw):
    e = Event("map", name, [], site, t.span, tuple(I.ctx), extra=kw)
    st.events.append(e)
    return e


def lookup_of(term):
    """the ('lookup', kind, map, key, n) term a guard/stored-record term is rooted at, or None"""
    while isinstance(term, tuple) and term:
        if term[0] == "lookup":
            return term
        if term[0] in ("field", "as", "deref", "index"):
            term = term[1]
            continue
        if term[0] == "stored":
            return term
        return None
    return None


def m_get(kind):
    def m(I, st, t, args, site, depth):
        mp, key = tform(args[0]), tform(deref_arg(I, st, args[1]))
        term = ("lookup", kind, mp, key, _n(st))
        _ev(I, st, t, site, kind, map=mp, key=key, result=term)
        return [(st, term)]

    return m


def m_insert(I, st, t, args, site, depth):
    mp, key = tform(args[0]), tform(args[1])
    val = args[2]
    _ev(I, st, t, site, "insert", map=mp, key=key, value=val, write="upsert")
    return [(st, ("old", mp, key, _n(st)))]


def m_remove(I, st, t, args, site, depth):
    mp, key = tform(args[0]), tform(deref_arg(I, st, args[1]))
    res = ("removed", mp, key, _n(st))
    _ev(I, st, t, site, "remove", map=mp, key=key, result=res, removes="unconditional")
    return [(st, res)]


def truth_forks(I, st, b):
    """-> list of (state, bool) for a boolean value"""
    if isinstance(b, int):
        return [(st, bool(b))]
    out = []
    if isinstance(b, tuple) and b and b[0] == "cmp":
        _, op, x, y, oty = b
        d = I.decide_cmp(st, op, x, y, oty)
        if d is not None:
            return [(st, d)]
        for truth in (True, False):
            s2 = st.fork()
            if I.assume_cmp(s2, op, x, y, truth, oty):
                s2.add_pc(b, truth, None)
                out.append((s2, truth))
        return out
    return [(st.fork(), True), (st.fork(), False)]


def m_remove_if(I, st, t, args, site, depth):
    mp, key = tform(args[0]), tform(deref_arg(I, st, args[1]))
    f = args[2]
    n = _n(st)
    out = []
    # key absent: the closure does not run
    s0 = st.fork()
    _ev(I, s0, t, site, "remove_if", map=mp, key=key, present=False, removed=False)
    s0.add_pc(("present", mp, key, n), False, site)
    out.append((s0, NoneV()))
    # key present: closure runs under the shard lock
    s1 = st.fork()
    stored = ("stored", mp, key, n)
    s1.add_pc(("present", mp, key, n), True, site)
    for s2, b in I.invoke(s1, f, [key, stored], depth, site, label="under_lock:remove_if"):
        for s3, truth in truth_forks(I, s2, b):
            _ev(I, s3, t, site, "remove_if", map=mp, key=key, present=True, removed=truth, pred=b, stored=stored)
            if truth:
                out.append((s3, Some(TupleV([key, stored]))))
            else:
                out.append((s3, NoneV()))
    return out


def m_alter_all(I, st, t, args, site, depth):
    mp = tform(args[0])
    f = args[1]
    n = _n(st)
    stored = ("stored_any", mp, n)
    out = []
    for s2, newv in I.invoke(st.fork(), f, [("key_any", n), stored], depth, site, label="under_lock:alter_all"):
        _ev(I, s2, t, site, "alter_all", map=mp, old=stored, value=newv, pc_len=len(s2.pc))
        out.append((s2, TupleV([])))
    return out


def m_alter(I, st, t, args, site, depth):
    mp, key = tform(args[0]), tform(deref_arg(I, st, args[1]))
    f = args[2]
    n = _n(st)
    stored = ("stored", mp, key, n)
    out = []
    for s2, newv in I.invoke(st.fork(), f, [key, stored], depth, site, label="under_lock:alter"):
        _ev(I, s2, t, site, "alter", map=mp, key=key, old=stored, value=newv, write="replace")
        out.append((s2, TupleV([])))
    return out


def m_retain(I, st, t, args, site, depth):
    mp = tform(args[0])
    f = args[1]
    n = _n(st)
    stored = ("stored_any", mp, n)
    out = []
    for s2, b in I.invoke(st.fork(), f, [("key_any", n), stored], depth, site, label="under_lock:retain"):
        newv = s2.mem.get(("H", stored))
        if b == 0 and newv is None:
            # retain(|_, _| false): every entry goes — this is what DashMap::clear does
            _ev(I, s2, t, site, "clear", map=mp, removes="all", via="retain")
        elif b == 1:
            # every entry is kept; the closure may have rewritten it in place through its &mut V: the per-item rewrite of
            # alter_all (same shard-by-shard locking)
            _ev(I, s2, t, site, "alter_all", map=mp, old=stored, value=newv if newv is not None else stored, pc_len=len(s2.pc), via="retain")
        else:
            _ev(I, s2, t, site, "retain", map=mp, pred=b, removes="predicate")
        out.append((s2, TupleV([])))
    return out


def m_simple(name, **kw):
    def m(I, st, t, args, site, depth):
        mp = tform(args[0]) if args else None
        res = ("mapq", name, mp, _n(st))
        _ev(I, st, t, site, name, map=mp, result=res, **kw)
        return [(st, res)]

    return m


def _entry_root(I, st, v):
    v = deref_arg(I, st, v)
    return tform(v)


def m_occ_get(I, st, t, args, site, depth):
    occ = _entry_root(I, st, args[0])
    return [(st, ("deref", occ))]


def m_guard_value(I, st, t, args, site, depth):
    """Ref::value / RefMut::value / value_mut / RefMulti::value on a guard: the stored record it points at (same as *guard)"""
    g = _entry_root(I, st, args[0])
    if lookup_of(g) is None and not (isinstance(g, tuple) and g and g[0] in ("cbarg",)):
        return None
    return [(st, ("deref", g))]


def m_guard_key(I, st, t, args, site, depth):
    g = _entry_root(I, st, args[0])
    lk = lookup_of(g)
    if lk is None:
        return None
    return [(st, lk[3] if lk[0] == "lookup" else lk[2])]


def m_view(I, st, t, args, site, depth):
    """DashMap::view(key, f) = get(key).map(|r| f(r.key(), r.value())): the closure runs under the shard's read lock"""
    mp, key = tform(args[0]), tform(deref_arg(I, st, args[1]))
    term = ("lookup", "get", mp, key, _n(st))
    _ev(I, st, t, site, "get", map=mp, key=key, result=term)
    out = []
    for s2, var, payload in split_option(I, st, term):
        if var == "Some":
            for s3, r in I.invoke(s2, args[2], [key, ("deref", payload)], depth, site, label="under_lock:view"):
                out.append((s3, Some(r)))
        else:
            out.append((s2, NoneV()))
    return out


def m_entry_insert(I, st, t, args, site, depth):
    """Entry::insert(value) / insert_entry(value): stores the value whatever the entry was (the entry's lock is held)"""
    ent = _entry_root(I, st, args[0])
    lk = lookup_of(ent)
    _ev(I, st, t, site, "entry_insert", map=lk[2] if lk else None, key=lk[3] if lk else None, value=args[1], write="upsert", via=ent)
    return [(st, ("deref", ("inserted", ent)))]


def m_vac_insert_entry(I, st, t, args, site, depth):
    vac = _entry_root(I, st, args[0])
    lk = lookup_of(vac)
    _ev(I, st, t, site, "vacant_insert", map=lk[2] if lk else None, key=lk[3] if lk else None, value=args[1], write="insert-absent", via=vac)
    return [(st, ("inserted", vac))]


def m_occ_insert(I, st, t, args, site, depth):
    occ = _entry_root(I, st, args[0])
    lk = lookup_of(occ)
    _ev(I, st, t, site, "occupied_insert", map=lk[2] if lk else None, key=lk[3] if lk else None, value=args[1], write="replace", via=occ)
    return [(st, ("old", occ))]


def m_occ_remove(I, st, t, args, site, depth):
    occ = _entry_root(I, st, args[0])
    lk = lookup_of(occ)
    _ev(I, st, t, site, "occupied_remove", map=lk[2] if lk else None, key=lk[3] if lk else None, removes="held-entry", via=occ)
    return [(st, ("deref", occ))]


def m_vac_insert(I, st, t, args, site, depth):
    vac = _entry_root(I, st, args[0])
    lk = lookup_of(vac)
    _ev(I, st, t, site, "vacant_insert", map=lk[2] if lk else None, key=lk[3] if lk else None, value=args[1], write="insert-absent", via=vac)
    return [(st, ("deref", ("inserted", vac)))]


def m_entry_or_insert(I, st, t, args, site, depth):
    ent = _entry_root(I, st, args[0])
    lk = lookup_of(ent)
    _ev(I, st, t, site, "entry_or_insert", map=lk[2] if lk else None, key=lk[3] if lk else None, value=args[1] if len(args) > 1 else None, write="insert-absent", via=ent)
    return [(st, ("deref", ("inserted", ent)))]


STORE_MODELS = {
    DM + "get": m_get("get"),
    DM + "get_mut": m_get("get_mut"),
    DM + "try_get": m_get("get"),
    DM + "try_get_mut": m_get("get_mut"),
    DM + "entry": m_get("entry"),
    DM + "try_entry": m_get("entry"),
    DM + "insert": m_insert,
    DM + "remove": m_remove,
    DM + "remove_if": m_remove_if,
    DM + "remove_if_mut": m_remove_if,
    DM + "alter_all": m_alter_all,
    DM + "alter": m_alter,
    DM + "retain": m_retain,
    DM + "clear": m_simple("clear", removes="all"),
    DM + "len": m_simple("len"),
    DM + "is_empty": m_simple("is_empty"),
    DM + "iter": m_simple("iter"),
    DM + "iter_mut": m_simple("iter_mut"),
    DM + "contains_key": m_simple("contains_key"),
    DM + "into_read_only": m_simple("into_read_only"),
    "dashmap::mapref::one::Ref::value": m_guard_value,
    "dashmap::mapref::one::RefMut::value": m_guard_value,
    "dashmap::mapref::one::RefMut::value_mut": m_guard_value,
    "dashmap::mapref::one::Ref::key": m_guard_key,
    "dashmap::mapref::one::RefMut::key": m_guard_key,
    "dashmap::mapref::entry::OccupiedEntry::key": m_guard_key,
    DM + "view": m_view,
    "dashmap::mapref::entry::Entry::insert": m_entry_insert,
    "dashmap::mapref::entry::Entry::insert_entry": m_entry_insert,
    "dashmap::mapref::entry::VacantEntry::insert_entry": m_vac_insert_entry,
    "dashmap::mapref::entry::OccupiedEntry::get": m_occ_get,
    "dashmap::mapref::entry::OccupiedEntry::get_mut": m_occ_get,
    "dashmap::mapref::entry::OccupiedEntry::into_ref": m_occ_get,
    "dashmap::mapref::entry::OccupiedEntry::insert": m_occ_insert,
    "dashmap::mapref::entry::OccupiedEntry::remove": m_occ_remove,
    "dashmap::mapref::entry::OccupiedEntry::remove_entry": m_occ_remove,
    "dashmap::mapref::entry::VacantEntry::insert": m_vac_insert,
    "dashmap::mapref::entry::Entry::or_insert": m_entry_or_insert,
    "dashmap::mapref::entry::Entry::or_insert_with": m_entry_or_insert,
    "dashmap::mapref::entry::Entry::or_default": m_entry_or_insert,
}


def m_now(I, st, t, args, site, depth):
    """Timer::timestamp() of the store's timer: one symbolic 'now' per call, tagged by ordinal"""
    n = sum(1 for e in st.events if e.kind == "now")
    st.events.append(Event("now", "timestamp", args, site, t.span, tuple(I.ctx)))
    return [(st, ("now",))]


TIMER_MODELS = {"memcrs::server::timer::Timer::timestamp": m_now}


def map_events(path):
    return [e for e in path.events if e.kind == "map"]


def map_writes(path):
    """all writes of a record into the map on this path:
    list of dict(kind, key, value, via, event)"""
    out = []
    for e in path.events:
        if e.kind == "map" and e.extra.get("write"):
            out.append({"kind": e.extra["write"], "key": e.extra.get("key"), "value": e.extra.get("value"), "via": e.extra.get("via"), "event": e, "name": e.name})
        elif e.kind == "map" and e.name == "alter_all":
            out.append({"kind": "rewrite-all", "key": None, "value": e.extra.get("value"), "via": e.extra.get("old"), "event": e, "name": e.name})
        elif e.kind == "write":
            ptr = e.args[0]
            lk = lookup_of(ptr)
            if lk is not None:
                out.append({"kind": "replace" if not e.args[1] else "field-write", "key": lk[3] if lk[0] == "lookup" else lk[2], "value": e.args[2], "via": ptr, "event": e, "name": "guard-write", "path": e.args[1]})
    return out


def map_removals(path):
    out = []
    for e in path.events:
        if e.kind == "map" and e.extra.get("removes"):
            out.append(e)
        elif e.kind == "map" and e.name == "remove_if" and e.extra.get("removed"):
            out.append(e)
    return out
