"""C16 — every command completes: no deadlock between connections (lock discipline)."""
from rules.common import *  # noqa: F401,F403
import callgraph
import guards
import extract
import mir
from storemodel import LOCKING_METHODS

LEVEL_TEXT = (
    'Static lock-discipline check over every body of the crate (built MIR, resolved callees): R1 no call that can '
    'acquire a DashMap shard lock (transitively, through dyn Cache/Timer to all in-crate impls) is made while a local '
    'that may hold a shard lock is live (forward may-analysis with move/drop/StorageDead kills and discriminant '
    'refinement); R2 closures that DashMap or a guard-carrying iterator adaptor runs under a lock, and every '
    'CachePredicate handed to Cache::remove_if, are lock-free; R3 no guard is live at a Yield (await) of a coroutine, '
    'no coroutine witness or struct field has a lock-carrying type; R4 nothing reachable from the async '
    'connection/accept code calls a blocking primitive; R5 the eviction sweep re-reads the store size in every round '
    'and an exit of the loop depends on it (another connection can empty the store at any time). Each zero-count rule '
    'is shown able to fire on /verif/fixtures (compiled by the same driver). Not decided: termination of the eviction '
    'sweep under concurrent writers (livelock), fairness.'
)
ASSUMPTIONS = [
    "DashMap 5.5.3 locking table (storemodel.LOCKING_METHODS): exactly these methods take shard locks; DashMap documents that calling them while holding a reference into the map may deadlock",
    "external (std/bytes/tokio) functions do not call back into the crate's map except through closures passed to them",
    "the crate has one DashMap (MemoryStore.memory) — checked by R1's census",
]

DM = "dashmap::DashMap::"
BLOCKING = (
    "std::thread::sleep",
    "std::thread::park",
    "std::sync::Mutex::lock",
    "std::sync::RwLock::read",
    "std::sync::RwLock::write",
    "std::sync::Condvar::wait",
    "std::sync::mpsc::Receiver::recv",
    "std::thread::JoinHandle::join",
    "tokio::runtime::Runtime::block_on",
    "tokio::runtime::Handle::block_on",
    "std::sync::Barrier::wait",
    "std::sync::poison::mutex::Mutex::lock",
    "std::sync::poison::rwlock::RwLock::read",
    "std::sync::poison::rwlock::RwLock::write",
    "std::sync::poison::condvar::Condvar::wait",
)


def is_locking_ext(name, t=None):
    if name.startswith(DM):
        return name[len(DM):] in LOCKING_METHODS
    return False


def is_blocking_ext(name, t=None):
    return any(name == b or name.startswith(b + "::") for b in BLOCKING)


def lock_discipline(facts, crate_filter, rep_r1, rep_r2, rep_r3, rep_r4, tag=""):
    """runs the four lock rules over `facts`; reports into the given Report objects (any may be None)"""

    class _C:
        pass

    c = _C()
    c.facts = facts
    c._cache = {}
    cg = callgraph.get(c)
    n_guard_locals = 0
    for b in facts.bodies.values():
        if not crate_filter(b):
            continue
        ga = guards.analyse(b)
        n_guard_locals += len(ga["locals"])
        if rep_r1 is not None:
            rep_r1.analysed(b)
            for bb, t, held, before in ga["calls"]:
                rep_r1.call_sites += 1
                if not held:
                    continue
                # callee is a method of the held guard itself?
                tgts = cg.targets(t.callee)
                witness = None
                for tg in tgts:
                    if tg in facts.bodies:
                        w = cg.may_reach_ext(tg, is_locking_ext)
                        if w:
                            witness = w
                            break
                    elif is_locking_ext(tg):
                        witness = (tg,)
                        break
                names = ",".join(sorted((b.local_name(l) or "_%d" % l) + ":" + b.locals[l]["lock"].split("::")[-1] for l in held))
                key = "%s%s:call %s while [%s] held" % (tag, b.path, strip_generics(t.callee.path or "<indirect>"), names)
                if witness:
                    rep_r1.bad(key, "a call that can take a DashMap shard lock (%s) is made while %s may still hold a shard lock of the same map: self-deadlock when a writer is queued between the two acquisitions" % (" -> ".join(witness), names), loc_s(t.span))
                else:
                    rep_r1.ok(key, "call under a live guard is lock-free", loc_s(t.span))
        if rep_r3 is not None and b.kind == "coroutine":
            for bb, t, held in ga["yields"]:
                names = ",".join(sorted((b.local_name(l) or "_%d" % l) for l in held))
                key = "%s%s:await with [%s] live" % (tag, b.path, names)
                if held:
                    rep_r3.bad(key, "a DashMap guard (%s) is live across an .await: it blocks every other task that needs the shard, on a current-thread runtime forever" % names, loc_s(t.span))
    if rep_r3 is not None:
        for path, saved in facts.witnesses.items():
            b = facts.bodies.get(path)
            if b is None or not crate_filter(b):
                continue
            rep_r3.analysed(b)
            bad = [s for s in saved if s["lock"]]
            key = "%s%s:witness" % (tag, path)
            if bad:
                rep_r3.bad(key, "coroutine saves a lock-carrying value across an await: %s" % bad[0]["ty"], loc_s(bad[0]["span"]))
            else:
                rep_r3.ok(key, "no lock-carrying type among the %d values saved across awaits" % len(saved), b.loc())
        for apath, a in facts.adts.items():
            for v in a["variants"]:
                for fld in v["fields"]:
                    if "dashmap::mapref" in fld["ty"] or "dashmap::iter::" in fld["ty"] or "RwLockReadGuard" in fld["ty"] or "RwLockWriteGuard" in fld["ty"]:
                        rep_r3.bad("%s%s.%s:guard-in-field" % (tag, apath, fld["name"]), "a struct field holds a DashMap guard: its lifetime escapes the per-function analysis", loc_s(a["span"]))
    # R2: closures run under a lock
    if rep_r2 is not None:
        under_lock = []  # (creator body, closure def path, why, span)
        for b in facts.bodies.values():
            if not crate_filter(b):
                continue
            locks = guards.lock_locals(b)
            for bb, t in b.calls():
                nm = strip_generics(t.callee.path or "")
                runs_closure_under_lock = nm in (DM + "remove_if", DM + "remove_if_mut", DM + "alter", DM + "alter_all", DM + "retain", DM + "view")
                takes_guard = any(o.place is not None and o.place.local in locks for o in t.args)
                passes_pred = t.callee.name == "remove_if" and (t.callee.trait == CACHE)
                if not (runs_closure_under_lock or takes_guard or passes_pred):
                    continue
                for o in t.args:
                    for cdef in closure_defs_of(b, o):
                        why = "DashMap::%s runs it under the shard lock" % t.callee.name if runs_closure_under_lock else ("passed as CachePredicate to Cache::remove_if (invoked while the shard iterator is alive)" if passes_pred else "invoked by %s while a guard-carrying value is alive" % t.callee.name)
                        under_lock.append((b, cdef, why, t.span))
        for b, cdef, why, span in under_lock:
            rep_r2.analysed(cdef)
            w = cg.may_reach_ext(cdef, is_locking_ext)
            key = "%s%s" % (tag, cdef)
            if w:
                rep_r2.bad(key, "closure (%s) can reach a locking DashMap call: %s" % (why, " -> ".join(w)), loc_s(span))
            else:
                rep_r2.ok(key, "closure is lock-free (%s)" % why, loc_s(span))
    if rep_r4 is not None:
        for b in facts.bodies.values():
            if not crate_filter(b) or b.kind != "coroutine":
                continue
            rep_r4.analysed(b)
            w = cg.may_reach_ext(b.path, is_blocking_ext)
            key = "%s%s" % (tag, b.path)
            if w:
                rep_r4.bad(key, "async body can reach a blocking primitive: %s" % " -> ".join(w), b.loc())
            else:
                rep_r4.ok(key, "no blocking primitive reachable", b.loc())
    return n_guard_locals


def closure_defs_of(body, operand, depth=0):
    """closure definitions an operand may refer to (through refs, casts and moves of temporaries)"""
    out = []
    if operand.kind == "const":
        if "closure" in operand.const:
            out.append(operand.const["closure"])
        return out
    if operand.place is None or depth > 6:
        return out
    l = operand.place.local
    for blk in body.blocks:
        for s in blk.stmts:
            if s.k == "assign" and s.place.local == l and s.place.is_local():
                rv = s.rv
                if rv.k == "agg" and rv.j.get("ak") in ("closure", "coroutine"):
                    out.append(rv.j["def"])
                elif rv.k in ("use", "cast"):
                    out.extend(closure_defs_of(body, rv.ops[0], depth + 1))
                elif rv.k == "ref" and rv.place is not None:
                    class _O:
                        pass

                    o = _O()
                    o.kind = "copy"
                    o.place = type(rv.place).__new__(type(rv.place))
                    o.place.local = rv.place.local
                    o.place.proj = ()
                    o.const = None
                    out.extend(closure_defs_of(body, o, depth + 1))
    return out


def in_lib(b):
    return b.crate in ("memcrs.lib", "memcrsd.bin")


def fixture_facts(ctx):
    if "fixture_facts" not in ctx._cache:
        ctx._cache["fixture_facts"] = mir.load_dir(extract.extract_fixtures())
    return ctx._cache["fixture_facts"]


def _fixture_expect(rep, fx_rep, must_fire, must_hold):
    bad_keys = [i.key for i in fx_rep.instances if not i.ok]
    for frag in must_fire:
        hit = any(frag in k for k in bad_keys)
        rep.check(hit, "fixture:%s:fires" % frag, "positive fixture %s is flagged (the rule can match)" % frag, "positive fixture %s is NOT flagged: the rule is vacuous (checker defect)" % frag)
    for frag in must_hold:
        hit = any(frag in k for k in bad_keys)
        rep.check(not hit, "fixture:%s:silent" % frag, "negative twin %s is not flagged" % frag, "negative twin %s is flagged: the rule is too coarse (checker defect)" % frag)


def r1(ctx):
    rep = Report("C16.R1", "no call that may take a DashMap shard lock while a guard-carrying local may hold one", floor=6)
    n = lock_discipline(ctx.facts, in_lib, rep, None, None, None)
    rep.check(n >= 4, "guard-locals", "%d guard-carrying locals recognised (>= 4 confirmed by reading)" % n, "only %d guard-carrying locals recognised (>= 4 exist): guard recognition is broken" % n)
    # census: exactly one DashMap in the crate
    maps = [(p, fld["name"]) for p, a in ctx.facts.adts.items() for v in a["variants"] for fld in v["fields"] if "dashmap::DashMap<" in fld["ty"]]
    rep.check(len(maps) == 1, "one-map", "one DashMap field in the crate: %s" % maps, "the crate has %d DashMap fields %s: the single-map argument of R1 (any re-entry is a self-deadlock) needs revisiting" % (len(maps), maps))
    fx = Report("fx", "")
    lock_discipline(fixture_facts(ctx), lambda b: True, fx, None, None, None, tag="fx:")
    _fixture_expect(rep, fx, ["Store::guard_reentry", "Store::iter_reentry"], ["Store::guard_released", "Store::check_then_insert"])
    return rep


def r2(ctx):
    rep = Report("C16.R2", "closures that run under a shard lock (DashMap callbacks, adaptors over a live map iterator, CachePredicates) are lock-free", floor=5)
    lock_discipline(ctx.facts, in_lib, None, rep, None, None)
    fx = Report("fx", "")
    lock_discipline(fixture_facts(ctx), lambda b: True, None, fx, None, None, tag="fx:")
    _fixture_expect(rep, fx, ["Store::closure_reentry"], [])
    return rep


def r3(ctx):
    rep = Report("C16.R3", "no DashMap guard is live across an await or stored in a struct", floor=8)
    lock_discipline(ctx.facts, in_lib, None, None, rep, None)
    fx = Report("fx", "")
    lock_discipline(fixture_facts(ctx), lambda b: True, None, None, fx, None, tag="fx:")
    _fixture_expect(rep, fx, ["Store::guard_across_await"], [])
    return rep


def r4(ctx):
    rep = Report("C16.R4", "no blocking primitive (thread sleep/park, std Mutex/Condvar, block_on, join) reachable from async bodies", floor=8)
    lock_discipline(ctx.facts, in_lib, None, None, None, rep)
    fx = Report("fx", "")
    lock_discipline(fixture_facts(ctx), lambda b: True, None, None, None, fx, tag="fx:")
    _fixture_expect(rep, fx, ["Store::blocking_in_async"], ["Store::guard_across_await"])
    return rep


def r5(ctx):
    rep = Report("C16.R5", "the eviction sweep re-reads the store size in every round: its only exit besides 'usage <= limit' is 'store empty', which another connection can make true at any time", floor=2)
    f = ctx.facts
    from rules import roles

    b = roles.get(ctx).policy_sweep()
    rep.analysed(b)
    from rules.c17 import natural_loop

    loops = [natural_loop(b, t_, h) for t_, h in b.has_cycle()]
    # the sweep loop: the one that contains the remove_if call
    import callgraph

    cg = callgraph.get(ctx)

    def is_cache(c, names):
        return c.name in names and (c.trait == CACHE or (c.path or "").startswith(CACHE))

    def call_blocks(names):
        """blocks of b whose call is Cache::<names>, or an in-crate helper from which such a call is reachable"""
        out = []
        for bb, t in b.calls():
            if is_cache(t.callee, names):
                out.append(bb)
                continue
            tg = [x for x in cg.targets(t.callee) if x in f.bodies and not x.startswith(MS + "::")]
            if any(any(is_cache(t2.callee, names) for _bb, t2 in cg.sites.get(r, ())) for r in cg.reachable(tg)):
                out.append(bb)
        return out

    rm = call_blocks(("remove_if",))
    ln = call_blocks(("len", "is_empty"))
    sweep = [L for L in loops if any(x in L for x in rm)]
    rep.check(bool(sweep), "sweep-loop", "eviction loop found", "cannot find the eviction loop (a loop containing the remove_if call)", b.loc())
    if sweep:
        L = sweep[0]
        inside = [x for x in ln if x in L]
        rep.check(bool(inside), "sweep:size-read-inside-loop", "store.len()/is_empty() is called inside the loop", "the eviction loop decides 'store is empty' from a size read before the loop: if another connection empties the store meanwhile (flush, deletes, expiry, a racing sweep) remove_if finds nothing, usage never drops and the loop spins forever", b.loc())
        # and the emptiness test leads out of the loop
        exits = False
        for x in inside:
            # a branch after the size read with one successor outside the loop
            seen = set()
            st = [x]
            while st:
                y = st.pop()
                if y in seen or y not in L:
                    continue
                seen.add(y)
                t = b.blocks[y].term
                if t.k == "switch" and any(s_ not in L for s_ in t.succs()):
                    exits = True
                if t.k == "call" and y in rm:
                    continue
                st.extend(t.succs())
        rep.check(exits, "sweep:empty-exit", "an exit of the loop follows the size read", "no exit of the eviction loop depends on the store size read inside it", b.loc())
    return rep


RULES = [("C16.R1", r1), ("C16.R2", r2), ("C16.R3", r3), ("C16.R4", r4), ("C16.R5", r5)]
