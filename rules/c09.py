"""C09 — request framing is independent of TCP segmentation."""
from collections import OrderedDict

from rules.common import *  # noqa: F401,F403
from rules import dispatch
from rules.storefacts import field_of
from bufmodel import BUF_MODELS, buf_state, buf_len

LEVEL_TEXT = (
    'Static byte accounting (affine dataflow on the connection buffer, no execution; the rules are evaluated on the '
    "public Decoder::decode with the codec's private helpers inlined): R1 reading a header consumes exactly 24 bytes "
    'and assigns the nine protocol fields from offsets 0,1,2,4,5,6,8,12,16 of the stream — whether read by get_uN '
    'calls or through a byte view that is indexed and advanced past; the length guard uses the same 24; R2 on every '
    'path of decode that returns a request (other than ItemTooLarge) the number of bytes removed from the connection '
    'buffer is the affine expression 24 + body_length (resp. body_length when the header was consumed by an earlier '
    "call) — never fewer, never bytes of the next request; R3 Ok(None) means 'need more bytes' and nothing else: it "
    'is returned only under a comparison with the buffered length, consumes nothing but the header, whose parse state '
    'is then recorded, and re-entry with the header parsed does not read a header again; R4 every completed frame '
    'resets the parser state; R5 the connection layer hands the buffer only to decode / read_buf / the oversized-item '
    'arm, and maps EOF with an empty buffer to a clean end, EOF with residue to an error. Not decided: kernel/tokio '
    'read semantics; equality of responses for equal request sequences (follows from R1-R5 plus a deterministic '
    'handler).'
)
ASSUMPTIONS = [
    "bytes::{Buf,BytesMut} semantic table (analysis/bufmodel.py): get_uN consume N bytes, split_to/advance(n) consume n, len = bytes buffered",
    "tokio_util's Decoder contract is not used: the connection calls decode directly (checked by R5)",
]

DECODE = "<" + CODEC + " as tokio_util::codec::Decoder>::decode"
HF = F(P("self"), "header")
HEADER_FIELDS = [("magic", 0, 1), ("opcode", 1, 1), ("key_length", 2, 2), ("extras_length", 4, 1), ("data_type", 5, 1), ("vbucket_id", 6, 2), ("body_length", 8, 4), ("opaque", 12, 4), ("cas", 16, 8)]


def decode_paths(ctx, state):
    key = "decode_paths:" + state
    if key not in ctx._cache:
        f = ctx.facts
        b = f.one(DECODE)
        I = Interp(f, models=BUF_MODELS)
        ctx._cache[key] = (b, I.run(b, [dispatch.codec_self(None, state=state), P("src")]))
    return ctx._cache[key]


def consumed(p, buf=P("src")):
    return buf_state(p.state, buf)[0]


def r1(ctx):
    rep = Report("C09.R1", "the request header is exactly 24 bytes: nine big-endian reads at the protocol's offsets, assigned to the protocol's fields; the length guard uses the same 24", floor=10)
    f = ctx.facts
    # decided on the public decode: a fresh codec is given exactly one well-formed header whose (small) body has not arrived;
    # the path that answers "need more bytes" has consumed the header and recorded its fields — however the bytes are read
    # (get_uN calls, or a 24-byte view indexed byte by byte and advanced past)
    b = f.one(DECODE)
    rep.analysed(b)
    I = Interp(f, models=BUF_MODELS)
    src = P("src")

    def seeds(st):
        assume(st, {("len0", src): 1}, eq=24)
        assume(st, {("bufread", src, 0, 1): 1}, eq=0x80)
        assume(st, {("bufread", src, 1, 1): 1}, eq=0)
        assume(st, {("bufread", src, 5, 1): 1}, eq=0)
        assume(st, {("bufread", src, 8, 4): 1}, lo=1, hi=100)
        assume(st, {F(P("self"), "item_size_limit"): 1}, lo=1000, hi=2**32 - 1)

    paths = I.run(b, [dispatch.codec_self(None, state="None"), src], seeds=seeds)
    rep.evaluations += len(paths)
    done = False
    for p in paths:
        if dispatch.outcome_of(p.ret) != "None" or p.cut:
            continue
        hdr = p.state.mem.get(("L", 1, 1))  # the codec value after the call (decode's own frame, its self argument)
        hv = hdr.get("header") if isinstance(hdr, Struct) else None
        if hv is None or done:
            continue
        done = True
        rep.check(consumed(p) == 24, "header:24-bytes", "the header takes 24 bytes of the stream", "reading the header consumes %s bytes (the binary protocol header is 24 bytes)" % short(consumed(p)), b.loc())
        for name, off, w in HEADER_FIELDS:
            v = field_of(hv, name) if hv is not None else None
            if isinstance(v, int) and (name, v) in (("magic", 0x80), ("opcode", 0), ("data_type", 0)):
                ok = True  # folded to the seeded value of that very byte
            else:
                ok = v == ("bufread", src, off, w)
            rep.check(ok, "header:" + name, "%s = bytes[%d..%d]" % (name, off, off + w), "header field %s is read from %s (protocol: offset %d, %d bytes)" % (name, short(v, 80), off, w), b.loc())
    if not done:
        rep.bad("header:no-read-path", "cannot find the path of decode that reads a header and waits for its body", b.loc())
    # the guard: with 23 bytes buffered nothing is read; with 24 the header is read
    d = f.one(DECODE)
    for n, expect_read in ((23, False), (24, True)):
        def seeds2(st, n=n):
            assume(st, {("len0", P("src")): 1}, eq=n)

        ps = Interp(f, models=BUF_MODELS).run(d, [dispatch.codec_self(None, state="None"), P("src")], seeds=seeds2)
        any_read = any(consumed(p) != 0 for p in ps)
        all_none = all(dispatch.outcome_of(p.ret) == "None" for p in ps)
        if expect_read:
            rep.check(any_read, "guard:24-bytes-buffered", "24 buffered bytes are enough to parse the header", "with exactly 24 bytes buffered decode does not parse the header: a complete header-only request is never recognised", d.loc())
        else:
            rep.check((not any_read) and all_none, "guard:23-bytes-buffered", "23 buffered bytes: wait, consume nothing", "with 23 bytes buffered decode consumes bytes or does not ask for more: a header split across reads is misparsed", d.loc())
    return rep


def r2(ctx):
    rep = Report("C09.R2", "every decoded request consumes exactly 24 + body_length bytes of the connection buffer (affine byte accounting on all paths)", floor=27)
    d = ctx.facts.one(DECODE)
    rep.analysed(d)
    for state in ("None", "HeaderParsed"):
        b, paths = decode_paths(ctx, state)
        rep.evaluations += len(paths)
        want = lin_add(24, ("bufread", P("src"), 8, 4), 1) if state == "None" else F(HF, "body_length")
        seen = {}
        for p in paths:
            o = dispatch.outcome_of(p.ret)
            if not o.startswith("Some:") or o == "Some:ItemTooLarge":
                continue
            c = consumed(p)
            from rules.c13 import simplify_trunc

            diff = lin_add(simplify_trunc(c), simplify_trunc(want), -1)
            ok = diff == 0 or tform(c) == tform(want)
            if not ok:
                # equal under the path's own guards? (e.g. nothing left to drop because key_length == body_length)
                ok = Interp(ctx.facts).decide_cmp(p.state, "Eq", simplify_trunc(c), simplify_trunc(want)) is True
            k = "consumed[%s]:%s" % ("fresh" if state == "None" else "header-parsed", o[5:])
            prev = seen.get(k)
            if prev is None:
                seen[k] = (ok, c)
            elif prev[0] and not ok:
                seen[k] = (False, c)
        for k, (ok, c) in sorted(seen.items()):
            rep.check(ok, k, "consumes %s" % short(want), "request decoded after consuming %s bytes of the stream, its header announces %s: the surplus/missing bytes are parsed as the next request (request smuggling / desynchronisation)" % (short(c, 120), short(want)), d.loc())
            rep.sample({"variant": k, "consumed": short(c, 120)})
    return rep


def r3(ctx):
    rep = Report("C09.R3", "Ok(None) = 'need more bytes' only: under a length comparison, nothing consumed but a recorded header; no re-read of the header on re-entry", floor=3)
    f = ctx.facts
    d = f.one(DECODE)
    for state in ("None", "HeaderParsed"):
        b, paths = decode_paths(ctx, state)
        n = 0
        for p in paths:
            if dispatch.outcome_of(p.ret) != "None":
                continue
            n += 1
            c = consumed(p)
            len_cmp = any(("len0", P("src")) in atoms(cnd) for cnd, _t, _s, _at in p.state.pc)
            st = p.state.mem.get(("L", 1, 1))
            stv = st.get("state") if isinstance(st, Struct) else None
            state_now = stv.variant if isinstance(stv, Struct) else None
            inner = [x for e in p.events for x in e.ctx if x.endswith("::parse_request")]
            from_parse_request = any(x for x in [cnd for cnd, _t, s, _at in p.state.pc if s and s[0].endswith("::parse_request")])
            if state == "None" and c == 0:
                rep.check(len_cmp and state_now == "None", "none[fresh,nothing-consumed]", "fewer than 24 bytes buffered: wait", "Ok(None) with nothing consumed is not guarded by a buffer-length test", d.loc())
            elif (state == "None" and c == 24) or (state == "HeaderParsed" and c == 0):
                # header consumed (now or earlier): must be waiting for the body, with the parse state kept
                body_wait = False
                for cnd, truth, _s, _at in p.state.pc:
                    a = atoms(cnd)
                    if ("len0", P("src")) in a and (("bufread", P("src"), 8, 4) in a or F(HF, "body_length") in a):
                        body_wait = True
                last_site = p.state.pc[-1][2][0] if p.state.pc and p.state.pc[-1][2] else ""
                in_pr = (CODEC + "::parse_request") in p.state.entered
                k = "none[%s]" % ("header-just-parsed" if state == "None" else "header-parsed-earlier")
                if in_pr:
                    rep.bad(k + ":from-parse_request", "Ok(None) is produced below parse_request (a recognised opcode yields 'no frame'): the request is dropped without an answer and its body is parsed as the next header", d.loc())
                elif state_now != "HeaderParsed":
                    rep.bad(k + ":state-lost", "Ok(None) after the header was consumed but the parser state is %s: the next call parses body bytes as a header" % state_now, d.loc())
                else:
                    rep.check(body_wait, k, "waiting for the rest of the body (state kept)", "Ok(None) with a consumed header is not guarded by 'body_length > buffered bytes'", d.loc())
            else:
                rep.bad("none[%s]:consumed-%s" % (state, short(c, 40)), "Ok(None) returned after consuming %s bytes: bytes are lost when the decoder asks for more input" % short(c, 60), d.loc())
        if state == "HeaderParsed":
            reread = any(e.kind == "buf" and e.extra.get("op") == "read" and any(x.endswith("::parse_header") for x in e.ctx) for p in paths for e in p.events)
            rep.check(not reread, "reentry:no-header-reread", "with the header parsed, decode does not read a header again", "decode re-reads a header although one is already parsed (body bytes taken for a header)", d.loc())
    return rep


def r4(ctx):
    rep = Report("C09.R4", "every completed frame resets the parser (state = None, header cleared)", floor=27)
    d = ctx.facts.one(DECODE)
    seen = {}
    for state in ("None", "HeaderParsed"):
        b, paths = decode_paths(ctx, state)
        for p in paths:
            o = dispatch.outcome_of(p.ret)
            if not o.startswith("Some:"):
                continue
            st = p.state.mem.get(("L", 1, 1))
            stv = st.get("state") if isinstance(st, Struct) else None
            hv = st.get("header") if isinstance(st, Struct) else None
            stale = [a for a in atoms(hv) if isinstance(a, tuple) and a and (a[0] == "bufread" or a == HF or a == P("self"))]
            ok = isinstance(stv, Struct) and stv.variant == "None" and hv is not None and not stale
            k = "reset:%s" % o[5:]
            seen[k] = ok and seen.get(k, True)
    for k, ok in sorted(seen.items()):
        rep.check(ok, k, "parser reset after the frame", "a %s frame is returned without resetting the parser state: the next request's header is skipped" % k[6:], d.loc())
    return rep


READ_FRAME = CONN + "::read_frame::{closure#0}"


def m_decode_opaque(kind):
    def m(I, st, t, args, site, depth):
        from absint import Event, Ok, Some, NoneV, mk

        st.events.append(Event("call", "decode", [I.snapshot(st, a) for a in args], site, t.span, tuple(I.ctx), ("decoded",)))
        if kind == "none":
            return [(st, Ok(NoneV()))]
        if kind == "toolarge":
            req = Struct(BREQ, "ItemTooLarge", 26, OrderedDict([("0", P("request"))]))
            return [(st, Ok(Some(req)))]
        if kind == "frame":
            return [(st, Ok(Some(("frame",))))]
        return None

    return m


def conn_opaque(body, args):
    if body.path.startswith(CONN + "::") and body.name in ("skip_bytes", "write", "shutdown", "write_data_to_stream"):
        return "opaque"
    return "inline"


def r5(ctx):
    rep = Report("C09.R5", "connection layer keeps bytes: the buffer is touched only by decode / read_buf / the oversized-item arm; EOF + empty buffer -> Ok(None), EOF + residue -> Err; a decoded frame is returned as is", floor=4)
    f = ctx.facts
    b = f.one(READ_FRAME)
    rep.analysed(b)
    BUFT = F(P("self"), "buffer")
    cor = ClosureV(READ_FRAME, [P("self")], "coroutine")
    # (a) decode yields nothing -> read_buf -> EOF handling
    models = dict(BUF_MODELS)
    models[DECODE.replace("<" + CODEC + " as tokio_util::codec::Decoder>", "tokio_util::codec::Decoder")] = m_decode_opaque("none")
    models["tokio_util::codec::Decoder::decode"] = m_decode_opaque("none")
    for empty in (True, False):
        def seeds(st, empty=empty):
            if empty:
                assume(st, {("len0", BUFT): 1}, eq=0)
            else:
                assume(st, {("len0", BUFT): 1}, lo=1)

        I = Interp(f, models=models, policy=conn_opaque, loop_bound=1)
        paths = I.run(b, [cor, P("cx")], seeds=seeds)
        rep.evaluations += len(paths)
        outs = set()
        for p in paths:
            aw = [e for e in p.events if e.kind == "await"]
            rb = [e for e in aw if "read_buf" in repr(tform(e.args[0]))]
            if not rb:
                continue
            res = rb[0].result
            # EOF: the await result compared equal to 0
            key, _ = canon({("field", ("as", res, "Ok"), "0"): 1})
            iv = p.state.iv.get(key)
            if iv is None or iv.decide("Eq", 0) is not True:
                continue
            if p.cut:
                continue
            var, pl = variant_of(p.ret)
            outs.add("Ok(None)" if (var == "Ok" and variant_of(pl)[0] == "None") else ("Err" if var == "Err" else short(p.ret, 60)))
        k = "eof[%s]" % ("buffer-empty" if empty else "residue")
        want = {"Ok(None)"} if empty else {"Err"}
        rep.check(outs == want, k, "EOF with %s -> %s" % ("an empty buffer" if empty else "buffered residue", sorted(want)[0]), "EOF with %s returns %s (must be %s): %s" % ("an empty buffer" if empty else "a partial request buffered", sorted(outs), sorted(want)[0], "a clean close is reported as an error" if empty else "a truncated request is treated as a clean end / executed"), b.loc())
    # (b) a decoded frame is returned unchanged, no buffer surgery
    models2 = dict(models)
    models2["tokio_util::codec::Decoder::decode"] = m_decode_opaque("frame")
    I = Interp(f, models=models2, policy=conn_opaque, loop_bound=1)
    paths = I.run(b, [cor, P("cx")])
    okf = False
    for p in paths:
        if p.cut:
            continue
        var, pl = variant_of(p.ret)
        if var == "Ok" and variant_of(pl)[0] == "Some" and p.state.discr.get(("frame",)) != 26:
            frame = variant_of(pl)[1]
            touched = [e for e in p.events if e.kind == "buf" and e.extra.get("buf") == BUFT and e.extra.get("op") not in (None,)]
            okf = frame == ("frame",) and not touched
            if not okf:
                break
    rep.check(okf, "frame-returned-as-is", "a decoded frame is returned unchanged and the buffer is left to the decoder", "read_frame alters the buffer or the frame after a successful decode", b.loc())
    # (c) every decoded frame is handed to the caller: once decode has produced a request, read_frame returns it (or an
    # error) — it never goes back to reading, which would drop the request without an answer
    for kind in ("frame", "toolarge"):
        models3 = dict(models)
        models3["tokio_util::codec::Decoder::decode"] = m_decode_opaque(kind)
        I = Interp(f, models=models3, policy=conn_opaque, loop_bound=1)
        dropped = None
        n = 0
        for p in I.run(b, [cor, P("cx")]):
            if kind == "frame" and p.state.discr.get(("frame",)) == 26:
                continue  # the oversized arm is the other case
            n += 1
            var, pl = variant_of(p.ret)
            decodes = [e for e in p.events if e.kind == "call" and e.name == "decode"]
            reads = [e for e in p.events if e.kind == "buf" and e.name == "read_buf" and e.extra.get("buf") == BUFT]
            if p.cut or len(decodes) != 1 or reads:
                dropped = "goes back to reading the socket / decoding again"
            elif var == "Ok" and variant_of(pl)[0] != "Some":
                dropped = "returns 'no frame'"
            elif var == "Ok" and kind == "toolarge":
                fr = variant_of(pl)[1]
                if not (isinstance(fr, Struct) and fr.variant == "ItemTooLarge" and P("request") in atoms(tform(fr))):
                    dropped = "returns %s instead of the oversized request" % short(fr, 50)
        rep.check(dropped is None and n > 0, "decoded-frame-is-returned[%s]" % ("request" if kind == "frame" else "oversized"), "a decoded %s is returned to the caller" % ("request" if kind == "frame" else "oversized request (after its body was discarded)"), "after decode produced %s, read_frame %s: the request is dropped without an answer" % ("a request" if kind == "frame" else "an oversized request", dropped or "has no path"), b.loc())
    # (c) census: who touches the connection buffer
    users = set()
    for body in f.bodies.values():
        if body.crate != "memcrs.lib":
            continue
        for blk in body.blocks:
            for s in blk.stmts:
                if s.k == "assign" and s.rv.k == "ref" and s.rv.place.fields()[-1:] == ("buffer",) and "MemcacheBinaryConnection" in body.path:
                    users.add(body.root or body.path)
    # allowed: the constructor, read_frame, and private helpers that are called from read_frame only
    import callgraph

    cg = callgraph.get(ctx)

    def root_of(p):
        b2 = f.bodies.get(p)
        return (b2.root or b2.path) if b2 is not None else p

    def only_from_read_frame(fn, seen=None):
        seen = seen or set()
        if fn in seen:
            return True
        seen.add(fn)
        if fn in (CONN + "::read_frame", CONN + "::new"):
            return True
        callers = set(root_of(bp) for bp, _bb, t in cg.callers_of(lambda c: (c.resolved or c.path) == fn))
        if not callers:
            return False
        return all(only_from_read_frame(c, seen) for c in callers)

    for u in sorted(users):
        rep.check(only_from_read_frame(u), "buffer-user:" + u, "connection buffer used by read_frame (and its private helpers) only", "the connection buffer is accessed in %s, which is not part of read_frame: bytes can be consumed or dropped outside the decoder loop" % u)
    return rep


RULES = [("C09.R1", r1), ("C09.R2", r2), ("C09.R3", r3), ("C09.R4", r4), ("C09.R5", r5)]
