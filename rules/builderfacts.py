"""What the two runtime builders actually construct, extracted by abstract interpretation (robust to helper
extraction): the MemcacheServerConfig handed to MemcacheTcpServer::new, the store handed to it, the address handed
to run(), and where the thread count goes."""
from rules.common import *  # noqa: F401,F403
from rules.storefacts import field_of

RB = "memcrs::memcache_server::runtime_builder::"
BUILDERS = ("create_current_thread_server", "create_threadpool_server")


def builder_facts(ctx, fn):
    key = "builder_facts:" + fn
    if key in ctx._cache:
        return ctx._cache[key]
    f = ctx.facts
    b = f.one(RB + fn)

    def pol(body, args):
        if body.path in (SERVER + "::new", SERVER + "::run", RB + "create_multi_thread_runtime", RB + "create_current_thread_runtime"):
            return "opaque"
        return "inline"

    I = Interp(f, policy=pol, loop_bound=1)
    paths = I.run(b, [P("config"), P("store")])
    out = {"news": [], "runs": [], "mt_runtime": [], "thread_spawns": 0, "paths": len(paths), "range_ends": [], "body": b}
    for p in paths:
        for e in p.events:
            if e.kind != "call":
                continue
            if e.name == SERVER + "::new":
                out["news"].append((e.args[0], e.args[1], e))
            elif e.name == SERVER + "::run":
                out["runs"].append((e.args[1], e))
            elif e.name == RB + "create_multi_thread_runtime":
                out["mt_runtime"].append(e.args[0])
            elif e.name == "std::thread::spawn":
                out["thread_spawns"] += 1
            elif e.name.endswith("into_iter") and isinstance(e.args[0], Struct) and (e.args[0].adt or "").endswith("ops::Range"):
                out["range_ends"].append(e.args[0].get("end"))
    ctx._cache[key] = out
    return out
