"""C03 — concurrent get/set/CAS-set/delete on a key are atomic (lock spans)."""
from rules.common import *  # noqa: F401,F403
from rules import storefacts
from rules.storefacts import field_of

LEVEL_TEXT = (
    'Static lock-span check: the only synchronisation between connections is the DashMap shard lock, so a store '
    'operation is atomic only if every map write that depends on an earlier map read of the same key happens under '
    'the same guard, or re-validates the observation under the lock (remove_if/alter predicate with a version '
    'witness, entry API). R1 enumerates, per path of every MemoryStore method (and of the get the store actually '
    "runs: its own override or the trait's default instantiated at MemoryStore), the (read, dependent write) pairs on "
    'one key and requires each to be tied; R2 requires the CAS comparison and the replacement of MemoryStore::set to '
    'go through one guard; R3 requires token allocation to be a single atomic read-modify-write: on every path of '
    'every store method the only operation on the cas counter is one fetch_add(1); R4 the policy layer performs at '
    "most one mutation of the command's key per call. A fixture shows R1 can fire. Not decided: linearizability of "
    "whole histories, DashMap's own correctness, memory ordering."
)
ASSUMPTIONS = [
    "DashMap 5.5.3 semantic table (analysis/storemodel.py): get/get_mut/entry hold the shard lock while their guard lives; remove_if/alter run the closure under the lock",
    "a map write that is control- or data-dependent on a separately locked read of the same key is a race window in every schedule that puts a conflicting command between the two (necessary-condition argument)",
]

STORE_METHODS = [
    ("set", CACHE, ["self", "key", "record"]),
    ("delete", CACHE, ["self", "key", "header"]),
    ("remove", CACHE, ["self", "key"]),
    ("flush", CACHE, ["self", "header"]),
    ("get_by_key", IMPLD, ["self", "key"]),
    ("check_if_expired", IMPLD, ["self", "key", "record"]),
]


def mutating(e):
    if e.kind == "map":
        if e.extra.get("write") or e.extra.get("removes"):
            return True
        if e.name == "remove_if" and e.extra.get("removed"):
            return True
        if e.name == "alter_all":
            return True
    if e.kind == "write" and lookup_of(e.args[0]) is not None:
        return True
    return False


def reading(e):
    return e.kind == "map" and e.name in ("get", "get_mut", "entry") or (e.kind == "map" and e.name in ("len", "is_empty", "contains_key", "iter"))


def key_of(e):
    if e.kind == "map":
        return e.extra.get("key")
    if e.kind == "write":
        lk = lookup_of(e.args[0])
        if lk is not None and lk[0] == "lookup":
            return lk[3]
    return None


def untied_pairs(p):
    """(R, W, why) triples on this path: W depends on R, same key, not under one guard and not re-validated"""
    out = []
    evs = p.events
    for j, W in enumerate(evs):
        if not mutating(W):
            continue
        wkey = key_of(W)
        for i in range(j):
            R = evs[i]
            if not reading(R):
                continue
            rres = R.extra.get("result")
            rkey = key_of(R)
            if rkey is not None and wkey is not None and rkey != wkey:
                continue
            # dependence: a branch between R and W on something derived from R, or W's value derived from R
            dep = None
            for c, truth, _site, at in p.state.pc:
                if i < at <= j and rres in atoms(c):
                    dep = "the write is guarded by a branch on what the read returned"
                    break
            if dep is None:
                wv = W.extra.get("value") if W.kind == "map" else W.args[2]
                if wv is not None and rres in atoms(wv):
                    dep = "the written value is computed from what the read returned"
            if dep is None and W.kind == "map" and W.name == "remove_if" and rres in atoms(W.extra.get("pred")):
                dep = "predicate uses the read"
            if dep is None:
                continue
            # ties
            via = W.extra.get("via") if W.kind == "map" else W.args[0]
            if via is not None and lookup_of(via) == rres:
                continue  # written through the guard/entry of R itself: one lock span
            if W.kind == "map" and W.name in ("remove_if", "alter") and rres in atoms(W.extra.get("pred")):
                # re-validated under the lock -- but is the re-validation able to tell a newer version apart?
                why = weak_revalidation(p, i, j, R, W)
                if why:
                    out.append((R, W, why))
                continue
            out.append((R, W, dep))
    return out


TOKENS_UNIQUE = [None]


def weak_revalidation(p, i, j, R, W):
    """A removal that re-validates an earlier read must compare a witness that differs for every newer version
    of the item: the store timestamp (a newer version of an *expired* item is stamped later), or the cas token
    provided every stored token comes from the global counter (C02.R3).  Returns a reason string if it does not."""
    stored = W.extra.get("stored")
    rres = R.extra.get("result")
    if stored is None:
        return None
    conds = [c for c, truth, _s, at in p.state.pc if i < at and truth is True] + [W.extra.get("pred")]
    fields = set()
    for c in conds:
        for a in atoms(c):
            if isinstance(a, tuple) and a[0] == "cmp" and a[1] == "Eq":
                for x, y in ((a[2], a[3]), (a[3], a[2])):
                    if isinstance(x, tuple) and x[:2] == ("field", ("field", stored, "header")) and rres in atoms(y):
                        if isinstance(y, tuple) and y[0] == "field" and y[2] == x[2]:
                            fields.add(x[2])
    # a removal that goes ahead when a version field of the stored record DIFFERS from the judged one removes exactly the
    # newer versions it must spare
    differs = set()
    for c, truth, _s, at in p.state.pc:
        if at <= i:
            continue
        for a in [c] + list(atoms(c)):
            if isinstance(a, tuple) and a and a[0] == "cmp" and a[1] in ("Eq", "Ne"):
                want_ne = (a[1] == "Ne" and truth is True and a is c) or (a[1] == "Eq" and truth is False and a is c)
                if not want_ne:
                    continue
                for x, y in ((a[2], a[3]), (a[3], a[2])):
                    if isinstance(x, tuple) and x[:2] == ("field", ("field", stored, "header")) and x[2] in ("cas", "timestamp") and rres in atoms(y):
                        differs.add(x[2])
    if differs and W.extra.get("removed"):
        return "the removal goes ahead when the stored record's %s DIFFERS from the record that was judged: it removes a newer version of the item (an acknowledged store) and leaves the judged one" % sorted(differs)
    if "timestamp" in fields:
        return None
    if "cas" in fields and TOKENS_UNIQUE[0]:
        return None
    return "the removal is re-validated under the lock only by comparing %s of the stored record with the record that was judged; that does not tell a newer version apart (a CAS-store on an absent key issues the client-chosen token cas+1, so a re-created item can carry the same token): the acknowledged newer store is removed" % (sorted(fields) or "nothing version-specific")


def analyse_method(f, body, args, dyn_impl=None):
    I = store_interp(f, dyn_impl=dyn_impl or {})
    return I.run(body, [P(a) for a in args])


def r1(ctx):
    rep = Report("C03.R1", "no check-then-act inside the store: every map write that depends on an earlier read of the same key is under that read's guard or re-validates it under the lock", floor=8)
    f = ctx.facts
    from rules.c02 import is_counter_token

    uniq = True
    for sp in storefacts.set_paths(ctx):
        for w in map_writes(sp):
            if not is_counter_token(field_of(w["value"], "header", "cas"), ctx):
                uniq = False
    TOKENS_UNIQUE[0] = uniq
    subjects = []
    for meth, trait, args in STORE_METHODS:
        subjects.append(("MemoryStore::" + meth, f.one(ms(meth, trait)), args, None))
    dyn = {IMPLD + "::get_by_key": ms("get_by_key", IMPLD), IMPLD + "::check_if_expired": ms("check_if_expired", IMPLD)}
    # the get that MemoryStore actually runs: its own override if it has one, else the trait's default body
    gbody, gmap = impl_or_default(f, MS, "get")
    subjects.append(("Cache::get@MemoryStore", gbody, ["self", "key"], dict(dyn, **gmap)))
    for name, body, args, dyn_impl in subjects:
        rep.analysed(body)
        paths = analyse_method(f, body, args, dyn_impl)
        rep.evaluations += len(paths)
        found = {}
        nmut = 0
        for p in paths:
            nmut += sum(1 for e in p.events if mutating(e))
            for R, W, dep in untied_pairs(p):
                k = "%s:%s->%s" % (name, R.name, W.name if W.kind == "map" else "guard-write")
                found[k] = (R, W, dep)
        if not found:
            rep.ok(name, "%d paths, %d map mutations, none depends on a separately locked read" % (len(paths), nmut), body.loc())
        for k, (R, W, dep) in sorted(found.items()):
            rep.bad(k, "check-then-act: %s of the key (lock released) and then %s — %s; a conflicting command of another connection can run between the two" % (R.name, W.name if W.kind == "map" else "write", dep), loc_s(W.span))
    # the rule can fire: fixture
    from rules import c16

    fx = c16.fixture_facts(ctx)
    fb = fx.one("memc_fixtures::Store::check_then_insert")
    paths = store_interp(fx).run(fb, [P("self"), P("key"), P("v")])
    hit = any(untied_pairs(p) for p in paths)
    rep.check(hit, "fixture:check_then_insert:fires", "positive fixture (get_mut -> None -> insert) is flagged", "positive fixture is NOT flagged: rule is vacuous (checker defect)")
    return rep


def r2(ctx):
    rep = Report("C03.R2", "MemoryStore::set: the CAS comparison reads through the same guard/entry that the replacement writes through", floor=1)
    f = ctx.facts
    b = f.one(ms("set"))
    n = 0
    for p in storefacts.set_paths(ctx):
        if storefacts.req_cas_case(p) != "cas!=0" or storefacts.presence_case(p) != "present" or storefacts.cas_match_case(p) != "=":
            continue
        for w in map_writes(p):
            n += 1
            via = w["via"]
            root = lookup_of(via) if via is not None else None
            cmp_root = None
            for c, truth, _s, _at in p.state.pc:
                if isinstance(c, tuple) and c and c[0] == "cmp" and storefacts.REQ_CAS in (c[2], c[3]):
                    other = c[3] if c[2] == storefacts.REQ_CAS else c[2]
                    cmp_root = lookup_of(other)
            rep.check(root is not None and root == cmp_root, "set:compare-and-replace-one-guard", "compare and replace go through one lookup guard (%s)" % (root[1] if root else "?"), "the CAS comparison and the replacement of MemoryStore::set do not go through the same guard: two CAS-stores with the same token can both succeed", loc_s(w["event"].span))
    if n == 0:
        rep.bad("set:no-matched-write", "cannot locate the matched-CAS replacement in MemoryStore::set", b.loc())
    return rep


def r3(ctx):
    rep = Report("C03.R3", "the CAS counter is advanced by a single atomic read-modify-write", floor=2)
    f = ctx.facts
    from rules import roles

    R = roles.get(ctx)
    counter = (F(P("self"), R.ms_cas), ("deref", F(P("self"), R.ms_cas)))
    # every operation on the counter, on every path of every MemoryStore method (helpers inlined): only fetch_add(1), and at
    # most one per store — a load/compute/store sequence (or two RMWs) lets two stores obtain the same token
    n_ops = 0
    for b in sorted((x for x in f.bodies.values() if x.impl_self == MS and x.kind == "assoc_fn" and x.impl_trait in (CACHE, IMPLD)), key=lambda x: x.path):
        rep.analysed(b)
        argn = [b.local_name(i) or "a%d" % i for i in b.arg_locals()]
        for p in store_interp(f, loop_bound=1).run(b, [P("self")] + [P(n) for n in argn[1:]]):
            ops = [e for e in p.events if e.kind == "call" and "tomic" in e.name and e.args and tform(e.args[0]) in counter]
            n_ops += len(ops)
            names = [e.name.split("::")[-1] for e in ops]
            ok = all(n == "fetch_add" for n in names) and len(ops) <= 1 and all(e.args[1] == 1 for e in ops)
            rep.check(ok, "get_cas_id:single-fetch_add", "token allocation = one fetch_add(1) on the cas counter", "a path of MemoryStore::%s operates on the cas counter with %s: the token is not allocated by a single atomic fetch_add(1), two stores can be handed the same token" % (b.name, names), b.loc())
    rep.check(n_ops > 0, "cas-counter:used", "%d counter operations examined" % n_ops, "no operation on the cas counter found on any path of MemoryStore (cannot decide how tokens are allocated)", safe_loc(f, ms("set")))
    # census: the counter field is referenced only inside MemoryStore's own code
    fld = R.ms_cas
    for body in f.bodies.values():
        if body.crate != "memcrs.lib":
            continue
        for bi, blk in enumerate(body.blocks):
            for s in blk.stmts:
                if s.k == "assign" and s.rv.k == "ref" and s.rv.place is not None and s.rv.place.fields()[-1:] == (fld,) and MS in body.local_ty(s.rv.place.local):
                    own = (body.impl_self == MS) or body.path.startswith(MS + "::") or (body.root or "").startswith(MS + "::") or (body.root or "").startswith("<" + MS)
                    rep.check(own, "cas_id-access:" + body.path, "cas counter touched only by MemoryStore", "the cas counter is accessed in %s (outside MemoryStore)" % body.path, loc_s(s.span))
    return rep


POLICY_MUTATORS = ("set", "delete", "remove", "flush")


def r4(ctx):
    rep = Report("C03.R4", "the policy layer keeps single-key commands atomic: at most one mutation of the command's key per call, reads add none", floor=4)
    f = ctx.facts
    for meth, args in (("set", ["self", "key", "record"]), ("delete", ["self", "key", "header"]), ("remove", ["self", "key"]), ("get", ["self", "key"])):
        b, dyn = impl_or_default(f, RP, meth)
        rep.analysed(b)
        I = Interp(f, loop_bound=1, self_impl=dyn)
        paths = I.run(b, [P(a) for a in args])
        worst = 0
        names = []
        for p in paths:
            muts = [e for e in p.events if e.kind == "call" and (e.name.startswith(CACHE + "::") or e.name.startswith(IMPLD + "::")) and e.name.split("::")[-1] in POLICY_MUTATORS and len(e.args) > 1 and P("key") in atoms(e.args[1])]
            if len(muts) > worst:
                worst = len(muts)
                names = [e.name.split("::")[-1] for e in muts]
        limit = 0 if meth == "get" else 1
        rep.check(worst <= limit, "RandomPolicy::%s:one-mutation-of-the-key" % meth, "%d mutation(s) of the key" % worst, "RandomPolicy::%s performs %s on the command's key as separately locked steps: between them another connection sees the key absent / in an intermediate state (a plain set or delete is no longer atomic)" % (meth, " then ".join(names)), b.loc())
    return rep


RULES = [("C03.R1", r1), ("C03.R2", r2), ("C03.R3", r3), ("C03.R4", r4)]
