"""C20 — behaviour is the same under every runtime configuration (configuration plumbing clauses)."""
from collections import OrderedDict

from rules.common import *  # noqa: F401,F403
from rules.storefacts import field_of
from rules.c13 import chase_mentions, is_cli_item_limit
from rules.c17 import chase_calls, natural_loop
import callgraph
from rules import builderfacts

LEVEL_TEXT = (
    'Only the configuration-plumbing clauses have a static form; equality of behaviour across runtimes is NOT '
    'decided. R1 every option reaches its consumer, in both runtime builders (siblings must agree): listen '
    'address/port -> SocketAddr::new -> run(addr); connection limit, item size limit, backlog, timeout -> the '
    'matching (all-u32) constructor arguments of MemcacheServerConfig; from there, composed end to end through '
    'MemcacheTcpServer::new -> run -> Client::new -> Client::handle: the idle timeout around every read is '
    "Duration::from_secs(server config timeout) — the same pure function of that one value on every path, so it cannot "
    "depend on another option or on the load — and listen() gets the server config's backlog; threads -> "
    'worker_threads resp. the listener-thread loop bound; memory limit and eviction policy -> the store config; R2 '
    'one store: from_config (-> MemoryStore::new) runs once, outside any loop or thread closure, and every server '
    'gets a clone of that value; R3 parser tables: eviction policy names, runtime-type dispatch to the matching '
    'builder; R4 one clock, driven in both modes: main builds one SystemTimer, hands a clone to the store and '
    "unconditionally block_on's its run() on the runtime returned for either mode; run ticks an interval of 1 s that "
    "keeps tokio's catch-up behaviour (no tick is dropped) and each tick advances the same atomic that timestamp() "
    'loads. Not decided: SO_REUSEPORT behaviour, real-time accuracy, response equality across runtimes.'
)
ASSUMPTIONS = ["tokio interval_at(start, d).tick() fires once per elapsed period d when the missed-tick behaviour is the default Burst (late ticks are caught up), and drops or shifts ticks under Skip/Delay", "clap assigns each parsed option to the struct field of the same name"]

RB = "memcrs::memcache_server::runtime_builder::"
SCFG = "memcrs::memcache_server::memc_tcp::MemcacheServerConfig::new"
BUILDERS = ("create_current_thread_server", "create_threadpool_server")


def find_call(b, suffix):
    return [(bb, t) for bb, t in b.calls() if strip_generics(t.callee.path or "").endswith(suffix)]


def r1(ctx):
    rep = Report("C20.R1", "options reach their consumers in both runtime builders (sibling agreement)", floor=14)
    f = ctx.facts
    from rules import builderfacts

    for fn in BUILDERS:
        bf = builderfacts.builder_facts(ctx, fn)
        b = bf["body"]
        rep.analysed(b)
        if not bf["news"]:
            rep.bad("%s:server-config" % fn, "%s builds no MemcacheTcpServer" % fn, b.loc())
            continue
        cfgs = [cfg for cfg, _st, _e in bf["news"]]
        rep.check(all(field_of(c, "timeout_secs") == 60 for c in cfgs), "%s:timeout" % fn, "timeout 60 s", "%s configures a %s s idle timeout (60 s in the sibling / documented)" % (fn, short(field_of(cfgs[0], "timeout_secs"), 20)), b.loc())
        rep.check(all(field_of(c, "connection_limit") == F(P("config"), "connection_limit") for c in cfgs), "%s:connection_limit" % fn, "connection_limit <- args.connection_limit", "%s passes %s as connection_limit" % (fn, short(field_of(cfgs[0], "connection_limit"), 60)), b.loc())
        rep.check(all(is_cli_item_limit(field_of(c, "item_memory_limit")) for c in cfgs), "%s:item_size_limit" % fn, "item_memory_limit <- args.item_size_limit", "%s passes %s as item_memory_limit" % (fn, short(field_of(cfgs[0], "item_memory_limit"), 60)), b.loc())
        rep.check(all(field_of(c, "listen_backlog") == F(P("config"), "backlog_limit") for c in cfgs), "%s:backlog" % fn, "listen_backlog <- args.backlog_limit", "%s passes %s as listen_backlog" % (fn, short(field_of(cfgs[0], "listen_backlog"), 60)), b.loc())
        rep.check(bool(bf["runs"]), "%s:run" % fn, "the server is started", "%s never starts the server" % fn, b.loc())
        okaddr = bool(bf["runs"])
        for addr, _e in bf["runs"]:
            a = tform(addr)
            if not (isinstance(a, tuple) and a[0] == "call" and a[1] == "std::net::SocketAddr::new" and a[3] == (F(P("config"), "listen_address"), F(P("config"), "port"))):
                okaddr = False
        rep.check(okaddr, "%s:run(addr)" % fn, "run(SocketAddr::new(args.listen_address, args.port))", "%s runs the server on %s, not on the configured address and port" % (fn, short(bf["runs"][0][0], 80) if bf["runs"] else "?"), b.loc())
    # threads
    bf = builderfacts.builder_facts(ctx, "create_threadpool_server")
    rep.check(bool(bf["mt_runtime"]) and all(x == F(P("config"), "threads") for x in bf["mt_runtime"]), "threadpool:threads", "worker pool sized by args.threads", "the multi-thread runtime is not sized by the CLI thread count", bf["body"].loc())
    mb = f.one(RB + "create_multi_thread_runtime")
    wt = find_call(mb, "worker_threads")
    rep.check(len(wt) == 1 and chase_param(mb, wt[0][1].args[1], 1), "multi_thread_runtime:worker_threads", "Builder::worker_threads(<- parameter)", "create_multi_thread_runtime does not pass its argument to worker_threads", mb.loc())
    bf = builderfacts.builder_facts(ctx, "create_current_thread_server")
    rep.check(bool(bf["range_ends"]) and all(x == F(P("config"), "threads") for x in bf["range_ends"]) and bf["thread_spawns"] > 0, "current_thread:threads", "one listener thread per args.threads", "the number of listener threads is not the CLI thread count", bf["body"].loc())
    # timeout and backlog plumbing, composed through MemcacheTcpServer::new -> run -> Client::new -> Client::handle: the idle
    # timeout around every read is from_secs(server config timeout), listen() gets the server config's backlog
    from rules import conntask

    pl = conntask.plumbing(ctx)
    hb = f.one(CLIENT + "::handle")
    durs = pl["timeout_durations"]
    okto = bool(durs) and all(F(P("config"), "timeout_secs") in atoms(d) and any(isinstance(x, tuple) and x[0] == "call" and (x[1].endswith("Duration::from_secs") or (x[1].endswith("Duration::new") and len(x[3]) == 2 and x[3][1] == 0)) for x in atoms(d)) for d in durs)
    rep.check(okto, "handle:timeout(read_frame)", "every read is bounded by from_secs(server config timeout)", "the idle timeout of a connection is %s, not Duration::from_secs of the server configuration's timeout" % (sorted(set(short(d, 60) for d in durs)) or "absent"), hb.loc())
    # ... and on nothing else: the same duration on every path (no dependence on the state of the connection, of the slots
    # or of any other configuration value), computed from the configured timeout by pure arithmetic only
    def impure(d):
        for x in atoms(d):
            if isinstance(x, tuple) and x and x[0] == "call":
                n = x[1]
                if not ("Duration::" in n or "cmp::" in n or n.split("::")[-1] in ("min", "max", "from", "into", "try_from", "try_into", "unwrap_or", "unwrap", "clamp", "saturating_mul", "saturating_add", "saturating_sub", "checked_mul", "wrapping_mul", "as_secs")):
                    return n
            if isinstance(x, tuple) and x and x[0] in ("field", "param") and x != F(P("config"), "timeout_secs") and x != P("config"):
                return short(x, 40)
        return None

    distinct = sorted(set(repr(tform(d)) for d in durs))
    imp = [impure(d) for d in durs if impure(d)]
    rep.check(len(distinct) <= 1 and not imp, "handle:timeout-is-the-configured-one-on-every-path", "the idle timeout is the same function of the configured timeout on every path", "the idle timeout of a connection is not one fixed function of the configured timeout (%s): how long an idle client is kept depends on something else — other configuration values or the load — so the same client is answered under one configuration and dropped under another" % ("; ".join(sorted(set(short(d, 70) for d in durs))[:3]) + (" — depends on " + imp[0] if imp else "")), hb.loc())
    rep.check(pl["client"] is not None, "client-config:rx-timeout", "the server configuration reaches the Client built in the accept loop", "cannot follow the configuration from MemcacheTcpServer::new to the Client built in the accept loop", hb.loc())
    # the listening socket as tokio and the thread-per-listener mode need it: non-blocking (TcpListener::from_std requires it —
    # a blocking accept() stalls the runtime thread, and with it the clock and every connection of that thread) and
    # SO_REUSEPORT (current-thread mode binds one listener per thread to the same port)
    from rules.c17 import accept_paths

    _rb, _rounds = accept_paths(ctx)
    opts = {}
    for p_, _evs in _rounds:
        for e in p_.events:
            if e.kind == "call" and e.name.split("::")[-1] in ("set_nonblocking", "set_reuse_port") and len(e.args) > 1:
                opts.setdefault(e.name.split("::")[-1], set()).add(tform(e.args[1]))
    rep.check(opts.get("set_nonblocking") == {1}, "listener:nonblocking", "listener socket set non-blocking before TcpListener::from_std", "the listening socket is %s: tokio's TcpListener::from_std needs a non-blocking socket, a blocking accept() stalls the runtime thread (clock and connections with it)" % ("set to blocking" if opts.get("set_nonblocking") else "never set non-blocking"), f.one(SERVER + "::run").loc())
    rep.check(opts.get("set_reuse_port") == {1}, "listener:reuse_port", "SO_REUSEPORT set (one listener per thread in current-thread mode)", "SO_REUSEPORT is %s on the listening socket: in current-thread mode every thread binds its own listener to the same port — all but the first fail" % ("switched off" if opts.get("set_reuse_port") else "not set"), f.one(SERVER + "::run").loc())
    ls = pl["listen_args"]
    rep.check(bool(ls) and all(tform(a) == F(P("config"), "listen_backlog") for a in ls), "listen(backlog)", "listen(server config backlog)", "listen() is called with %s, not the configured backlog" % sorted(set(short(a, 40) for a in ls)), safe_loc(f, SERVER + "::run"))
    return rep


def chase_param(body, operand, param_index, depth=0):
    if operand.place is None or depth > 8:
        return False
    l = operand.place.local
    if l == param_index:
        return True
    for blk in body.blocks:
        for s in blk.stmts:
            if s.k == "assign" and s.place.local == l and s.place.is_local():
                for o in s.rv.ops:
                    if chase_param(body, o, param_index, depth + 1):
                        return True
    return False


def range_end_mentions(body, operand, suffix, depth=0):
    """into_iter(Range{start, end <- ..suffix})"""
    if operand.place is None or depth > 6:
        return False
    l = operand.place.local
    for blk in body.blocks:
        for s in blk.stmts:
            if s.k == "assign" and s.place.local == l:
                if s.rv.k == "agg" and s.rv.j.get("adt", "").endswith("ops::Range"):
                    return chase_mentions(body, s.rv.ops[1], suffix)
                for o in s.rv.ops:
                    if range_end_mentions(body, o, suffix, depth + 1):
                        return True
    return False


def r2(ctx):
    rep = Report("C20.R2", "one store: built once (no loop, no thread closure); every server is given a clone of it", floor=5)
    f = ctx.facts
    cg = callgraph.get(ctx)
    for callee in ("memcrs::memcache::builder::MemcacheStoreBuilder::from_config", MS + "::new", MEMC + "::new"):
        sites = [(bp, bb, t) for bp, bb, t in cg.callers_of(lambda c: strip_generics(c.path or "") == callee) if f.bodies[bp].crate in ("memcrs.lib", "memcrsd.bin")]
        rep.check(len(sites) == 1, "sites:%s" % callee.split("::")[-2], "one construction site of %s" % callee.split("::")[-2], "%s is constructed at %d sites" % (callee.split("::")[-2], len(sites)))
        for bp, bb, t in sites:
            body = f.bodies[bp]
            in_loop = any(bb in natural_loop(body, tail, head) for tail, head in body.has_cycle())
            rep.check(body.kind in ("fn", "assoc_fn") and not in_loop, "once:%s@%s" % (callee.split("::")[-2], bp.split("::")[-1]), "constructed once", "%s is constructed %s in %s: connections served by different threads would see different stores" % (callee.split("::")[-2], "in a loop" if in_loop else "in a closure", bp), loc_s(t.span))
    # the store value flows from from_config into both builders and from there into MemcacheTcpServer::new
    sb = f.one(RB + "create_memcrs_server")
    for fn in BUILDERS:
        calls = find_call(sb, fn)
        ok = len(calls) == 1 and chase_calls(sb, calls[0][1].args[1], lambda n: n.endswith("MemcacheStoreBuilder::from_config"))
        rep.check(ok, "store->%s" % fn, "%s(config, <- from_config(..))" % fn, "create_memcrs_server does not hand the store it built to %s" % fn, sb.loc())
        b = f.one(RB + fn)
        bf = builderfacts.builder_facts(ctx, fn)
        okn = bool(bf["news"]) and all(P("store") in atoms(st_) or tform(st_) == P("store") for _cfg, st_, _e in bf["news"])
        rep.check(okn, "%s:server-gets-store" % fn, "MemcacheTcpServer::new(_, <- store parameter)", "%s builds its server on something else than the store it was given" % fn, b.loc())
    return rep


def derives_from_param(body, operand, param_index, depth=0, seen=None):
    seen = seen if seen is not None else set()
    if operand.place is None or depth > 10:
        return False
    l = operand.place.local
    if l == param_index:
        return True
    if l in seen:
        return False
    seen.add(l)
    for blk in body.blocks:
        for s in blk.stmts:
            if s.k == "assign" and s.place.local == l:
                for o in s.rv.ops:
                    if derives_from_param(body, o, param_index, depth + 1, seen):
                        return True
                if s.rv.place is not None:
                    if s.rv.place.local == param_index:
                        return True

                    class _O:
                        pass

                    o = _O()
                    o.place = s.rv.place
                    o.kind = "copy"
                    if s.rv.place.local != l and derives_from_param(body, o, param_index, depth + 1, seen):
                        return True
        t = blk.term
        if t.k == "call" and t.dest is not None and t.dest.local == l and strip_generics(t.callee.path or "").endswith("Clone::clone"):
            for o in t.args:
                if derives_from_param(body, o, param_index, depth + 1, seen):
                    return True
    return False


def r3(ctx):
    rep = Report("C20.R3", "parser tables: eviction policy names; runtime type -> matching builder", floor=5)
    f = ctx.facts
    pb = f.one("memcrs::memcache::cli::parser::parse_eviction_policy")
    rep.analysed(pb)
    for s, want in (("random", "Random"), ("none", "None"), ("lru", "Err"), ("Random", "Err"), ("", "Err")):
        outs = set()
        for p in Interp(f).run(pb, [("str", s)]):
            var, pl = variant_of(p.ret)
            outs.add(pl.variant if (var == "Ok" and isinstance(pl, Struct)) else var)
        rep.check(outs == {want}, "eviction-policy[%r]" % s, "%r -> %s" % (s, want), "eviction policy name %r parses to %s (expected %s): the configured policy is not the one enforced" % (s, sorted(map(str, outs)), want), pb.loc())
    sb = f.one(RB + "create_memcrs_server")
    rt = "memcrs::memcache::cli::parser::RuntimeType"
    want = {"CurrentThread": "create_current_thread_server", "MultiThread": "create_threadpool_server"}
    for vi, v in enumerate(f.adts[rt]["variants"]):
        cfg = Struct(None, None, 0, OrderedDict([("runtime_type", Struct(rt, v["name"], vi, OrderedDict()))]), P("config"))
        I = Interp(f, policy=lambda body, a: "opaque" if body.path.startswith(RB) and body.name != "create_memcrs_server" else "inline")
        called = set()
        for p in I.run(sb, [cfg, P("system_timer")]):
            for e in p.events:
                if e.kind == "call" and e.name.startswith(RB):
                    called.add(e.name.split("::")[-1])
        rep.check(called == {want.get(v["name"])}, "runtime[%s]" % v["name"], "%s -> %s" % (v["name"], want.get(v["name"])), "runtime type %s starts %s" % (v["name"], sorted(called)), sb.loc())
    return rep


def r4(ctx):
    rep = Report("C20.R4", "one clock, driven in both runtime modes; 1 s interval; tick and timestamp share one atomic", floor=7)
    f = ctx.facts
    mb = f.one("memcrsd::main")
    rep.analysed(mb)
    tn = find_call(mb, "SystemTimer::new")
    cs = find_call(mb, "create_memcrs_server")
    rn = find_call(mb, "SystemTimer::run")
    bo = find_call(mb, "Runtime::block_on")
    rep.check(len(tn) == 1 and len(cs) == 1 and len(rn) == 1 and len(bo) == 1, "main:sites", "one SystemTimer::new / create_memcrs_server / timer.run / block_on", "main has %d/%d/%d/%d of SystemTimer::new / create_memcrs_server / run / block_on" % (len(tn), len(cs), len(rn), len(bo)), mb.loc())
    if len(tn) == 1 and len(cs) == 1 and len(rn) == 1 and len(bo) == 1:
        is_new = lambda n: n.endswith("SystemTimer::new")
        rep.check(chase_calls(mb, cs[0][1].args[1], is_new), "main:server-gets-the-timer", "create_memcrs_server(_, clone of the timer)", "the store is not given the timer that main drives", loc_s(cs[0][1].span))
        rep.check(chase_calls(mb, rn[0][1].args[0], is_new), "main:runs-the-same-timer", "run() of the same timer", "main drives another timer than the one the store reads", loc_s(rn[0][1].span))
        rep.check(chase_calls(mb, bo[0][1].args[1], lambda n: n.endswith("SystemTimer::run")) and chase_calls(mb, bo[0][1].args[0], lambda n: n.endswith("create_memcrs_server")), "main:block_on(run)-on-returned-runtime", "returned_runtime.block_on(timer.run())", "the clock is not driven on the runtime returned by create_memcrs_server", loc_s(bo[0][1].span))
        # unconditional: every normal path from create_memcrs_server's return reaches block_on
        start = cs[0][1].t
        stop = bo[0][0]
        region = mb.reach_from(start, stop=(stop,))
        early = [x for x in region if mb.blocks[x].term.k == "return"]
        rep.check(not early and mb.dominates(cs[0][0], stop), "main:clock-driven-in-every-mode", "block_on(run) on every path after the server is built", "there is a path on which the server runs but the clock is not driven: items never expire in that configuration", loc_s(bo[0][1].span))
    # timer internals (by abstract interpretation of the run loop: robust to helper extraction / named constants)
    rpath = "memcrs::server::timer::SystemTimer::run::{closure#0}"
    rb = f.one(rpath)
    I = Interp(f, loop_bound=2)
    paths = I.run(rb, [ClosureV(rpath, [P("self")], "coroutine"), P("cx")])
    period_ok = None
    tick_ok = None
    for p in paths:
        seq = []
        for e in p.events:
            if e.kind == "call" and e.name == "tokio::time::interval_at":
                per = tform(e.args[1])
                if isinstance(per, tuple) and per[0] == "call" and per[1] == "std::time::Duration::from_secs":
                    ok = per[3] == (1,)
                elif isinstance(per, tuple) and per[0] == "constitem" and len(per) > 2:
                    ok = "secs: 1_u64" in per[2] and ("nanos: 0" in per[2] or "Nanoseconds(0" in per[2])
                else:
                    ok = False
                period_ok = ok if period_ok is None else (period_ok and ok)
            elif e.kind == "await" and "Interval::tick" in repr(tform(e.args[0])):
                seq.append("tick")
            elif e.kind == "call" and e.name.endswith("fetch_add") and tform(e.args[0]) == F(P("self"), "seconds"):
                seq.append("add:%s" % short(e.args[1], 10))
        if "tick" in seq:
            # between two ticks exactly one add of 1; nothing added before the first tick
            good = True
            first = seq.index("tick")
            if any(x.startswith("add") for x in seq[:first]):
                good = False
            chunks = []
            cur = []
            for x in seq[first + 1:]:
                if x == "tick":
                    chunks.append(cur)
                    cur = []
                else:
                    cur.append(x)
            for c in chunks:
                if c != ["add:1"]:
                    good = False
            if not chunks and cur not in (["add:1"], []):
                good = False
            if not chunks and cur == [] and not p.cut:
                good = False
            tick_ok = good if tick_ok is None else (tick_ok and good)
    # no tick may be dropped: tokio's default MissedTickBehavior::Burst catches up after a late wake-up; Skip/Delay lose seconds
    mtb = None
    for p in paths:
        for e in p.events:
            if e.kind == "call" and e.name.endswith("Interval::set_missed_tick_behavior"):
                arg = e.args[1] if len(e.args) > 1 else None
                v = arg.variant if isinstance(arg, Struct) else short(arg, 30)
                mtb = v
    rep.check(mtb in (None, "Burst"), "timer:no-dropped-ticks", "interval keeps the default catch-up behaviour (Burst)", "the clock's interval is set to MissedTickBehavior::%s: seconds that pass while the tick is late (workers busy in multi-thread mode) are dropped, the server clock lags real time and items outlive their TTL in that configuration" % mtb, rb.loc())
    rep.check(period_ok is True, "timer:1s-interval", "interval_at(_, 1 s)", "the clock interval is not 1 second", rb.loc())
    rep.check(tick_ok is True and bool(rb.has_cycle()), "timer:tick-then-add_second", "loop { tick().await; seconds += 1 }", "the timer loop does not advance the clock by exactly one per tick", rb.loc())
    ab = f.one("<memcrs::server::timer::SystemTimer as memcrs::server::timer::SetableTimer>::add_second")
    tb = f.one("<memcrs::server::timer::SystemTimer as memcrs::server::timer::Timer>::timestamp")
    oka = okt = False
    for p in Interp(f).run(ab, [P("self")]):
        c = [e for e in p.events if e.kind == "call" and "tomic" in e.name and e.args and tform(e.args[0]) == F(P("self"), "seconds")]
        oka = len(c) == 1 and c[0].name.endswith("fetch_add") and c[0].args[1] == 1
    for p in Interp(f).run(tb, [P("self")]):
        c = [e for e in p.events if e.kind == "call" and "tomic" in e.name and e.args and tform(e.args[0]) == F(P("self"), "seconds")]
        okt = len(c) == 1 and c[0].name.endswith("::load") and tform(p.ret) == c[0].result
    rep.check(oka, "timer:add_second", "seconds.fetch_add(1)", "add_second does not advance the seconds counter by exactly 1", ab.loc())
    rep.check(okt, "timer:timestamp", "timestamp() = seconds.load()", "timestamp() does not read the counter that add_second advances", tb.loc())
    return rep


RULES = [("C20.R1", r1), ("C20.R2", r2), ("C20.R3", r3), ("C20.R4", r4)]
