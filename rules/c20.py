"""C20 — behaviour is the same under every runtime configuration (configuration plumbing clauses)."""
from collections import OrderedDict

from rules.common import *  # noqa: F401,F403
from rules.storefacts import field_of
from rules.c13 import chase_mentions
from rules.c17 import chase_calls, natural_loop
import callgraph

LEVEL_TEXT = (
    "Only the configuration-plumbing clauses have a static form; equality of behaviour across runtimes is NOT decided. "
    "R1 every option reaches its consumer, in both runtime builders (siblings must agree): listen address/port -> "
    "SocketAddr::new -> run(addr); connection limit, item size limit, backlog -> the matching (all-u32) constructor "
    "arguments of MemcacheServerConfig; the 60 s timeout -> rx timeout -> Duration::from_secs in the read loop; threads -> "
    "worker_threads resp. the listener-thread loop bound; memory limit and eviction policy -> the store config; R2 one "
    "store: from_config (-> MemoryStore::new) runs once, outside any loop or thread closure, and every server gets a clone "
    "of that value; R3 parser tables: eviction policy names, runtime-type dispatch to the matching builder; R4 one clock, "
    "driven in both modes: main builds one SystemTimer, hands a clone to the store and unconditionally block_on's its run() "
    "on the runtime returned for either mode; run ticks an interval of 1 s and each tick advances the same atomic that "
    "timestamp() loads. Not decided: SO_REUSEPORT behaviour, real-time accuracy, response equality across runtimes."
)
ASSUMPTIONS = ["tokio interval_at(start, d).tick() fires every d", "clap assigns each parsed option to the struct field of the same name"]

RB = "memcrs::memcache_server::runtime_builder::"
SCFG = "memcrs::memcache_server::memc_tcp::MemcacheServerConfig::new"
BUILDERS = ("create_current_thread_server", "create_threadpool_server")


def find_call(b, suffix):
    return [(bb, t) for bb, t in b.calls() if strip_generics(t.callee.path or "").endswith(suffix)]


def r1(ctx):
    rep = Report("C20.R1", "options reach their consumers in both runtime builders (sibling agreement)", floor=14)
    f = ctx.facts
    for fn in BUILDERS:
        b = f.one(RB + fn)
        rep.analysed(b)
        sa = find_call(b, "std::net::SocketAddr::new")
        okaddr = len(sa) == 1 and chase_mentions(b, sa[0][1].args[0], ("listen_address",)) and chase_mentions(b, sa[0][1].args[1], ("port",))
        rep.check(okaddr, "%s:addr" % fn, "SocketAddr::new(args.listen_address, args.port)", "%s does not build the listen address from the CLI address and port" % fn, b.loc())
        sc = find_call(b, "MemcacheServerConfig::new")
        if len(sc) != 1:
            rep.bad("%s:server-config" % fn, "%s has %d MemcacheServerConfig::new calls" % (fn, len(sc)), b.loc())
            continue
        t = sc[0][1]
        a0 = t.args[0].const_val()
        rep.check(a0 == 60, "%s:timeout" % fn, "timeout 60 s", "%s configures a %s s idle timeout (60 s in the sibling / documented)" % (fn, a0), loc_s(t.span))
        rep.check(chase_mentions(b, t.args[1], ("connection_limit",)), "%s:connection_limit" % fn, "arg#1 <- connection_limit", "%s passes something else than the CLI connection limit as connection_limit" % fn, loc_s(t.span))
        rep.check(chase_mentions(b, t.args[2], ("item_size_limit",)), "%s:item_size_limit" % fn, "arg#2 <- item_size_limit", "%s passes something else than the CLI item size limit as item_memory_limit" % fn, loc_s(t.span))
        rep.check(chase_mentions(b, t.args[3], ("backlog_limit",)), "%s:backlog" % fn, "arg#3 <- backlog_limit", "%s passes something else than the CLI backlog as listen_backlog" % fn, loc_s(t.span))
        # the server runs on the address built above
        runs = []
        for body in [b] + f.closures_of(b.path):
            runs += [(body, t2) for _bb, t2 in find_call(body, SERVER.split("::")[-1] + "::run")]
        rep.check(len(runs) == 1, "%s:run" % fn, "one tcp_server.run(addr)", "%s starts the server %d times" % (fn, len(runs)), b.loc())
        for body, t2 in runs:
            ok = True
            if body is b:
                ok = chase_calls(b, t2.args[1], lambda n: n == "std::net::SocketAddr::new")
            else:
                # captured `addr`
                ok = any(cap["name"] == "addr" for cap in body.captures)
            rep.check(ok, "%s:run(addr)" % fn, "run(addr) with the configured address", "%s runs the server on another address than the configured one" % fn, loc_s(t2.span))
    # threads
    b = f.one(RB + "create_threadpool_server")
    mt = find_call(b, "create_multi_thread_runtime")
    rep.check(len(mt) == 1 and chase_mentions(b, mt[0][1].args[0], ("threads",)), "threadpool:threads", "worker pool sized by args.threads", "the multi-thread runtime is not sized by the CLI thread count", b.loc())
    mb = f.one(RB + "create_multi_thread_runtime")
    wt = find_call(mb, "worker_threads")
    rep.check(len(wt) == 1 and wt[0][1].args[1].place is not None and mb.local_name(wt[0][1].args[1].place.local) in ("worker_threads", None) and chase_param(mb, wt[0][1].args[1], 1), "multi_thread_runtime:worker_threads", "Builder::worker_threads(<- parameter)", "create_multi_thread_runtime does not pass its argument to worker_threads", mb.loc())
    b = f.one(RB + "create_current_thread_server")
    it = find_call(b, "IntoIterator::into_iter")
    okt = any(range_end_mentions(b, t.args[0], ("threads",)) for _bb, t in it)
    rep.check(okt, "current_thread:threads", "one listener thread per args.threads", "the number of listener threads is not the CLI thread count", b.loc())
    # timeout plumbing: server config -> client config -> Duration::from_secs
    gb = f.one(SERVER + "::get_client_config")
    for p in Interp(f).run(gb, [P("self")]):
        rep.check(field_of(p.ret, "rx_timeout_secs") == F(P("self"), "config", "timeout_secs"), "client-config:rx-timeout", "rx_timeout_secs <- config.timeout_secs", "the client's read timeout is %s" % short(field_of(p.ret, "rx_timeout_secs"), 60), gb.loc())
    hb = f.one(CLIENT + "::handle::{closure#0}")
    fs = find_call(hb, "std::time::Duration::from_secs")
    to = find_call(hb, "tokio::time::timeout")
    okto = len(fs) == 1 and len(to) == 1 and chase_mentions(hb, fs[0][1].args[0], ("rx_timeout_secs",)) and chase_calls(hb, to[0][1].args[0], lambda n: n == "std::time::Duration::from_secs") and chase_calls(hb, to[0][1].args[1], lambda n: n == CONN + "::read_frame")
    rep.check(okto, "handle:timeout(read_frame)", "timeout(from_secs(rx_timeout_secs), read_frame())", "the read loop does not bound read_frame by the configured timeout", hb.loc())
    # listen backlog reaches listen()
    lb = f.one(SERVER + "::get_tcp_listener")
    ls = find_call(lb, "Socket::listen")
    rep.check(len(ls) == 1 and chase_mentions(lb, ls[0][1].args[1], ("listen_backlog",)), "listen(backlog)", "listen(config.listen_backlog)", "listen() is not called with the configured backlog", lb.loc())
    return rep


def chase_param(body, operand, param_index, depth=0):
    if operand.place is None or depth > 8:
        return False
    l = operand.place.local
    if l == param_index:
        return True
    for blk in body.blocks:
        for s in blk.stmts:
            if s.k == "assign" and s.place.local == l and s.place.is_local():
                for o in s.rv.ops:
                    if chase_param(body, o, param_index, depth + 1):
                        return True
    return False


def range_end_mentions(body, operand, suffix, depth=0):
    """into_iter(Range{start, end <- ..suffix})"""
    if operand.place is None or depth > 6:
        return False
    l = operand.place.local
    for blk in body.blocks:
        for s in blk.stmts:
            if s.k == "assign" and s.place.local == l:
                if s.rv.k == "agg" and s.rv.j.get("adt", "").endswith("ops::Range"):
                    return chase_mentions(body, s.rv.ops[1], suffix)
                for o in s.rv.ops:
                    if range_end_mentions(body, o, suffix, depth + 1):
                        return True
    return False


def r2(ctx):
    rep = Report("C20.R2", "one store: built once (no loop, no thread closure); every server is given a clone of it", floor=5)
    f = ctx.facts
    cg = callgraph.get(ctx)
    for callee in ("memcrs::memcache::builder::MemcacheStoreBuilder::from_config", MS + "::new", MEMC + "::new"):
        sites = [(bp, bb, t) for bp, bb, t in cg.callers_of(lambda c: strip_generics(c.path or "") == callee) if f.bodies[bp].crate in ("memcrs.lib", "memcrsd.bin")]
        rep.check(len(sites) == 1, "sites:%s" % callee.split("::")[-2], "one construction site of %s" % callee.split("::")[-2], "%s is constructed at %d sites" % (callee.split("::")[-2], len(sites)))
        for bp, bb, t in sites:
            body = f.bodies[bp]
            in_loop = any(bb in natural_loop(body, tail, head) for tail, head in body.has_cycle())
            rep.check(body.kind in ("fn", "assoc_fn") and not in_loop, "once:%s@%s" % (callee.split("::")[-2], bp.split("::")[-1]), "constructed once", "%s is constructed %s in %s: connections served by different threads would see different stores" % (callee.split("::")[-2], "in a loop" if in_loop else "in a closure", bp), loc_s(t.span))
    # the store value flows from from_config into both builders and from there into MemcacheTcpServer::new
    sb = f.one(RB + "create_memcrs_server")
    for fn in BUILDERS:
        calls = find_call(sb, fn)
        ok = len(calls) == 1 and chase_calls(sb, calls[0][1].args[1], lambda n: n.endswith("MemcacheStoreBuilder::from_config"))
        rep.check(ok, "store->%s" % fn, "%s(config, <- from_config(..))" % fn, "create_memcrs_server does not hand the store it built to %s" % fn, sb.loc())
        b = f.one(RB + fn)
        tn = find_call(b, "MemcacheTcpServer::new")
        okn = len(tn) == 1 and derives_from_param(b, tn[0][1].args[1], 2)
        rep.check(okn, "%s:server-gets-store" % fn, "MemcacheTcpServer::new(_, <- store parameter)", "%s builds its server on something else than the store it was given" % fn, b.loc())
    return rep


def derives_from_param(body, operand, param_index, depth=0, seen=None):
    seen = seen if seen is not None else set()
    if operand.place is None or depth > 10:
        return False
    l = operand.place.local
    if l == param_index:
        return True
    if l in seen:
        return False
    seen.add(l)
    for blk in body.blocks:
        for s in blk.stmts:
            if s.k == "assign" and s.place.local == l:
                for o in s.rv.ops:
                    if derives_from_param(body, o, param_index, depth + 1, seen):
                        return True
                if s.rv.place is not None:
                    if s.rv.place.local == param_index:
                        return True

                    class _O:
                        pass

                    o = _O()
                    o.place = s.rv.place
                    o.kind = "copy"
                    if s.rv.place.local != l and derives_from_param(body, o, param_index, depth + 1, seen):
                        return True
        t = blk.term
        if t.k == "call" and t.dest is not None and t.dest.local == l and strip_generics(t.callee.path or "").endswith("Clone::clone"):
            for o in t.args:
                if derives_from_param(body, o, param_index, depth + 1, seen):
                    return True
    return False


def r3(ctx):
    rep = Report("C20.R3", "parser tables: eviction policy names; runtime type -> matching builder", floor=5)
    f = ctx.facts
    pb = f.one("memcrs::memcache::cli::parser::parse_eviction_policy")
    rep.analysed(pb)
    for s, want in (("random", "Random"), ("none", "None"), ("lru", "Err"), ("Random", "Err"), ("", "Err")):
        outs = set()
        for p in Interp(f).run(pb, [("str", s)]):
            var, pl = variant_of(p.ret)
            outs.add(pl.variant if (var == "Ok" and isinstance(pl, Struct)) else var)
        rep.check(outs == {want}, "eviction-policy[%r]" % s, "%r -> %s" % (s, want), "eviction policy name %r parses to %s (expected %s): the configured policy is not the one enforced" % (s, sorted(map(str, outs)), want), pb.loc())
    sb = f.one(RB + "create_memcrs_server")
    rt = "memcrs::memcache::cli::parser::RuntimeType"
    want = {"CurrentThread": "create_current_thread_server", "MultiThread": "create_threadpool_server"}
    for vi, v in enumerate(f.adts[rt]["variants"]):
        cfg = Struct(None, None, 0, OrderedDict([("runtime_type", Struct(rt, v["name"], vi, OrderedDict()))]), P("config"))
        I = Interp(f, policy=lambda body, a: "opaque" if body.path.startswith(RB) and body.name != "create_memcrs_server" else "inline")
        called = set()
        for p in I.run(sb, [cfg, P("system_timer")]):
            for e in p.events:
                if e.kind == "call" and e.name.startswith(RB):
                    called.add(e.name.split("::")[-1])
        rep.check(called == {want.get(v["name"])}, "runtime[%s]" % v["name"], "%s -> %s" % (v["name"], want.get(v["name"])), "runtime type %s starts %s" % (v["name"], sorted(called)), sb.loc())
    return rep


def r4(ctx):
    rep = Report("C20.R4", "one clock, driven in both runtime modes; 1 s interval; tick and timestamp share one atomic", floor=7)
    f = ctx.facts
    mb = f.one("memcrsd::main")
    rep.analysed(mb)
    tn = find_call(mb, "SystemTimer::new")
    cs = find_call(mb, "create_memcrs_server")
    rn = find_call(mb, "SystemTimer::run")
    bo = find_call(mb, "Runtime::block_on")
    rep.check(len(tn) == 1 and len(cs) == 1 and len(rn) == 1 and len(bo) == 1, "main:sites", "one SystemTimer::new / create_memcrs_server / timer.run / block_on", "main has %d/%d/%d/%d of SystemTimer::new / create_memcrs_server / run / block_on" % (len(tn), len(cs), len(rn), len(bo)), mb.loc())
    if len(tn) == 1 and len(cs) == 1 and len(rn) == 1 and len(bo) == 1:
        is_new = lambda n: n.endswith("SystemTimer::new")
        rep.check(chase_calls(mb, cs[0][1].args[1], is_new), "main:server-gets-the-timer", "create_memcrs_server(_, clone of the timer)", "the store is not given the timer that main drives", loc_s(cs[0][1].span))
        rep.check(chase_calls(mb, rn[0][1].args[0], is_new), "main:runs-the-same-timer", "run() of the same timer", "main drives another timer than the one the store reads", loc_s(rn[0][1].span))
        rep.check(chase_calls(mb, bo[0][1].args[1], lambda n: n.endswith("SystemTimer::run")) and chase_calls(mb, bo[0][1].args[0], lambda n: n.endswith("create_memcrs_server")), "main:block_on(run)-on-returned-runtime", "returned_runtime.block_on(timer.run())", "the clock is not driven on the runtime returned by create_memcrs_server", loc_s(bo[0][1].span))
        # unconditional: every normal path from create_memcrs_server's return reaches block_on
        start = cs[0][1].t
        stop = bo[0][0]
        region = mb.reach_from(start, stop=(stop,))
        early = [x for x in region if mb.blocks[x].term.k == "return"]
        rep.check(not early and mb.dominates(cs[0][0], stop), "main:clock-driven-in-every-mode", "block_on(run) on every path after the server is built", "there is a path on which the server runs but the clock is not driven: items never expire in that configuration", loc_s(bo[0][1].span))
    # timer internals
    rb = f.one("memcrs::server::timer::SystemTimer::run::{closure#0}")
    fs = find_call(rb, "std::time::Duration::from_secs")
    ia = find_call(rb, "tokio::time::interval_at")
    tk = find_call(rb, "Interval::tick")
    asx = find_call(rb, "add_second")
    rep.check(len(fs) == 1 and fs[0][1].args[0].const_val() == 1 and len(ia) == 1 and chase_calls(rb, ia[0][1].args[1], lambda n: n == "std::time::Duration::from_secs"), "timer:1s-interval", "interval_at(_, from_secs(1))", "the clock interval is not 1 second (from_secs(%s))" % (fs[0][1].args[0].const_val() if fs else "?"), rb.loc())
    in_loop = False
    if tk and asx:
        loops = [natural_loop(rb, t_, h) for t_, h in rb.has_cycle()]
        in_loop = any(tk[0][0] in L and asx[0][0] in L for L in loops) and rb.dominates(tk[0][0], asx[0][0])
    rep.check(in_loop, "timer:tick-then-add_second", "loop { tick().await; add_second() }", "the timer loop does not advance the clock once per tick", rb.loc())
    ab = f.one("<memcrs::server::timer::SystemTimer as memcrs::server::timer::SetableTimer>::add_second")
    tb = f.one("<memcrs::server::timer::SystemTimer as memcrs::server::timer::Timer>::timestamp")
    oka = okt = False
    for p in Interp(f).run(ab, [P("self")]):
        c = [e for e in p.events if e.kind == "call"]
        oka = len(c) == 1 and c[0].name.endswith("fetch_add") and tform(c[0].args[0]) == F(P("self"), "seconds") and c[0].args[1] == 1
    for p in Interp(f).run(tb, [P("self")]):
        c = [e for e in p.events if e.kind == "call"]
        okt = len(c) == 1 and c[0].name.endswith("::load") and tform(c[0].args[0]) == F(P("self"), "seconds") and tform(p.ret) == c[0].result
    rep.check(oka, "timer:add_second", "seconds.fetch_add(1)", "add_second does not advance the seconds counter by exactly 1", ab.loc())
    rep.check(okt, "timer:timestamp", "timestamp() = seconds.load()", "timestamp() does not read the counter that add_second advances", tb.loc())
    return rep


RULES = [("C20.R1", r1), ("C20.R2", r2), ("C20.R3", r3), ("C20.R4", r4)]
