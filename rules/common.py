"""Shared names, interpreter set-ups and small queries used by the property rules."""
import os
import sys

sys.path.insert(0, os.path.join(os.path.dirname(os.path.dirname(os.path.abspath(__file__))), "analysis"))

from absint import *  # noqa: F401,F403
from absint import Interp, Interval, State, canon, to_lin, TOP, Struct, TupleV, Ref, ClosureV, atoms, tform, strip_generics, norm_impl_path
from framework import Report
from mir import AnchorMissing, loc_s
from storemodel import STORE_MODELS, TIMER_MODELS, map_events, map_writes, map_removals, lookup_of

MS = "memcrs::memory_store::store::MemoryStore"
RP = "memcrs::memcache::random_policy::RandomPolicy"
CACHE = "memcrs::cache::cache::Cache"
IMPLD = "memcrs::cache::cache::impl_details::CacheImplDetails"
MEMC = "memcrs::memcache::store::MemcStore"
HANDLER = "memcrs::memcache_server::handler::BinaryHandler"
CODEC = "memcrs::protocol::binary_codec::MemcacheBinaryCodec"
CONN = "memcrs::protocol::binary_connection::MemcacheBinaryConnection"
CLIENT = "memcrs::memcache_server::client_handler::Client"
SERVER = "memcrs::memcache_server::memc_tcp::MemcacheTcpServer"
BREQ = "memcrs::protocol::binary_codec::BinaryRequest"
BRESP = "memcrs::protocol::binary_codec::BinaryResponse"
CMD = "memcrs::protocol::binary::Command"
CERR = "memcrs::cache::error::CacheError"


def ms(meth, trait=CACHE):
    return "<%s as %s>::%s" % (MS, trait, meth)


def rp(meth, trait=CACHE):
    return "<%s as %s>::%s" % (RP, trait, meth)


def impl_or_default(f, self_ty, meth, trait=CACHE):
    """(body, dyn_impl): the impl's own method, or — when the impl does not override it — the trait's default body together
    with the map that resolves the default body's calls on Self to this impl's methods"""
    own = "<%s as %s>::%s" % (self_ty, trait, meth)
    if own in f.bodies:
        return f.bodies[own], {}
    dflt = f.bodies.get(trait + "::" + meth)
    if dflt is None:
        return f.one(own), {}  # raises AnchorMissing
    dyn = {}
    for tr in (CACHE, IMPLD):
        for b in f.bodies.values():
            if b.impl_self == self_ty and b.impl_trait == tr and b.name:
                dyn[tr + "::" + b.name] = b.path
    return dflt, dyn


def d2(p, term):
    """discriminant of a two-variant value (Option: None=0/Some=1, Result: Ok=0/Err=1) on a path: 0 / 1 / None. A branch
    written as `let Ok(x) = r else {..}` or `while let Some(x) = ..` records 'not variant k' on its other edge, which for a
    two-variant type is the other variant."""
    d = p.state.discr.get(term)
    if isinstance(d, int):
        return d
    if isinstance(d, tuple) and d and d[0] == "not" and len(d[1]) == 1 and list(d[1])[0] in (0, 1):
        return 1 - list(d[1])[0]
    return None


def bool_fact(p, term):
    """True / False / None: what the path assumed about a boolean term it branched on"""
    out = None
    for c, truth, _s, _at in p.state.pc:
        if c == term and isinstance(truth, bool):
            out = truth
        elif isinstance(c, tuple) and c and c[0] == "cmp" and c[1] in ("Eq", "Ne") and c[2] == term and c[3] in (0, 1) and truth is True:
            out = (c[3] == 1) if c[1] == "Eq" else (c[3] == 0)
        elif isinstance(c, tuple) and c and c[0] == "notin" and c[1] == term and truth is True and set(c[2]) in ({0}, {1}):
            out = set(c[2]) == {0}
    return out


def safe_loc(f, path, *fallbacks):
    """source location of a body when it exists (for messages only: a private item that was renamed or merged must not
    make a rule fail because its *location* cannot be printed)"""
    for x in (path,) + fallbacks:
        b = f.bodies.get(x)
        if b is not None:
            return b.loc()
    return None


def P(name):
    return ("param", name)


def F(base, *names):
    for n in names:
        base = ("field", base, n)
    return base


def assume(st, lin, lo=None, hi=None, eq=None, ne=None):
    """seed an interval fact about a linear form {atom: coef} (+ optional const via key '1')"""
    d = dict(lin)
    key, f = canon(d)
    assert f == 1 or f == -1 or True
    iv = st.iv.get(key, Interval())
    if f < 0:
        # key = -lin/|f|
        lo, hi = (None if hi is None else -hi), (None if lo is None else -lo)
        if eq is not None:
            eq = -eq
        if ne is not None:
            ne = -ne
        f = -f
    if f != 1:
        raise ValueError("assume: non-unit linear form")
    if eq is not None:
        iv = iv.refine("Eq", eq)
    if ne is not None:
        iv = iv.refine("Ne", ne)
    if lo is not None:
        iv = iv.refine("Ge", lo)
    if hi is not None:
        iv = iv.refine("Le", hi)
    st.iv[key] = iv


def store_interp(facts, **kw):
    models = dict(STORE_MODELS)
    models.update(TIMER_MODELS)
    models.update(kw.pop("models", {}))
    return Interp(facts, models=models, **kw)


def variant_of(v):
    """('Ok'|'Err'|..., payload) of a known Result/Option value else (None, None)"""
    if isinstance(v, Struct) and v.variant is not None:
        return v.variant, (v.get("0") if "0" in v.fields else None)
    return None, None


def err_name(v):
    """Err(CacheError::X) -> 'X'"""
    var, pl = variant_of(v)
    if var == "Err" and isinstance(pl, Struct):
        return pl.variant
    return None


def depends_on(v, atom_pred):
    return any(atom_pred(a) for a in atoms(v))


def is_param_field(term, pname, *fields):
    return term == F(P(pname), *fields)


def mentions_term(v, term):
    return term in atoms(v)


def body_loc(b):
    return b.loc()


def pp(v, depth=0):
    """human-readable rendering of a value/term"""
    if depth > 12:
        return "..."
    if isinstance(v, bool) or isinstance(v, int):
        return hex(v) if isinstance(v, int) and v > 255 else str(v)
    if isinstance(v, str) or v is None:
        return str(v)
    if isinstance(v, Struct):
        nm = (v.adt or "").split("::")[-1]
        if v.variant and v.variant != nm:
            nm = (nm + "::" if nm else "") + v.variant
        inner = ", ".join("%s: %s" % (k, pp(x, depth + 1)) for k, x in v.fields.items())
        if v.base is not None:
            inner += (", " if inner else "") + ".." + pp(v.base, depth + 1)
        return "%s{%s}" % (nm, inner)
    if isinstance(v, TupleV):
        return "(%s)" % ", ".join(pp(x, depth + 1) for x in v.items)
    if isinstance(v, Ref):
        return "&<local>"
    if isinstance(v, ClosureV):
        return "closure " + v.path.split("::", 1)[-1]
    if not isinstance(v, tuple) or not v:
        return repr(v)
    t = v[0]
    if t == "param":
        return v[1]
    if t == "field":
        return "%s.%s" % (pp(v[1], depth + 1), v[2])
    if t == "as":
        return "%s?%s" % (pp(v[1], depth + 1), v[2])
    if t == "deref":
        return "*%s" % pp(v[1], depth + 1)
    if t == "call" and len(v) >= 4:
        return "%s(%s)" % (v[1].split("::")[-1].rstrip(">"), ", ".join(pp(a, depth + 1) for a in v[3]))
    if t == "bufread":
        return "%s[@%s,%s bytes]" % (pp(v[1], depth + 1), pp(v[2], depth + 1), pp(v[3], depth + 1))
    if t == "bufslice":
        return "%s[@%s..+%s]" % (pp(v[1], depth + 1), pp(v[2], depth + 1), pp(v[3], depth + 1))
    if t == "lin":
        parts = []
        for a, k in v[1]:
            parts.append(("%s" % pp(a, depth + 1)) if k == 1 else ("-%s" % pp(a, depth + 1)) if k == -1 else "%d*%s" % (k, pp(a, depth + 1)))
        if v[2]:
            parts.append(str(v[2]))
        return "(" + " + ".join(parts).replace("+ -", "- ") + ")"
    if t == "cmp":
        sym = {"Lt": "<", "Le": "<=", "Gt": ">", "Ge": ">=", "Eq": "==", "Ne": "!="}[v[1]]
        return "%s %s %s" % (pp(v[2], depth + 1), sym, pp(v[3], depth + 1))
    if t == "struct":
        return "%s{%s}" % ((v[2] or v[1] or "").split("::")[-1], ", ".join("%s: %s" % (k, pp(x, depth + 1)) for k, x in v[3]))
    if t in ("lookup", "stored", "stored_any"):
        return "%s(%s)" % (t + ":" + str(v[1]) if t == "lookup" else t, ", ".join(pp(x, depth + 1) for x in v[2:] if not isinstance(x, int)))
    if t == "now":
        return "now"
    if t == "str":
        return repr(v[1])
    if t == "top":
        return "?"
    return "%s(%s)" % (t, ", ".join(pp(x, depth + 1) for x in v[1:]))


def short(v, n=160):
    try:
        s = pp(v)
    except Exception:
        s = repr(v)
    return s if len(s) <= n else s[: n - 3] + "..."


def unanimous(values):
    s = set(values)
    return len(s) == 1, s
