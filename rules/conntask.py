"""Facts about the per-connection task (Client::handle and everything it runs) shared by C17 / C18 / C20:
which waits for client bytes are bounded by the idle timeout."""
from rules.common import *  # noqa: F401,F403
from rules.c13 import chase_mentions
import callgraph

HANDLE = CLIENT + "::handle"
TIMEOUTS = ("tokio::time::timeout", "tokio::time::timeout::timeout", "tokio::time::timeout_at", "tokio::time::timeout::timeout_at")
PASS_THROUGH = ("std::future::IntoFuture::into_future", "std::pin::Pin::new_unchecked", "std::pin::Pin::new", "std::boxed::Box::pin", "std::boxed::Box::new")


def is_socket_read(name):
    """a call that waits for bytes (or readiness) from the peer"""
    if name.startswith("tokio::io::AsyncReadExt::") or name.startswith("tokio::io::AsyncBufReadExt::"):
        return True
    if name.startswith("tokio::net::TcpStream::") and name.split("::")[-1] in ("readable", "peek", "poll_read", "poll_peek", "ready", "poll_read_ready", "try_read", "try_read_buf"):
        return True
    if name.startswith("tokio::io::AsyncRead::") or name in ("tokio::io::copy", "tokio::io::copy_buf"):
        return True
    if name.startswith("futures::StreamExt::") or name.startswith("tokio_stream::StreamExt::") or name.startswith("futures_util::StreamExt::"):
        return True
    return False


def producers(body, operand, depth=0, seen=None):
    """the calls / coroutine aggregates whose result an operand carries (through moves, refs and pass-through wrappers)"""
    seen = seen if seen is not None else set()
    out = []
    if operand.kind == "const" or operand.place is None or depth > 16:
        return out
    l = operand.place.local
    if l in seen:
        return out
    seen.add(l)

    class _O:
        pass

    for bi, blk in enumerate(body.blocks):
        t = blk.term
        if t.k == "call" and t.dest is not None and t.dest.local == l:
            n = strip_generics(t.callee.path or "")
            if n in PASS_THROUGH and t.args:
                out.extend(producers(body, t.args[0], depth + 1, seen))
            else:
                out.append(("call", bi, t))
        for s in blk.stmts:
            if s.k == "assign" and s.place.local == l:
                if s.rv.k == "agg" and s.rv.j.get("ak") in ("closure", "coroutine", "coroutine_closure"):
                    out.append(("agg", bi, s.rv.j["def"]))
                    continue
                for o in s.rv.ops:
                    out.extend(producers(body, o, depth + 1, seen))
                if s.rv.place is not None and s.rv.place.local != l:
                    o = _O()
                    o.kind = "copy"
                    o.place = s.rv.place
                    o.const = None
                    out.extend(producers(body, o, depth + 1, seen))
    return out


def chase_field(body, operand, pred, depth=0, seen=None):
    """does the operand derive (through temporaries, calls and casts of this body) from a place whose field path satisfies pred?"""
    seen = seen if seen is not None else set()
    if operand.kind == "const" or operand.place is None or depth > 12:
        return False
    pl = operand.place
    if pred(pl.fields()):
        return True
    l = pl.local
    if l in seen:
        return False
    seen.add(l)

    class _O:
        pass

    for blk in body.blocks:
        for s in blk.stmts:
            if s.k == "assign" and s.place.local == l:
                if s.rv.place is not None and pred(s.rv.place.fields()):
                    return True
                for o in s.rv.ops:
                    if chase_field(body, o, pred, depth + 1, seen):
                        return True
                if s.rv.place is not None and s.rv.place.local != l:
                    o = _O()
                    o.kind = "copy"
                    o.place = s.rv.place
                    o.const = None
                    if chase_field(body, o, pred, depth + 1, seen):
                        return True
        t = blk.term
        if t.k == "call" and t.dest is not None and t.dest.local == l:
            for o in t.args:
                if chase_field(body, o, pred, depth + 1, seen):
                    return True
    return False


def bounded_reads(ctx):
    """walk the connection task's call graph; a future handed to tokio::time::timeout (and everything it runs) is
    'bounded'. Returns {'reads': [(body path, span, bounded)], 'timeouts': [(body path, span, duration_ok)]}"""
    if "conntask.bounded_reads" in ctx._cache:
        return ctx._cache["conntask.bounded_reads"]
    f = ctx.facts
    cg = callgraph.get(ctx)
    roots = [p for p in f.bodies if p == HANDLE or p.startswith(HANDLE + "::{")]
    reads = []
    timeouts = []
    seen = set()
    st = [(r, False) for r in roots]
    while st:
        bp, cov = st.pop()
        if (bp, cov) in seen:
            continue
        seen.add((bp, cov))
        b = f.bodies.get(bp)
        if b is None:
            continue
        consumed_blocks = set()
        consumed_defs = set()
        for bi, t in b.calls():
            n = strip_generics(t.callee.path or "")
            if n in TIMEOUTS and len(t.args) >= 2:
                dur_ok = chase_field(b, t.args[0], lambda fl: bool(fl) and "timeout" in fl[-1])
                timeouts.append((bp, t.span, dur_ok))
                for kind, pbi, x in producers(b, t.args[1]):
                    if kind == "agg":
                        consumed_defs.add(x)
                        st.append((x, True))
                    else:
                        consumed_blocks.add(pbi)
                        pn = strip_generics(x.callee.path or "")
                        if is_socket_read(pn):
                            reads.append((bp, x.span, True, pn))
                        for tgt in cg.targets(x.callee):
                            if tgt in f.bodies:
                                st.append((tgt, True))
        for bi, t in b.calls():
            if bi in consumed_blocks:
                continue
            n = strip_generics(t.callee.path or "")
            if n in TIMEOUTS:
                continue
            if is_socket_read(n):
                reads.append((bp, t.span, cov, n))
                continue
            for tgt in cg.targets(t.callee):
                if tgt in f.bodies:
                    st.append((tgt, cov))
        for blk in b.blocks:
            for s in blk.stmts:
                if s.k == "assign" and s.rv.k == "agg" and s.rv.j.get("ak") in ("closure", "coroutine", "coroutine_closure"):
                    d = s.rv.j["def"]
                    if d in f.bodies and d not in consumed_defs:
                        st.append((d, cov))
    # a read site reached both bounded and unbounded is unbounded
    agg = {}
    for bp, span, cov, n in reads:
        k = (bp, loc_s(span), n)
        agg[k] = agg.get(k, True) and cov
    out = {"reads": [(bp, where, n, cov) for (bp, where, n), cov in sorted(agg.items())], "timeouts": timeouts, "bodies": len(set(x for x, _c in seen))}
    ctx._cache["conntask.bounded_reads"] = out
    return out


def rule_bounded_reads(rep, ctx, prefix=""):
    """every wait for bytes of the peer inside the connection task is bounded by the configured idle timeout"""
    f = ctx.facts
    r = bounded_reads(ctx)
    hb = f.bodies.get(HANDLE + "::{closure#0}") or f.one(HANDLE)
    rep.check(len(r["reads"]) >= 1, prefix + "reads-found", "%d socket read sites in the connection task (%d bodies walked)" % (len(r["reads"]), r["bodies"]), "no socket read found in the connection task: cannot decide whether waits for client bytes are bounded", hb.loc())
    for bp, where, n, cov in r["reads"]:
        short_b = bp.replace("memcrs::", "")
        rep.check(cov, prefix + "read-bounded:%s@%s" % (n.split("::")[-1], short_b), "%s in %s runs under the idle timeout" % (n.split("::")[-1], short_b), "%s in %s waits for bytes of the client without the idle timeout around it: a peer that stays silent there (e.g. after a truncated oversized body, or after quit without closing) keeps its task — and its connection slot — forever; after connection-limit such clients nothing is served" % (n, short_b), where)
    rep.check(bool(r["timeouts"]), prefix + "timeout-present", "%d timeout(..) sites" % len(r["timeouts"]), "the connection task never uses tokio::time::timeout: an idle client is never disconnected", hb.loc())
    for bp, span, dur_ok in r["timeouts"]:
        rep.check(dur_ok, prefix + "timeout-duration@%s" % bp.replace("memcrs::", ""), "timeout duration <- a configured *timeout* field", "the duration of a timeout in %s does not derive from a configured timeout field (a constant or unrelated value bounds the wait)" % bp, loc_s(span))
    return rep
