"""Facts about the per-connection task (Client::handle and everything it runs) shared by C17 / C18 / C20:
which waits for client bytes are bounded by the idle timeout."""
from rules.common import *  # noqa: F401,F403
from rules.c13 import chase_mentions
import callgraph

HANDLE = CLIENT + "::handle"
TIMEOUTS = ("tokio::time::timeout", "tokio::time::timeout::timeout", "tokio::time::timeout_at", "tokio::time::timeout::timeout_at")
PASS_THROUGH = ("std::future::IntoFuture::into_future", "std::pin::Pin::new_unchecked", "std::pin::Pin::new", "std::boxed::Box::pin", "std::boxed::Box::new")


def is_deferral(name, t=None):
    """an external callee that hands work to another task / thread / queue (or runs several futures concurrently): whatever
    is passed to it is no longer ordered with what the caller does next"""
    n = strip_generics(name)
    last = n.split("::")[-1]
    if last.startswith("spawn") or last in ("join_all", "try_join_all", "join", "try_join", "select_all", "for_each_concurrent", "buffer_unordered", "buffered"):
        return not n.startswith("std::iter") and not n.startswith("std::slice") and not n.startswith("std::path") and not n.startswith("std::str")
    return "JoinSet" in n or "FuturesUnordered" in n or "futures_unordered" in n or "::mpsc::" in n or "::oneshot::" in n or "::broadcast::" in n or "crossbeam_channel" in n or n.startswith("rayon::")


def is_socket_read(name):
    """a call that waits for bytes (or readiness) from the peer"""
    if name.startswith("tokio::io::AsyncReadExt::") or name.startswith("tokio::io::AsyncBufReadExt::"):
        return True
    if name.startswith("tokio::net::TcpStream::") and name.split("::")[-1] in ("readable", "peek", "poll_read", "poll_peek", "ready", "poll_read_ready", "try_read", "try_read_buf"):
        return True
    if name.startswith("tokio::io::AsyncRead::") or name in ("tokio::io::copy", "tokio::io::copy_buf"):
        return True
    if name.startswith("futures::StreamExt::") or name.startswith("tokio_stream::StreamExt::") or name.startswith("futures_util::StreamExt::"):
        return True
    return False


def producers(body, operand, depth=0, seen=None, stop_at_calls=True):
    """the calls / coroutine aggregates whose result an operand carries (through moves, refs and pass-through wrappers)"""
    seen = seen if seen is not None else set()
    out = []
    if operand.kind == "const" or operand.place is None or depth > 16:
        return out
    l = operand.place.local
    if l in seen:
        return out
    seen.add(l)

    class _O:
        pass

    for bi, blk in enumerate(body.blocks):
        t = blk.term
        if t.k == "call" and t.dest is not None and t.dest.local == l:
            n = strip_generics(t.callee.path or "")
            if n in PASS_THROUGH and t.args:
                out.extend(producers(body, t.args[0], depth + 1, seen, stop_at_calls))
            else:
                out.append(("call", bi, t))
                if not stop_at_calls:
                    for o in t.args:
                        out.extend(producers(body, o, depth + 1, seen, stop_at_calls))
        for s in blk.stmts:
            if s.k == "assign" and s.place.local == l:
                if s.rv.k == "agg" and s.rv.j.get("ak") in ("closure", "coroutine", "coroutine_closure"):
                    out.append(("agg", bi, s.rv.j["def"]))
                    continue
                for o in s.rv.ops:
                    out.extend(producers(body, o, depth + 1, seen, stop_at_calls))
                if s.rv.place is not None and s.rv.place.local != l:
                    o = _O()
                    o.kind = "copy"
                    o.place = s.rv.place
                    o.const = None
                    out.extend(producers(body, o, depth + 1, seen, stop_at_calls))
    return out


def chase_field(body, operand, pred, depth=0, seen=None):
    """does the operand derive (through temporaries, calls and casts of this body) from a place whose field path satisfies pred?"""
    seen = seen if seen is not None else set()
    if operand.kind == "const" or operand.place is None or depth > 12:
        return False
    pl = operand.place
    if pred(pl.fields()):
        return True
    l = pl.local
    if l in seen:
        return False
    seen.add(l)

    class _O:
        pass

    for blk in body.blocks:
        for s in blk.stmts:
            if s.k == "assign" and s.place.local == l:
                if s.rv.place is not None and pred(s.rv.place.fields()):
                    return True
                for o in s.rv.ops:
                    if chase_field(body, o, pred, depth + 1, seen):
                        return True
                if s.rv.place is not None and s.rv.place.local != l:
                    o = _O()
                    o.kind = "copy"
                    o.place = s.rv.place
                    o.const = None
                    if chase_field(body, o, pred, depth + 1, seen):
                        return True
        t = blk.term
        if t.k == "call" and t.dest is not None and t.dest.local == l:
            for o in t.args:
                if chase_field(body, o, pred, depth + 1, seen):
                    return True
    return False


def mentions_timeout_field(f, cg, path, depth=0, seen=None):
    """does the function (or a helper it calls) read a field whose name says 'timeout'?"""
    seen = seen if seen is not None else set()
    if path in seen or depth > 3:
        return False
    seen.add(path)
    b = f.bodies.get(path)
    if b is None:
        return False
    for blk in b.blocks:
        for s in blk.stmts:
            if s.k == "assign":
                pls = [s.rv.place] if s.rv.place is not None else []
                pls += [o.place for o in s.rv.ops if o.place is not None]
                if any(any("timeout" in x for x in pl.fields()) for pl in pls):
                    return True
    return any(mentions_timeout_field(f, cg, y, depth + 1, seen) for y in cg.edges.get(path, ()))


def from_timeout_field(f, cg, body, operand):
    """the duration derives from a configured timeout field — directly, or through a helper of the crate that reads one"""
    pred = lambda fl: bool(fl) and "timeout" in fl[-1]
    if chase_field(body, operand, pred):
        return True
    for kind, _bi, x in producers(body, operand, stop_at_calls=False):
        if kind == "call":
            for tgt in cg.targets(x.callee):
                if tgt in f.bodies and mentions_timeout_field(f, cg, tgt):
                    return True
    return False


def bounded_reads(ctx):
    """walk the connection task's call graph; a future handed to tokio::time::timeout (and everything it runs) is
    'bounded'. Returns {'reads': [(body path, span, bounded)], 'timeouts': [(body path, span, duration_ok)]}"""
    if "conntask.bounded_reads" in ctx._cache:
        return ctx._cache["conntask.bounded_reads"]
    f = ctx.facts
    cg = callgraph.get(ctx)
    roots = [p for p in f.bodies if p == HANDLE or p.startswith(HANDLE + "::{")]
    reads = []
    timeouts = []
    seen = set()
    st = [(r, False) for r in roots]
    while st:
        bp, cov = st.pop()
        if (bp, cov) in seen:
            continue
        seen.add((bp, cov))
        b = f.bodies.get(bp)
        if b is None:
            continue
        consumed_blocks = set()
        consumed_defs = set()
        for bi, t in b.calls():
            n = strip_generics(t.callee.path or "")
            if n in TIMEOUTS and len(t.args) >= 2:
                dur_ok = from_timeout_field(f, cg, b, t.args[0])
                timeouts.append((bp, t.span, dur_ok))
                for kind, pbi, x in producers(b, t.args[1]):
                    if kind == "agg":
                        consumed_defs.add(x)
                        st.append((x, True))
                    else:
                        consumed_blocks.add(pbi)
                        pn = strip_generics(x.callee.path or "")
                        if is_socket_read(pn):
                            reads.append((bp, x.span, True, pn))
                        for tgt in cg.targets(x.callee):
                            if tgt in f.bodies:
                                st.append((tgt, True))
        for bi, t in b.calls():
            if bi in consumed_blocks:
                continue
            n = strip_generics(t.callee.path or "")
            if n in TIMEOUTS:
                continue
            if is_socket_read(n):
                reads.append((bp, t.span, cov, n))
                continue
            for tgt in cg.targets(t.callee):
                if tgt in f.bodies:
                    st.append((tgt, cov))
        for blk in b.blocks:
            for s in blk.stmts:
                if s.k == "assign" and s.rv.k == "agg" and s.rv.j.get("ak") in ("closure", "coroutine", "coroutine_closure"):
                    d = s.rv.j["def"]
                    if d in f.bodies and d not in consumed_defs:
                        st.append((d, cov))
    # a read site reached both bounded and unbounded is unbounded
    agg = {}
    for bp, span, cov, n in reads:
        k = (bp, loc_s(span), n)
        agg[k] = agg.get(k, True) and cov
    out = {"reads": [(bp, where, n, cov) for (bp, where, n), cov in sorted(agg.items())], "timeouts": timeouts, "bodies": len(set(x for x, _c in seen))}
    ctx._cache["conntask.bounded_reads"] = out
    return out


def rule_bounded_reads(rep, ctx, prefix=""):
    """every wait for bytes of the peer inside the connection task is bounded by the configured idle timeout"""
    f = ctx.facts
    r = bounded_reads(ctx)
    hb = f.bodies.get(HANDLE + "::{closure#0}") or f.one(HANDLE)
    rep.check(len(r["reads"]) >= 1, prefix + "reads-found", "%d socket read sites in the connection task (%d bodies walked)" % (len(r["reads"]), r["bodies"]), "no socket read found in the connection task: cannot decide whether waits for client bytes are bounded", hb.loc())
    for bp, where, n, cov in r["reads"]:
        short_b = bp.replace("memcrs::", "")
        rep.check(cov, prefix + "read-bounded:%s@%s" % (n.split("::")[-1], short_b), "%s in %s runs under the idle timeout" % (n.split("::")[-1], short_b), "%s in %s waits for bytes of the client without the idle timeout around it: a peer that stays silent there (e.g. after a truncated oversized body, or after quit without closing) keeps its task — and its connection slot — forever; after connection-limit such clients nothing is served" % (n, short_b), where)
    rep.check(bool(r["timeouts"]), prefix + "timeout-present", "%d timeout(..) sites" % len(r["timeouts"]), "the connection task never uses tokio::time::timeout: an idle client is never disconnected", hb.loc())
    for bp, span, dur_ok in r["timeouts"]:
        rep.check(dur_ok, prefix + "timeout-duration@%s" % bp.replace("memcrs::", ""), "timeout duration <- a configured *timeout* field", "the duration of a timeout in %s does not derive from a configured timeout field (a constant or unrelated value bounds the wait)" % bp, loc_s(span))
    return rep


def plumbing(ctx):
    """How the server configuration reaches its consumers, composed through the public constructors and entry points:
    MemcacheTcpServer::new(config, store) -> run() builds each Client -> Client::handle.  Everything is expressed in terms
    of the fields of the MemcacheServerConfig value (identified by the position of its public constructor's parameters),
    so neither helper functions nor private field names in between matter."""
    if "conntask.plumbing" in ctx._cache:
        return ctx._cache["conntask.plumbing"]
    from bufmodel import BUF_MODELS
    from rules.storefacts import field_of

    f = ctx.facts
    out = {"server": None, "client_new_args": None, "client": None, "clients": [], "timeout_durations": [], "listen_args": [], "sem_new_args": []}
    nb = f.one(SERVER + "::new")

    def distinct(vals):
        seen, res = set(), []
        for v in vals:
            k = repr(tform(v))
            if k not in seen:
                seen.add(k)
                res.append(v)
        return res

    # a constructor may have several paths (a recycled or a fresh buffer, ...): every value it can return is followed
    servers = distinct(p.ret for p in Interp(f).run(nb, [P("config"), P("store")]) if isinstance(p.ret, Struct))
    if not servers or len(servers) > 4:
        ctx._cache["conntask.plumbing"] = out
        return out
    out["server"] = servers[0]
    RUN = SERVER + "::run::{closure#0}"
    rb = f.one(RUN)

    def pol(body, a):
        if body.path == CLIENT + "::new" or body.path.startswith(CLIENT + "::handle"):
            return "opaque"
        return "inline"

    cn_args = []
    for S in servers:
        for x in atoms(tform(S)):
            if isinstance(x, tuple) and x and x[0] == "call" and x[1] == "tokio::sync::Semaphore::new":
                out["sem_new_args"].append(x[3][0] if x[3] else None)
        caps = [S if c_["name"] == "self" else P(c_["name"]) for c_ in rb.captures] or [S]
        for p in Interp(f, loop_bound=1, policy=pol).run(rb, [ClosureV(RUN, caps, "coroutine"), P("cx")]):
            for e in p.events:
                if e.kind == "call" and e.name == CLIENT + "::new":
                    cn_args.append(e.args)
                if e.kind == "call" and e.name.endswith("Socket::listen"):
                    out["listen_args"].append(e.args[1] if len(e.args) > 1 else None)
    if not cn_args:
        ctx._cache["conntask.plumbing"] = out
        return out
    out["client_new_args"] = cn_args[0]
    cb = f.one(CLIENT + "::new")
    clients = []
    seen_args = set()
    for a in cn_args:
        k = repr([tform(x) for x in a])
        if k in seen_args:
            continue
        seen_args.add(k)
        clients += [p.ret for p in Interp(f, models=BUF_MODELS).run(cb, list(a)) if isinstance(p.ret, Struct)]
    clients = distinct(clients)
    if not clients or len(clients) > 8:
        ctx._cache["conntask.plumbing"] = out
        return out
    out["client"] = clients[0]
    out["clients"] = clients
    HL = HANDLE + "::{closure#0}"
    hb = f.one(HL)

    def pol2(body, a):
        if body.path.startswith(CONN + "::") or body.path.startswith(HANDLER + "::"):
            return "opaque"
        return "inline"

    for C in clients:
        for p in Interp(f, loop_bound=1, policy=pol2).run(hb, [ClosureV(HL, [C], "coroutine"), P("cx")]):
            for e in p.events:
                if e.kind == "call" and strip_generics(e.name) in TIMEOUTS:
                    out["timeout_durations"].append(e.args[0])
    ctx._cache["conntask.plumbing"] = out
    return out
