"""C15 — no eviction without memory pressure (accounting tracks content)."""
from rules.common import *  # noqa: F401,F403
from rules.storefacts import field_of
from rules import roles

LEVEL_TEXT = (
    "Static effect pairing: for every method of RandomPolicy each call into the inner store is classified by its effect "
    "on the content (table below, derived from MemoryStore: set adds and may replace or fail; delete/remove/remove_if "
    "remove and return what they removed; flush clears or rewrites; get/check_if_expired may remove an expired record) and "
    "the accounting calls (fetch_add / fetch_sub on memory_usage) that are tied to it are located. R1 requires: each "
    "removing effect is followed by a subtraction of the size of each removed record; an addition is made only for a store "
    "that succeeded and net of the record it replaced; the empty-store reset does not subtract a stale value. Five "
    "instances are unbalanced today; they are genuine (the property text names them) and a repair needs the Cache trait to "
    "report replaced/removed sizes, so they are recorded as known findings. The balanced ones (delete, remove, the sweep's "
    "own remove_if) are guarded, including that what is subtracted is the same measure (Record::len) that was added. R2: the "
    "store's remove_if selects an entry for removal exactly when the caller's predicate accepted it (the sweep's predicate "
    "picks one victim: nothing else may go). Not decided: the behavioural form (a live key disappearing)."
)
ASSUMPTIONS = ["content-effect table of the Cache methods (rules/c15.py EFFECTS), read off MemoryStore's bodies"]


EFFECTS = {
    "set": "adds (may replace an existing record, may fail)",
    "delete": "removes, returns the record",
    "remove": "removes, returns the pair",
    "remove_if": "removes, returns the pairs",
    "flush": "clears / rewrites all",
    "get": "may remove an expired record",
    "check_if_expired": "may remove an expired record",
    "get_by_key": "none",
    "len": "none",
    "is_empty": "none",
    "as_read_only": "none",
}


def two_way(p, term):
    """0 / 1 / None: discriminant fact of a two-variant enum value on this path"""
    d = p.state.discr.get(term)
    if isinstance(d, int):
        return d
    if isinstance(d, tuple) and d[0] == "not" and len(d[1]) == 1:
        return 1 - list(d[1])[0]
    return None


def is_usage(e, what, usage):
    return e.kind == "call" and e.name.endswith(what) and e.args and tform(e.args[0]) == usage


def check_measure(ctx, rep, where, amount, b):
    """what is subtracted for a removed record is the same measure that set added for it: Record::len()"""
    from rules.c14 import record_measure, size_measure

    ref = record_measure(ctx)
    m = size_measure(amount)
    rep.check(ref is not None and m is not None and m[:2] == ref, "%s:measure" % where, "subtracts Record::len() of the removed record", "RandomPolicy::%s subtracts %s for a removed record, which is not its Record::len() (value length x%s + %s) that the store path added: every add/remove pair leaves a residue, the counter drifts (or wraps below zero) and live items are evicted without memory pressure" % (where, short(amount, 80), ref[0] if ref else "?", ref[1] if ref else "?"), b.loc())


def r1(ctx):
    rep = Report("C15.R1", "accounting balance per RandomPolicy method: removals subtracted, additions only for successful stores and net of the replaced record, reset not stale", floor=10)
    f = ctx.facts
    R = roles.get(ctx)
    USAGE = F(P("self"), R.rp_usage)
    sweep = R.policy_sweep()
    methods = [b for b in f.bodies.values() if b.impl_self == RP and b.kind == "assoc_fn" and (b.impl_trait is not None or b.path == sweep.path)]
    for b in sorted(methods, key=lambda x: x.path):
        rep.analysed(b)
        argn = [b.local_name(i) or "a%d" % i for i in b.arg_locals()]
        pol = (lambda body, a: "opaque" if (body.path == sweep.path and b.path != sweep.path) else "inline")
        I = Interp(f, loop_bound=1, policy=pol)
        paths = I.run(b, [P(n) for n in argn])
        rep.evaluations += len(paths)
        nm = "sweep" if (b.path == sweep.path and b.impl_trait is None) else b.name
        sweep_subs = [0]
        saw_sweep_remove_if = [False]
        for p in paths:
            calls = [e for e in p.events if e.kind == "call"]
            inner = [(i, e) for i, e in enumerate(calls) if e.name.startswith(CACHE + "::") or e.name.startswith(IMPLD + "::")]
            adds = [(i, e) for i, e in enumerate(calls) if is_usage(e, "fetch_add", USAGE) or e.name == sweep.path]
            subs = [(i, e) for i, e in enumerate(calls) if is_usage(e, "fetch_sub", USAGE)]
            for i, e in inner:
                m = e.name.split("::")[-1]
                eff = EFFECTS.get(m)
                if eff is None:
                    rep.bad("%s:unknown-inner-call:%s" % (nm, m), "RandomPolicy::%s calls Cache::%s whose content effect the checker does not know" % (nm, m), b.loc())
                    continue
                if m == "set":
                    # (a) net of the replaced record
                    rep.bad("%s:set:overwrite-not-credited" % nm, "every store adds the new record's size to the usage but the record it replaces is never subtracted (the inner set does not report it): overwriting a key N times accounts N records; 30 overwrites of a 10-byte value under a 1000-byte limit evict an unrelated key", b.loc()) if not any(j > i for j, _ in subs) else rep.ok("%s:set:overwrite-credited" % nm, "replaced record subtracted", b.loc())
                    # (b) only when the set succeeded
                    add_before = [j for j, _ in adds if j < i]
                    cond_on_result = any(e.result in atoms(c) for c, _t, _s, at in p.state.pc)
                    undone_on_failure = any(j > i for j, _ in subs)
                    if add_before and not undone_on_failure:
                        rep.bad("%s:set:failed-store-accounted" % nm, "the usage is raised before the inner set and not lowered again when the set fails (CAS mismatch -> KeyExists): failed conditional stores inflate the usage", b.loc())
                    else:
                        rep.ok("%s:set:failed-store-not-accounted" % nm, "failed stores do not stay accounted", b.loc())
                elif m in ("delete", "remove"):
                    ok_path = two_way(p, e.result)
                    removed = (m == "delete" and ok_path == 0) or (m == "remove" and ok_path == 1)
                    not_removed = (m == "delete" and ok_path == 1) or (m == "remove" and ok_path == 0)
                    mine = [s for j, s in subs if j > i and e.result in atoms(s.args[1])]
                    if removed:
                        ok = len(mine) == 1 and any((isinstance(x, tuple) and x[0] == "call" and x[1].endswith("::len")) or (isinstance(x, tuple) and x[0] == "len") for x in atoms(mine[0].args[1]))
                        rep.check(ok, "%s:%s:removed-subtracted" % (nm, m), "removed record's size subtracted once", "RandomPolicy::%s removes a record through the inner %s but subtracts %s" % (nm, m, [short(s.args[1], 60) for s in mine] or "nothing"), b.loc())
                        if ok:
                            check_measure(ctx, rep, "%s:%s" % (nm, m), mine[0].args[1], b)
                    elif not_removed:
                        rep.check(not mine and not [s for j, s in subs if j > i], "%s:%s:nothing-removed-nothing-subtracted" % (nm, m), "no subtraction when nothing was removed", "RandomPolicy::%s subtracts although the inner %s removed nothing" % (nm, m), b.loc())
                    else:
                        rep.bad("%s:%s:unconditional" % (nm, m), "RandomPolicy::%s does not distinguish whether the inner %s removed a record" % (nm, m), b.loc())
                elif m == "remove_if":
                    if nm == "remove_if":
                        # plain pass-through: callers get the removed records and must account them (the sweep does)
                        rep.ok("%s:remove_if:pass-through" % nm, "returns the removed records to the caller", b.loc())
                        continue
                    saw_sweep_remove_if[0] = True
                    # subtractions made for records the inner remove_if handed back (inside whatever callback / loop walks
                    # the result: `match` on each Option, `flatten()`, `if let Some`): each must be that record's size
                    after = [s_ for j_, s_ in subs if j_ > i]
                    for_removed = [s_ for s_ in after if any(isinstance(x, tuple) and x and x[0] == "cbarg" for x in atoms(s_.args[1])) or e.result in atoms(s_.args[1])]
                    sweep_subs[0] += len(for_removed)
                    for a_ in for_removed:
                        check_measure(ctx, rep, "%s:remove_if" % nm, a_.args[1], b)
                    removed_none = any(isinstance(c, tuple) and c[0] == "discr" and "cbarg" in repr(c) and truth == 0 for c, truth, _s, _at in p.state.pc)
                    if removed_none and not any(isinstance(c, tuple) and c[0] == "discr" and "cbarg" in repr(c) and truth == 1 for c, truth, _s, _at in p.state.pc):
                        rep.check(not for_removed, "%s:remove_if:none-removed" % nm, "nothing subtracted for an empty slot", "the sweep subtracts for a slot that removed nothing", b.loc())
                elif m == "flush":
                    accounted = any(j > i for j, _ in subs) or any(c.name.endswith("::store") and tform(c.args[0]) == USAGE for c in calls)
                    rep.check(accounted, "%s:flush:not-accounted" % nm, "flush adjusts the usage", "flush empties (or schedules the emptying of) the inner store but the usage counter is left unchanged: after 'flush' the policy still believes the old content is stored and evicts live items of a workload that fits under the limit", b.loc())
                elif m in ("get", "check_if_expired"):
                    accounted = any(j > i for j, _ in subs)
                    rep.check(accounted, "%s:%s:expiry-removal-not-accounted" % (nm, m), "lazy expiry removal accounted", "the inner %s can remove an expired record (lazy expiry) but the policy never learns its size: expired items stay accounted forever" % m, b.loc())
            # overwriting writes to the counter
            for c_ in calls:
                if c_.args and tform(c_.args[0]) == USAGE and c_.name.split("::")[-1] in ("store", "swap", "fetch_and", "fetch_min", "fetch_update", "compare_exchange", "compare_exchange_weak"):
                    rep.bad("%s:usage-overwritten" % nm, "RandomPolicy::%s overwrites the usage counter (%s) instead of adding/subtracting record sizes: a reset is not atomic with the content (a concurrent set is accounted before it is inserted), so the counter drifts and later wraps — a live item is then evicted without memory pressure" % (nm, c_.name.split("::")[-1]), b.loc())
            # (e) the empty-store reset
            for j, s in subs:
                arg = s.args[1]
                stale = any(isinstance(x, tuple) and x[0] == "call" and x[1].endswith("fetch_add") for x in atoms(arg)) or any(isinstance(x, tuple) and x[0] == "call" and x[1].endswith("fetch_sub") for x in atoms(arg))
                if stale:
                    rep.bad("%s:reset-subtracts-stale-value" % nm, "when the store is empty the usage is 'reset' by subtracting a local copy read earlier (the value returned by fetch_add, i.e. the usage *before* this store was added, possibly changed by other threads since): the counter does not return to its initial value and can wrap below zero", loc_s(s.span))
        if saw_sweep_remove_if[0]:
            rep.check(sweep_subs[0] > 0, "%s:remove_if:removed-subtracted" % nm, "each evicted record's size subtracted", "the sweep does not subtract the size of each evicted record", b.loc())
    return rep


def r2(ctx):
    rep = Report("C15.R2", "the store's remove_if removes exactly what the caller's predicate accepted (the sweep's victim and nothing else)", floor=2)
    f = ctx.facts
    b = f.one(ms("remove_if"))
    rep.analysed(b)
    paths = store_interp(f, loop_bound=1).run(b, [P("self"), P("f")])
    rep.evaluations += len(paths)
    n_pred = n_sel = 0
    for p in paths:
        pred_calls = []
        removed_before = False
        for e in p.events:
            if e.kind == "map" and (e.extra.get("removes") or e.name in ("remove", "remove_if")):
                removed_before = True
            if e.kind == "call" and (e.name.endswith("FnMut::call_mut") or e.name.endswith("FnOnce::call_once") or e.name.endswith("Fn::call") or e.name == "<value>") and e.args:
                a0 = tform(e.args[0])
                if P("f") in atoms(a0) or a0 == P("f") or (isinstance(a0, tuple) and a0 and a0[0] == "captured"):
                    pred_calls.append(e)
                    n_pred += 1
            sel = None
            if e.kind == "callback-return" and e.name.split("::")[-1] in ("filter", "retain", "take_while", "skip_while", "filter_map", "position", "any", "all", "find"):
                sel = e.args[0]
            elif e.kind == "call" and e.name.endswith("Vec::push") and not removed_before and "removed" not in repr(tform(e.args[1]) if len(e.args) > 1 else ""):
                sel = 1  # a key put on the to-remove list (pushes after the first removal collect results)
            if sel is None:
                continue
            n_sel += 1
            last = pred_calls[-1] if pred_calls else None
            if isinstance(sel, Struct) and sel.variant in ("Some", "None") and e.name.split("::")[-1] == "filter_map":
                sel = 1 if sel.variant == "Some" else 0  # filter_map keeps the entry exactly when the closure yields Some
            if last is None:
                ok = False
            elif tform(sel) == last.result:
                ok = True
            elif isinstance(sel, int):
                ok = bool_fact(p, last.result) is bool(sel)
            else:
                ok = False
            rep.check(ok, "remove_if:selects-what-the-predicate-accepts", "an entry is selected for removal exactly when the caller's predicate said so", "MemoryStore::remove_if selects an entry by %s, not by the caller's predicate alone: the eviction sweep (whose predicate picks one victim) removes other items too — live items are evicted without memory pressure" % short(sel, 80), b.loc())
    rep.check(n_pred > 0 and n_sel > 0, "remove_if:consults-predicate", "the predicate is consulted (%d calls, %d selections)" % (n_pred, n_sel), "MemoryStore::remove_if never consults its predicate / selects nothing through it (%d calls, %d selections)" % (n_pred, n_sel), b.loc())
    return rep


RULES = [("C15.R1", r1), ("C15.R2", r2)]
