"""C17 — connection limit is enforced and slots are always returned."""
from collections import OrderedDict

from rules.common import *  # noqa: F401,F403
from rules.storefacts import field_of
from rules.c13 import chase_mentions
import callgraph

LEVEL_TEXT = (
    'Static permit accounting: R1 the accept loop is evaluated by the abstract interpreter on MemcacheTcpServer::run '
    'with every in-crate helper (sync or async) inlined, one round per path: a round that spawns a client task has '
    "performed exactly one Semaphore::acquire on the server's semaphore whose permit is consumed by forget, both "
    'before the spawn; the Client is built with that very semaphore; the spawned task owns that Client and runs '
    'Client::handle on it; R2 exactly one permit is returned per Client, on every way the task can end: the '
    'destructor (Drop) of the Client — or of a value the Client owns — calls add_permits(1) on the semaphore exactly '
    'once, nobody else calls add_permits/forget/close, and Client is neither Clone/Copy nor leaked (mem::forget, '
    "ManuallyDrop, Box::leak, Rc/Arc) — so Rust's ownership gives 'dropped exactly once' for return, error, timeout, "
    'panic and task abort alike; R3 no round ends (return, `?`, next round) between the construction of a Client and '
    'the forget of its permit; R4 the semaphore is sized by the configured connection limit and is constructed once '
    'per server process (not per listener thread, not in a loop); R5 every socket read reachable from Client::handle '
    '(walked over the call graph, with the futures handed to tokio::time::timeout marked) is bounded by a timeout '
    'derived from a configured timeout field — a silent peer cannot keep its task, and with it its slot, forever. Not '
    "decided: that waiting connections are picked up 'as soon as' a slot frees (tokio fairness), the kernel backlog."
)
ASSUMPTIONS = [
    "tokio::sync::Semaphore contract: acquire().await yields one permit; forget() keeps it taken; add_permits(n) returns n",
    "Rust ownership: a value that is not Copy/Clone, not forgotten and not leaked is dropped exactly once, including on unwind and task abort",
]

RUN = SERVER + "::run::{closure#0}"
SEM = "tokio::sync::Semaphore::"


def call_blocks(b, pred):
    return [(bb, t) for bb, t in b.calls() if pred(strip_generics(t.callee.path or ""), t)]


SPAWN = ("tokio::spawn", "tokio::task::spawn", "tokio::task::spawn::spawn")


def accept_paths(ctx):
    """paths of MemcacheTcpServer::run through one round of the accept loop, with every in-crate helper (sync or async)
    inlined — so the rules do not depend on how the loop body is divided into functions. Client::new / Client::handle stay
    opaque (events). Returns [(path, events of the round after `accept`)]"""
    if "c17.accept_paths" not in ctx._cache:
        f = ctx.facts
        b = f.one(RUN)

        def pol(body, a):
            if body.path == CLIENT + "::new" or body.path.startswith(CLIENT + "::handle"):
                return "opaque"
            return "inline"

        I = Interp(f, loop_bound=1, policy=pol)
        out = []
        for p in I.run(b, [P("self")]):
            evs = [e for e in p.events if e.kind == "call"]
            acc = [k for k, e in enumerate(evs) if e.name == "tokio::net::TcpListener::accept"]
            if not acc:
                continue
            rnd = evs[acc[0] + 1 : (acc[1] if len(acc) > 1 else None)]
            out.append((p, rnd))
        ctx._cache["c17.accept_paths"] = (b, out)
    return ctx._cache["c17.accept_paths"]


def _is(e, *names):
    return any(e.name == n or e.name.endswith(n) for n in names)


def r1(ctx):
    rep = Report("C17.R1", "accept loop: one acquire -> forget before every spawn; Client gets a clone of the acquired semaphore; spawned task owns the Client and runs handle", floor=6)
    b, rounds = accept_paths(ctx)
    rep.analysed(b)
    rep.evaluations += len(rounds)
    n_spawn = 0
    for p, evs in rounds:
        acq = [k for k, e in enumerate(evs) if _is(e, SEM + "acquire", SEM + "acquire_owned")]
        fg = [k for k, e in enumerate(evs) if _is(e, "SemaphorePermit::forget", "OwnedSemaphorePermit::forget")]
        sp = [k for k, e in enumerate(evs) if e.name in SPAWN]
        cn = [k for k, e in enumerate(evs) if e.name == CLIENT + "::new"]
        if not sp:
            # a permit taken and kept on a round that serves nobody would shrink the limit for good
            ended = not p.cut and p.ret is not None
            rep.check(not (acq and fg) or ended, "permit-kept-without-task", "no permit is kept on a round that spawns no task", "a round of the accept loop takes and keeps a permit (acquire + forget) but spawns no client task: that slot is never returned", b.loc())
            continue
        n_spawn += 1
        ok_sites = len(acq) == 1 and len(fg) == 1 and len(sp) == 1 and len(cn) == 1
        rep.check(ok_sites, "sites", "one acquire, one forget, one spawn, one Client::new per accepted connection", "a round of the accept loop performs %d acquire / %d forget / %d spawn / %d Client::new (one each per accepted connection)" % (len(acq), len(fg), len(sp), len(cn)), b.loc())
        if not ok_sites:
            # still name the most telling defect
            if sp and (not acq or not fg or min(acq + [10**6]) > sp[0] or min(fg + [10**6]) > sp[0]):
                rep.bad("order:acquire<forget<spawn", "a client task can be spawned without a permit having been taken and kept (no acquire + forget before the spawn): more than connection-limit connections are served", loc_s(evs[sp[0]].span))
            continue
        a, g, s_, c = acq[0], fg[0], sp[0], cn[0]
        A, G, S, C = evs[a], evs[g], evs[s_], evs[c]
        rep.check(a < g < s_, "order:acquire<forget<spawn", "acquire, then forget, then spawn", "a client task can be spawned without a permit having been taken and kept (acquire/forget do not precede the spawn): more than connection-limit connections are served", loc_s(S.span))
        rep.check(c < s_, "order:Client::new<spawn", "the Client is built before the spawn", "spawn happens without a Client built in this round", loc_s(S.span))
        rep.check(A.result in atoms(G.args[0]), "forget-of-acquired-permit", "forget() consumes the permit returned by acquire", "the permit that is forgotten (%s) is not the one that was acquired" % short(G.args[0], 60), loc_s(G.span))
        def base(t):
            t = tform(t)
            while isinstance(t, tuple) and t and t[0] in ("deref", "ref"):
                t = t[1]
            return t

        def is_server_sem(t):
            t = base(t)
            if not (isinstance(t, tuple) and t[0] == "field" and t[2] == "limit_connections"):
                return False
            r = t[1]
            while isinstance(r, tuple) and r and r[0] in ("field", "deref", "ref"):
                r = r[1]
            return r == P("self")

        rep.check(is_server_sem(A.args[0]), "acquire-on-server-semaphore", "acquire on self.limit_connections", "acquire is called on %s, not on the server's limit_connections semaphore" % short(A.args[0], 60), loc_s(A.span))
        sem_arg = C.args[4] if len(C.args) == 5 else None
        # Arc::clone is the identity on the pointee: the Client must hold the very semaphore that is acquired
        same = sem_arg is not None and is_server_sem(sem_arg) and base(sem_arg) == base(A.args[0])
        rep.check(same, "client-gets-same-semaphore", "Client::new(.., Arc::clone(&self.limit_connections))", "the Client is given %s, not a clone of the semaphore that is acquired (%s): its Drop returns permits to another semaphore" % (short(sem_arg, 60), short(A.args[0], 60)), loc_s(C.span))
        # the spawned future owns that Client and runs handle on it
        H = [e for e in evs[s_ + 1 :] if e.name.startswith(CLIENT + "::handle")]
        fut = S.args[0] if S.args else None
        owns = any(C.result in atoms(v) for v in fut.caps) if isinstance(fut, ClosureV) else C.result in atoms(fut)
        runs = bool(H) and C.result in atoms(H[0].args[0])
        rep.check(owns and runs, "spawned-task-owns-client", "spawn(async move { client.handle().await })", "the spawned task does not own the Client built for this connection / does not run Client::handle on it: the permit is not tied to the task's lifetime", loc_s(S.span))
    rep.check(n_spawn > 0, "sites", "a round that spawns a client task exists", "accept loop has 0 rounds that reach tokio::spawn (cannot locate acquire / forget / spawn / Client::new)", b.loc())
    return rep


def chase_calls(body, operand, pred, depth=0, seen=None):
    """does the operand derive (through temporaries) from the result of a call satisfying pred?"""
    seen = seen if seen is not None else set()
    if operand.kind == "const" or operand.place is None or depth > 16:
        return False
    l = operand.place.local
    if l in seen:
        return False
    seen.add(l)
    for blk in body.blocks:
        t = blk.term
        if t.k == "call" and t.dest is not None and t.dest.local == l:
            n = strip_generics(t.callee.path or "")
            if pred(n):
                return True
            for o in t.args:
                if chase_calls(body, o, pred, depth + 1, seen):
                    return True
        for s in blk.stmts:
            if s.k == "assign" and s.place.local == l:
                for o in s.rv.ops:
                    if chase_calls(body, o, pred, depth + 1, seen):
                        return True
                if s.rv.place is not None and s.rv.place.local != l:
                    class _O:
                        pass

                    o = _O()
                    o.kind = "copy"
                    o.place = s.rv.place
                    o.const = None
                    if chase_calls(body, o, pred, depth + 1, seen):
                        return True
    return False


def closure_defs(body, operand):
    from rules.c16 import closure_defs_of

    return closure_defs_of(body, operand)


def permit_returning_drops(ctx):
    """Drop impls of the crate whose drop() (or what it calls) returns permits with add_permits"""
    f = ctx.facts
    cg = callgraph.get(ctx)
    out = []
    for b in f.bodies.values():
        if b.impl_trait == "std::ops::Drop" and b.name == "drop":
            reach = cg.reachable([b.path])
            if any(t.callee.name == "add_permits" and (t.callee.path or "").startswith(SEM) for r in reach for _bb, t in cg.sites.get(r, ())):
                out.append(b)
    return out


def owned_by_client(f, ty, depth=0, seen=None):
    """is a value of type `ty` (an ADT path) the Client itself or stored by value in one of its fields (transitively)?"""
    if ty == CLIENT:
        return True
    seen = seen if seen is not None else set()

    def holds(adt_path):
        if adt_path in seen or depth > 6:
            return False
        seen.add(adt_path)
        a = f.adts.get(adt_path)
        if a is None:
            return False
        for v in a["variants"]:
            for fld in v["fields"]:
                t = fld["ty"]
                if t == ty or t.startswith(ty + "<"):
                    return True
                if t in f.adts and holds(t):
                    return True
        return False

    return holds(CLIENT)


def r2(ctx):
    rep = Report("C17.R2", "exactly one permit returned per Client on every exit: Drop = add_permits(1) once; no other add_permits/forget/close; Client not Clone/Copy/leaked", floor=6)
    f = ctx.facts
    drops = permit_returning_drops(ctx)
    # only a destructor covers every way a task can end (return, error, timeout, panic, abort of the task)
    rep.check(len(drops) == 1, "drop:returns-permit", "one Drop impl returns the permit (%s)" % [d.impl_self for d in drops], "%d Drop impls return permits (%s): the slot must be returned by the destructor of the Client (or of a value it owns) — code at the end of the task does not run when the task ends by an early return, `?`, a panic or an abort, and the slot is lost" % (len(drops), [d.impl_self for d in drops]), safe_loc(f, CLIENT + "::handle"))
    if len(drops) != 1:
        return rep
    db = drops[0]
    guard_ty = db.impl_self
    rep.check(owned_by_client(f, guard_ty), "drop:owned-by-client", "%s is the Client / owned by it" % guard_ty.split("::")[-1], "the type whose Drop returns the permit (%s) is not the Client or a value stored in it: its lifetime is not the connection task's" % guard_ty, db.loc())
    rep.analysed(db)
    paths = Interp(f).run(db, [P("self")])
    rep.check(bool(paths), "drop:paths", "drop evaluated", "cannot evaluate %s::drop" % guard_ty, db.loc())
    for p in paths:
        adds = [e for e in p.events if e.kind == "call" and e.name.endswith("Semaphore::add_permits")]
        ok = len(adds) == 1 and adds[0].args[1] == 1 and any(isinstance(x, tuple) and x[0] == "field" and x[2] == "limit_connections" for x in atoms(adds[0].args[0]))
        rep.check(ok, "drop:add_permits(1)-once", "add_permits(1) on self.limit_connections, once", "%s::drop returns %s permits (%s): %s" % (guard_ty.split("::")[-1], len(adds), [short(a.args[1], 10) for a in adds], "slots leak: after enough connections nothing is served" if not adds else "the limit grows/shrinks with every connection"), db.loc())
    # census
    cg = callgraph.get(ctx)
    sites = cg.callers_of(lambda c: c.path and (c.path.startswith(SEM) or "SemaphorePermit::" in c.path) and c.name in ("add_permits", "forget", "close", "forget_permits", "acquire", "acquire_owned", "try_acquire", "acquire_many"))
    # the accept side = whatever run() reaches (its helpers, sync or async), minus what the connection task runs
    handle_side = cg.reachable([x for x in f.bodies if x.startswith(CLIENT + "::handle")])
    drop_side = cg.reachable([db.path])
    accept_side = cg.reachable([RUN]) - handle_side - drop_side
    allowed = set(("add_permits", x) for x in drop_side)
    for bp, bb, t in sites:
        k = (t.callee.name, bp)
        rep.check(k in allowed or (t.callee.name in ("forget", "acquire") and bp in accept_side), "permit-op:%s@%s" % k, "%s in %s" % k, "Semaphore::%s is called in %s: permits are taken/returned outside the accept loop / Client::drop pairing" % k, loc_s(t.span))
    # Client is not Clone / Copy
    for i in f.impls:
        if i["self"] == CLIENT and i.get("trait") in ("std::clone::Clone", "std::marker::Copy"):
            rep.bad("client-impl:%s" % i["trait"], "Client implements %s: a copy is dropped separately and returns a second permit" % i["trait"], loc_s(i["span"]))
    rep.ok("client-not-clone", "Client is neither Clone nor Copy", None)
    # leaks
    leakers = ("std::mem::forget", "core::mem::forget", "std::mem::ManuallyDrop::new", "std::boxed::Box::leak", "std::rc::Rc::new", "std::sync::Arc::new", "std::mem::MaybeUninit::new")
    n = 0
    for b in f.bodies.values():
        if b.crate not in ("memcrs.lib", "memcrsd.bin"):
            continue
        for bb, t in b.calls():
            nm = strip_generics(t.callee.path or "")
            if nm in leakers:
                for o in t.args:
                    if o.place is not None and "client_handler::Client" in b.local_ty(o.place.local) and "ClientConfig" not in b.local_ty(o.place.local):
                        n += 1
                        rep.bad("client-leak:%s@%s" % (nm.split("::")[-1], b.path), "a Client is passed to %s in %s: its Drop (and with it the permit's return) may never run / run late" % (nm, b.path), loc_s(t.span))
    rep.ok("client-not-leaked", "no mem::forget / ManuallyDrop / Box::leak / Rc / Arc of a Client", None)
    return rep


def r3(ctx):
    rep = Report("C17.R3", "no normal exit between Client::new and the forget of its permit", floor=1)
    f = ctx.facts
    b, rounds = accept_paths(ctx)
    rep.analysed(b)
    n = 0
    bad = []
    for p, evs in rounds:
        cn = [k for k, e in enumerate(evs) if e.name == CLIENT + "::new"]
        for c in cn:
            n += 1
            later = evs[c + 1 :]
            kept = any(_is(e, "SemaphorePermit::forget", "OwnedSemaphorePermit::forget") for e in later)
            if not kept:
                # the round ends (return, `?`, continue) with a Client alive and no permit taken for it
                how = "return %s" % short(p.ret, 50) if (not p.cut and p.ret is not None) else "next round of the loop"
                bad.append((how, evs[c]))
    rep.check(n > 0, "sites", "Client::new located in the accept loop (%d paths)" % n, "cannot locate Client::new / forget in the accept loop", b.loc())
    rep.check(not bad, "no-exit-between-new-and-forget", "every normal path from Client::new reaches forget()", "a Client can be dropped (returning a permit) on a path where no permit was taken: %s — the limit grows by one each time" % sorted(set(h for h, _e in bad))[:3], loc_s(bad[0][1].span) if bad else b.loc())
    # advisory: the two `?` before Client::new end the accept loop on a per-connection error
    rb = f.one(RUN)
    q = [t for bb, t in rb.calls() if strip_generics(t.callee.path or "") in ("tokio::net::TcpStream::set_nodelay", "tokio::net::TcpStream::set_linger")]
    if q:
        rep.advise("set_nodelay/set_linger errors are propagated with `?` out of the accept loop: one failing socket option would stop the listener (not alarmed: not reproducible on Linux, and not a permit-accounting issue)")
    return rep


def r4(ctx):
    rep = Report("C17.R4", "semaphore sized by the configured connection limit and constructed once per server process", floor=4)
    f = ctx.facts
    nb = f.one(SERVER + "::new")
    rep.analysed(nb)
    for p in Interp(f).run(nb, [P("config"), P("store")]):
        sem = field_of(p.ret, "limit_connections")
        news = [x for x in atoms(sem) if isinstance(x, tuple) and x[0] == "call" and x[1] == SEM + "new"]
        ok = len(news) == 1 and F(P("config"), "connection_limit") in atoms(news[0][3][0])
        rep.check(ok, "Semaphore::new(connection_limit)", "Semaphore::new(config.connection_limit)", "the connection semaphore is created with %s permits, not the configured connection limit" % (short(news[0][3][0], 60) if news else "?"), nb.loc())
    # plumbing: the server config's connection_limit <- the CLI connection limit, in both builders
    from rules import builderfacts

    for fn in builderfacts.BUILDERS:
        bf = builderfacts.builder_facts(ctx, fn)
        okp = bool(bf["news"]) and all(field_of(cfg, "connection_limit") == F(P("config"), "connection_limit") for cfg, _st, _e in bf["news"])
        rep.check(okp, "plumbing:%s" % fn, "server config connection_limit <- args.connection_limit", "%s does not pass the CLI connection limit as the server's connection_limit" % fn, bf["body"].loc())
    # multiplicity: every construction site of MemcacheTcpServer::new / Semaphore::new runs once per process
    cg = callgraph.get(ctx)
    for callee_name in (SERVER + "::new", SEM + "new"):
        for bp, bb, t in cg.callers_of(lambda c: strip_generics(c.path or "") == callee_name):
            body = f.bodies[bp]
            if body.crate not in ("memcrs.lib", "memcrsd.bin"):
                continue
            in_closure = body.kind in ("closure", "coroutine")
            in_loop = any(bb in natural_loop(body, tail, head) for tail, head in body.has_cycle())
            k = "once:%s@%s" % (callee_name.split("::")[-2] + "::new", bp)
            rep.check(not in_closure and not in_loop, k, "constructed once (not in a loop, not in a per-thread closure)", "%s is constructed %s in %s: every listener thread gets its own semaphore, so with N threads up to N x connection-limit connections are served" % (callee_name.split("::")[-2], "inside a loop" if in_loop else "inside a per-thread closure", bp), loc_s(t.span))
    return rep


def natural_loop(body, tail, head):
    """blocks of the natural loop of back edge tail->head"""
    loop = {head, tail}
    st = [tail]
    preds = body.preds()
    while st:
        x = st.pop()
        if x == head:
            continue
        for p in preds[x]:
            if p not in loop:
                loop.add(p)
                st.append(p)
    return loop


def r5(ctx):
    rep = Report("C17.R5", "idle timeout returns the slot: every wait for client bytes inside the connection task runs under tokio::time::timeout(rx_timeout_secs)", floor=3)
    from rules import conntask

    return conntask.rule_bounded_reads(rep, ctx)


RULES = [("C17.R1", r1), ("C17.R2", r2), ("C17.R3", r3), ("C17.R4", r4), ("C17.R5", r5)]
