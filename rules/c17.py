"""C17 — connection limit is enforced and slots are always returned."""
from collections import OrderedDict

from rules.common import *  # noqa: F401,F403
from rules.storefacts import field_of
from rules.c13 import chase_mentions
import callgraph

LEVEL_TEXT = (
    "Static permit accounting: R1 in the accept loop every path from an accepted socket to tokio::spawn takes exactly one "
    "permit (Semaphore::acquire whose permit is consumed by SemaphorePermit::forget) before the spawn, the Client is "
    "built with a clone of the very semaphore that is acquired, and the spawned task owns that Client and runs "
    "Client::handle; R2 exactly one permit is returned per Client, on every way the task can end: <Client as Drop>::drop "
    "calls add_permits(1) on the client's semaphore exactly once, nobody else calls add_permits/forget/close, and Client is "
    "neither Clone/Copy nor leaked (mem::forget, ManuallyDrop, Box::leak, Rc/Arc) — so Rust's ownership gives 'dropped "
    "exactly once' for return, error, timeout, panic and task abort alike; R3 no normal exit lies between the construction "
    "of a Client and the forget of its permit (otherwise Drop would return a permit that was never taken); R4 the "
    "semaphore is sized by the configured connection limit and is constructed once per server process (not per listener "
    "thread, not in a loop). Not decided: that waiting connections are picked up 'as soon as' a slot frees (tokio "
    "fairness), the kernel backlog."
)
ASSUMPTIONS = [
    "tokio::sync::Semaphore contract: acquire().await yields one permit; forget() keeps it taken; add_permits(n) returns n",
    "Rust ownership: a value that is not Copy/Clone, not forgotten and not leaked is dropped exactly once, including on unwind and task abort",
]

RUN = SERVER + "::run::{closure#0}"
SEM = "tokio::sync::Semaphore::"


def call_blocks(b, pred):
    return [(bb, t) for bb, t in b.calls() if pred(strip_generics(t.callee.path or ""), t)]


def r1(ctx):
    rep = Report("C17.R1", "accept loop: one acquire -> forget before every spawn; Client gets a clone of the acquired semaphore; spawned task owns the Client and runs handle", floor=6)
    f = ctx.facts
    b = f.one(RUN)
    rep.analysed(b)
    acq = call_blocks(b, lambda n, t: n == SEM + "acquire" or n == SEM + "acquire_owned")
    fg = call_blocks(b, lambda n, t: n.endswith("SemaphorePermit::forget") or n.endswith("OwnedSemaphorePermit::forget"))
    sp = call_blocks(b, lambda n, t: n in ("tokio::spawn", "tokio::task::spawn", "tokio::task::spawn::spawn"))
    cn = call_blocks(b, lambda n, t: n == CLIENT + "::new")
    rep.check(len(acq) == 1 and len(fg) == 1 and len(sp) == 1 and len(cn) == 1, "sites", "one acquire, one forget, one spawn, one Client::new in the accept loop", "accept loop has %d acquire / %d forget / %d spawn / %d Client::new call sites (one each confirmed)" % (len(acq), len(fg), len(sp), len(cn)), b.loc())
    if not (len(acq) == 1 and len(fg) == 1 and len(sp) == 1 and len(cn) == 1):
        return rep
    a, g, s, c = acq[0][0], fg[0][0], sp[0][0], cn[0][0]
    rep.check(b.dominates(a, g) and b.dominates(g, s), "order:acquire<forget<spawn", "acquire dominates forget dominates spawn", "a client task can be spawned without a permit having been taken and kept (acquire/forget do not dominate the spawn): more than connection-limit connections are served", loc_s(sp[0][1].span))
    rep.check(b.dominates(c, s), "order:Client::new<spawn", "the Client is built before the spawn", "spawn is reachable without Client::new", loc_s(sp[0][1].span))
    # the permit that is forgotten is the one acquired: forget's receiver derives from the acquire future's result
    ft = fg[0][1]
    rep.check(chase_calls(b, ft.args[0], lambda n: n == SEM + "acquire" or n == SEM + "acquire_owned"), "forget-of-acquired-permit", "forget() consumes the permit returned by acquire", "the permit that is forgotten is not the one that was acquired", loc_s(ft.span))
    # same semaphore: acquire on self.limit_connections; Client::new arg 4 <- clone of self.limit_connections
    at = acq[0][1]
    rep.check(chase_mentions(b, at.args[0], ("limit_connections",)), "acquire-on-server-semaphore", "acquire on self.limit_connections", "acquire is not called on the server's limit_connections semaphore", loc_s(at.span))
    ct = cn[0][1]
    rep.check(len(ct.args) == 5 and chase_mentions(b, ct.args[4], ("limit_connections",)) and chase_calls(b, ct.args[4], lambda n: n.endswith("Clone::clone")), "client-gets-same-semaphore", "Client::new(.., Arc::clone(&self.limit_connections))", "the Client is not given a clone of the semaphore that is acquired: its Drop returns permits to another semaphore", loc_s(ct.span))
    # spawned future owns the client and calls handle
    st = sp[0][1]
    fut_defs = closure_defs(b, st.args[0])
    ok = False
    for d in fut_defs:
        fb = f.bodies.get(d)
        if fb is None:
            continue
        caps = [c_["name"] for c_ in fb.captures]
        by = [c_["by"] for c_ in fb.captures]
        calls_handle = any(strip_generics(t.callee.path or "") == CLIENT + "::handle" for _bb, t in fb.calls())
        ok = "client" in caps and all("ByValue" in x for x in by) and calls_handle
    rep.check(ok, "spawned-task-owns-client", "spawn(async move { client.handle().await })", "the spawned task does not own the Client by value / does not run Client::handle: the permit is not tied to the task's lifetime", loc_s(st.span))
    # acquire happens on every loop iteration that spawns: both inside the same loop body (no spawn outside)
    return rep


def chase_calls(body, operand, pred, depth=0, seen=None):
    """does the operand derive (through temporaries) from the result of a call satisfying pred?"""
    seen = seen if seen is not None else set()
    if operand.kind == "const" or operand.place is None or depth > 16:
        return False
    l = operand.place.local
    if l in seen:
        return False
    seen.add(l)
    for blk in body.blocks:
        t = blk.term
        if t.k == "call" and t.dest is not None and t.dest.local == l:
            n = strip_generics(t.callee.path or "")
            if pred(n):
                return True
            for o in t.args:
                if chase_calls(body, o, pred, depth + 1, seen):
                    return True
        for s in blk.stmts:
            if s.k == "assign" and s.place.local == l:
                for o in s.rv.ops:
                    if chase_calls(body, o, pred, depth + 1, seen):
                        return True
                if s.rv.place is not None and s.rv.place.local != l:
                    class _O:
                        pass

                    o = _O()
                    o.kind = "copy"
                    o.place = s.rv.place
                    o.const = None
                    if chase_calls(body, o, pred, depth + 1, seen):
                        return True
    return False


def closure_defs(body, operand):
    from rules.c16 import closure_defs_of

    return closure_defs_of(body, operand)


def r2(ctx):
    rep = Report("C17.R2", "exactly one permit returned per Client on every exit: Drop = add_permits(1) once; no other add_permits/forget/close; Client not Clone/Copy/leaked", floor=6)
    f = ctx.facts
    db = f.one("<" + CLIENT + " as std::ops::Drop>::drop")
    rep.analysed(db)
    paths = Interp(f).run(db, [P("self")])
    rep.check(bool(paths), "drop:paths", "drop evaluated", "cannot evaluate Client::drop", db.loc())
    for p in paths:
        adds = [e for e in p.events if e.kind == "call" and e.name.endswith("Semaphore::add_permits")]
        ok = len(adds) == 1 and adds[0].args[1] == 1 and F(P("self"), "limit_connections") in atoms(adds[0].args[0])
        rep.check(ok, "drop:add_permits(1)-once", "add_permits(1) on self.limit_connections, once", "Client::drop returns %s permits (%s): %s" % (len(adds), [short(a.args[1], 10) for a in adds], "slots leak: after enough connections nothing is served" if not adds else "the limit grows/shrinks with every connection"), db.loc())
    # census
    cg = callgraph.get(ctx)
    sites = cg.callers_of(lambda c: c.path and (c.path.startswith(SEM) or "SemaphorePermit::" in c.path) and c.name in ("add_permits", "forget", "close", "forget_permits", "acquire", "acquire_owned", "try_acquire", "acquire_many"))
    allowed = {("add_permits", "<" + CLIENT + " as std::ops::Drop>::drop"), ("forget", RUN), ("acquire", RUN)}
    for bp, bb, t in sites:
        k = (t.callee.name, bp)
        rep.check(k in allowed, "permit-op:%s@%s" % k, "%s in %s" % k, "Semaphore::%s is called in %s: permits are taken/returned outside the accept loop / Client::drop pairing" % k, loc_s(t.span))
    # Client is not Clone / Copy
    for i in f.impls:
        if i["self"] == CLIENT and i.get("trait") in ("std::clone::Clone", "std::marker::Copy"):
            rep.bad("client-impl:%s" % i["trait"], "Client implements %s: a copy is dropped separately and returns a second permit" % i["trait"], loc_s(i["span"]))
    rep.ok("client-not-clone", "Client is neither Clone nor Copy", None)
    # leaks
    leakers = ("std::mem::forget", "core::mem::forget", "std::mem::ManuallyDrop::new", "std::boxed::Box::leak", "std::rc::Rc::new", "std::sync::Arc::new", "std::mem::MaybeUninit::new")
    n = 0
    for b in f.bodies.values():
        if b.crate not in ("memcrs.lib", "memcrsd.bin"):
            continue
        for bb, t in b.calls():
            nm = strip_generics(t.callee.path or "")
            if nm in leakers:
                for o in t.args:
                    if o.place is not None and "client_handler::Client" in b.local_ty(o.place.local) and "ClientConfig" not in b.local_ty(o.place.local):
                        n += 1
                        rep.bad("client-leak:%s@%s" % (nm.split("::")[-1], b.path), "a Client is passed to %s in %s: its Drop (and with it the permit's return) may never run / run late" % (nm, b.path), loc_s(t.span))
    rep.ok("client-not-leaked", "no mem::forget / ManuallyDrop / Box::leak / Rc / Arc of a Client", None)
    return rep


def r3(ctx):
    rep = Report("C17.R3", "no normal exit between Client::new and the forget of its permit", floor=1)
    f = ctx.facts
    b = f.one(RUN)
    cn = call_blocks(b, lambda n, t: n == CLIENT + "::new")
    fg = call_blocks(b, lambda n, t: n.endswith("SemaphorePermit::forget"))
    if len(cn) != 1 or len(fg) != 1:
        rep.bad("sites", "cannot locate Client::new / forget in the accept loop", b.loc())
        return rep
    start = cn[0][1].t
    stop = fg[0][0]
    region = b.reach_from(start, stop=(stop,))
    exits = []
    loop_heads = set(h for _t, h in b.has_cycle())
    for x in region:
        t = b.blocks[x].term
        if t.k == "return":
            exits.append(("return", x, t))
        for s in b.succs(x):
            # leaving through the back edge of the accept loop = giving up on this connection
            if s in loop_heads and not b.dominates(start, s) and s not in region:
                exits.append(("continue", x, t))
    # the await loop of acquire is inside the region and is fine (its head is dominated by `start`)
    rep.check(not exits, "no-exit-between-new-and-forget", "every normal path from Client::new reaches forget()", "a Client can be dropped (returning a permit) on a path where no permit was taken: %s — the limit grows by one each time" % [(k, loc_s(t.span)) for k, _x, t in exits][:3], loc_s(cn[0][1].span))
    # advisory: the two `?` before Client::new end the accept loop on a per-connection error
    q = [t for bb, t in b.calls() if strip_generics(t.callee.path or "") in ("tokio::net::TcpStream::set_nodelay", "tokio::net::TcpStream::set_linger")]
    if q:
        rep.advise("set_nodelay/set_linger errors are propagated with `?` out of the accept loop: one failing socket option would stop the listener (not alarmed: not reproducible on Linux, and not a permit-accounting issue)")
    return rep


def r4(ctx):
    rep = Report("C17.R4", "semaphore sized by the configured connection limit and constructed once per server process", floor=4)
    f = ctx.facts
    nb = f.one(SERVER + "::new")
    rep.analysed(nb)
    for p in Interp(f).run(nb, [P("config"), P("store")]):
        sem = field_of(p.ret, "limit_connections")
        news = [x for x in atoms(sem) if isinstance(x, tuple) and x[0] == "call" and x[1] == SEM + "new"]
        ok = len(news) == 1 and F(P("config"), "connection_limit") in atoms(news[0][3][0])
        rep.check(ok, "Semaphore::new(connection_limit)", "Semaphore::new(config.connection_limit)", "the connection semaphore is created with %s permits, not the configured connection limit" % (short(news[0][3][0], 60) if news else "?"), nb.loc())
    # plumbing: the server config's connection_limit <- the CLI connection limit, in both builders
    from rules import builderfacts

    for fn in builderfacts.BUILDERS:
        bf = builderfacts.builder_facts(ctx, fn)
        okp = bool(bf["news"]) and all(field_of(cfg, "connection_limit") == F(P("config"), "connection_limit") for cfg, _st, _e in bf["news"])
        rep.check(okp, "plumbing:%s" % fn, "server config connection_limit <- args.connection_limit", "%s does not pass the CLI connection limit as the server's connection_limit" % fn, bf["body"].loc())
    # multiplicity: every construction site of MemcacheTcpServer::new / Semaphore::new runs once per process
    cg = callgraph.get(ctx)
    for callee_name in (SERVER + "::new", SEM + "new"):
        for bp, bb, t in cg.callers_of(lambda c: strip_generics(c.path or "") == callee_name):
            body = f.bodies[bp]
            if body.crate not in ("memcrs.lib", "memcrsd.bin"):
                continue
            in_closure = body.kind in ("closure", "coroutine")
            in_loop = any(bb in natural_loop(body, tail, head) for tail, head in body.has_cycle())
            k = "once:%s@%s" % (callee_name.split("::")[-2] + "::new", bp)
            rep.check(not in_closure and not in_loop, k, "constructed once (not in a loop, not in a per-thread closure)", "%s is constructed %s in %s: every listener thread gets its own semaphore, so with N threads up to N x connection-limit connections are served" % (callee_name.split("::")[-2], "inside a loop" if in_loop else "inside a per-thread closure", bp), loc_s(t.span))
    return rep


def natural_loop(body, tail, head):
    """blocks of the natural loop of back edge tail->head"""
    loop = {head, tail}
    st = [tail]
    preds = body.preds()
    while st:
        x = st.pop()
        if x == head:
            continue
        for p in preds[x]:
            if p not in loop:
                loop.add(p)
                st.append(p)
    return loop


RULES = [("C17.R1", r1), ("C17.R2", r2), ("C17.R3", r3), ("C17.R4", r4)]
