"""C11 — every response is a well-formed, correctly correlated frame."""
from collections import OrderedDict

from rules.common import *  # noqa: F401,F403
from rules import dispatch
from rules.storefacts import field_of
from rules.c02 import memc_opaque
from rules.c13 import simplify_trunc
from bufmodel import BUF_MODELS

LEVEL_TEXT = (
    'Static clause check over every response the handler can build (abstract interpretation of handle_request for '
    "each of the request variants, store calls opaque): R1 magic = 0x81, opcode and opaque are the request's, data "
    'type 0, and these fields are written nowhere but in ResponseHeader::new; R2 the length fields agree with what '
    'the encoder writes after the header, variant by variant (hits: body = 4 + key + value, extras 4, key echoed '
    'exactly for the get-key opcodes; counters: 8 bytes; errors: body = length of the very message text that is sent; '
    'version: length of the version string sent; all others: no body), for both public encoder entry points '
    "(encode_message and Encoder::encode); R3 the header is serialised in protocol order with the protocol's widths "
    "(24 bytes), read off the same two entry points; R4 every status that can be sent is in the protocol's table and "
    'success responses carry status 0. Not decided: payload bytes themselves.'
)
ASSUMPTIONS = ["bytes BufMut semantic table (put_uN appends N bytes big-endian, put/put_slice append the slice)", "str::len / Bytes::len are byte lengths"]

PROTOCOL_STATUS = {0x01, 0x02, 0x03, 0x04, 0x05, 0x06, 0x81, 0x82, 0x83, 0x84, 0x85, 0x86}
HDR_ORDER = [("magic", 1), ("opcode", 1), ("key_length", 2), ("extras_length", 1), ("data_type", 1), ("status", 2), ("body_length", 4), ("opaque", 4), ("cas", 8)]


def responses(ctx):
    """list of (request variant, response Struct) over all handler paths"""
    if "c11_responses" in ctx._cache:
        return ctx._cache["c11_responses"]
    f = ctx.facts
    b = f.one(HANDLER + "::handle_request")
    adt = f.adts[BREQ]
    out = []
    for vi, v in enumerate(adt["variants"]):
        req = Struct(BREQ, v["name"], vi, OrderedDict([("0", P("payload"))]))
        I = Interp(f, policy=memc_opaque, models=BUF_MODELS)
        seen = set()
        for p in I.run(b, [P("self"), req]):
            var, pl = variant_of(p.ret)
            if var != "Some" or not isinstance(pl, Struct):
                continue
            k = repr(tform(pl))
            if k in seen:
                continue
            seen.add(k)
            out.append((v["name"], pl, p))
    ctx._cache["c11_responses"] = out
    return out


def r1(ctx):
    rep = Report("C11.R1", "correlation fields: magic 0x81, opcode/opaque echoed from the request, data type 0; written only by ResponseHeader::new", floor=30)
    f = ctx.facts
    hb = f.one(HANDLER + "::handle_request")
    rep.analysed(hb)
    rs = responses(ctx)
    rep.evaluations += len(rs)
    shapes = set()
    for variant, resp, p in rs:
        hdr = field_of(resp, "0", "header")
        magic, opcode, opaque, dt = (field_of(hdr, n) for n in ("magic", "opcode", "opaque", "data_type"))
        ok = magic == 0x81 and opcode == F(P("payload"), "header", "opcode") and opaque == F(P("payload"), "header", "opaque") and dt == 0
        shapes.add((variant, resp.variant))
        rep.check(ok, "%s->%s" % (variant, resp.variant), "magic 0x81, request opcode/opaque, data type 0", "response to %s (%s) has magic=%s opcode=%s opaque=%s data_type=%s: the client cannot match it to its request" % (variant, resp.variant, short(magic, 20), short(opcode, 50), short(opaque, 50), short(dt, 20)), hb.loc())
    rep.check(len(shapes) >= 39, "response-shapes", "%d (request variant, response variant) pairs examined" % len(shapes), "only %d response shapes found (39 counted)" % len(shapes))
    # census: nobody else writes the correlation fields
    for b in f.bodies.values():
        if b.crate != "memcrs.lib":
            continue
        for blk in b.blocks:
            for s in blk.stmts:
                if s.k == "assign" and s.place.proj:
                    fl = s.place.fields()
                    if fl and fl[-1] in ("magic", "opcode", "opaque", "data_type") and "ResponseHeader" in b.local_ty(s.place.local):
                        rep.bad("field-write:%s:%s" % (b.path, fl[-1]), "the response header's %s is overwritten in %s" % (fl[-1], b.path), loc_s(s.span))
    nb = f.one("memcrs::protocol::binary::ResponseHeader::new")
    for p in Interp(f).run(nb, [P("cmd"), P("opaque")]):
        ok = field_of(p.ret, "magic") == 0x81 and field_of(p.ret, "opcode") == P("cmd") and field_of(p.ret, "opaque") == P("opaque") and field_of(p.ret, "data_type") == 0 and field_of(p.ret, "status") == 0
        rep.check(ok, "ResponseHeader::new", "new(cmd, opaque) -> magic 0x81, opcode cmd, opaque, rest 0", "ResponseHeader::new builds %s" % short(p.ret, 160), nb.loc())
    return rep


def expected_payload(kind, resp):
    """(body_length, key_length, extras_length) a response must announce, from what the encoder writes"""
    r = field_of(resp, "0")
    if kind == "Error":
        err = field_of(r, "error")
        if isinstance(err, tuple) and err[0] == "str":
            n = len(err[1].encode())
        else:
            n = ("len", tform(err))
        return n, 0, 0
    if kind in ("Get", "GetKey", "GetQuietly", "GetKeyQuietly"):
        key = field_of(r, "key")
        val = field_of(r, "value")
        lk = 0 if tform(key) == ("emptybytes",) else ("len", tform(key))
        lv = ("len", tform(val))
        body = lin_add(lin_add(lv, lk, 1), 4, 1)
        return body, lk, 4
    if kind in ("Increment", "Decrement"):
        return 8, 0, 0
    if kind == "Version":
        ver = field_of(r, "version")
        src = None
        for a in atoms(ver):
            if isinstance(a, tuple) and a[0] in ("const", "constitem", "str"):
                src = a
        if isinstance(src, tuple) and src[0] == "str":
            return len(src[1].encode()), 0, 0
        return ("len", src), 0, 0
    return 0, 0, 0


def r2(ctx):
    rep = Report("C11.R2", "length fields = what the encoder writes: per response variant body/key/extras lengths; key echoed only for get-key opcodes; encode_data and write_data agree", floor=40)
    f = ctx.facts
    hb = f.one(HANDLER + "::handle_request")
    for variant, resp, p in responses(ctx):
        hdr = field_of(resp, "0", "header")
        def key_len(x):
            # the length of a request key: at most 250 (validated by the decoder, C10.R3) — fits every integer type used
            t = tform(x)
            return isinstance(t, tuple) and t and ((t[0] == "len" and isinstance(t[1], tuple) and t[1][0] == "field" and t[1][2] == "key") or (t[0] == "call" and t[1].endswith("::len") and t[3] and isinstance(t[3][0], tuple) and t[3][0][0] == "field" and t[3][0][2] == "key"))

        got = tuple(simplify_trunc(field_of(hdr, n), 32, key_len) for n in ("body_length", "key_length", "extras_length"))
        want = expected_payload(resp.variant, resp)
        ok = all(tform(g) == tform(w) for g, w in zip(got, want))
        rep.check(ok, "%s->%s:lengths" % (variant, resp.variant), "body/key/extras = %s" % (tuple(short(w, 40) for w in want),), "response to %s (%s) announces body/key/extras lengths %s but the encoder writes %s: the client cannot find the next response" % (variant, resp.variant, tuple(short(g, 60) for g in got), tuple(short(w, 60) for w in want)), hb.loc())
    # encoder table, through the two public entry points (robust to how the helpers behind them are organised)
    ENC = "<" + CODEC + " as tokio_util::codec::Encoder<" + BRESP + ">>::encode"
    for enc_name, enc_path, mkargs in (
        ("encode_message", CODEC + "::encode_message", lambda msg: [P("self"), msg]),
        ("Encoder::encode", ENC, lambda msg: [P("self"), msg, P("dst")]),
    ):
        eb = f.one(enc_path)
        rep.analysed(eb)
        ra = f.adts[BRESP]
        for vi, v in enumerate(ra["variants"]):
            msg = Struct(BRESP, v["name"], vi, OrderedDict([("0", P("r"))]))
            I = Interp(f, models=BUF_MODELS)
            for pth in I.run(eb, mkargs(msg)):
                allputs = [(e.extra["width"], e.extra["value"]) for e in pth.events if e.kind == "buf" and e.extra.get("op") == "put"]
                # the first nine puts are the header (C11.R3)
                hdr_ok = len(allputs) >= 9 and allputs[0][1] == F(P("r"), "header", "magic") and allputs[8][1] == F(P("r"), "header", "cas")
                puts = allputs[9:] if hdr_ok else allputs
                kind = v["name"]
                desc = [(short(w, 30), short(val, 40)) for w, val in puts]
                if kind == "Error":
                    ok = len(puts) == 1 and F(P("r"), "error") in atoms(puts[0][1])
                elif kind in ("Get", "GetKey", "GetQuietly", "GetKeyQuietly"):
                    srcs = [("flags" if F(P("r"), "flags") in atoms(val) else "key" if F(P("r"), "key") in atoms(val) else "value" if F(P("r"), "value") in atoms(val) else "?") for _w, val in puts]
                    ok = srcs in (["flags", "key", "value"], ["flags", "value"]) and puts[0][0] == 4
                    if srcs == ["flags", "value"]:
                        # the key may be skipped only when it IS empty: an emptiness test of the key that came out true
                        tests = set(x for c, _t, _s, _at in pth.state.pc for x in [c] + list(atoms(c)) if isinstance(x, tuple) and x and x[0] == "call" and x[1].endswith("is_empty") and F(P("r"), "key") in atoms(x))
                        lens = [c for c, _t, _s, _at in pth.state.pc if isinstance(c, tuple) and c and c[0] == "cmp" and any(isinstance(x, tuple) and x and (x[0] == "len" or (x[0] == "call" and x[1].split("::")[-1] in ("len", "remaining"))) and F(P("r"), "key") in atoms(x) for x in (c[2], c[3])) and 0 in (c[2], c[3])]
                        empty = any(bool_fact(pth, x) is True for x in tests)
                        for c in lens:
                            tr = [t_ for c_, t_, _s, _at in pth.state.pc if c_ == c][0]
                            if (c[1] == "Eq" and tr) or (c[1] == "Ne" and not tr):
                                empty = True
                        ok = ok and empty
                elif kind in ("Increment", "Decrement"):
                    ok = len(puts) == 1 and puts[0][0] == 8 and puts[0][1] == F(P("r"), "value")
                elif kind == "Version":
                    ok = len(puts) == 1 and F(P("r"), "version") in atoms(puts[0][1])
                else:
                    ok = not puts
                rep.check(hdr_ok and ok, "%s:%s" % (enc_name, kind), "header, then payload for %s: %s" % (kind, desc), "%s writes %s after the header of a %s response (protocol: %s)" % (enc_name, desc, kind, {"Error": "the message text", "Version": "the version text"}.get(kind, "flags(4)+key+value for hits, 8-byte value for counters, nothing otherwise")), eb.loc())
    # key echoed exactly for get-key opcodes
    # (the helper predicate, when there is one, is examined too; what decides is the key-echo table below)
    if f.bodies.get(HANDLER + "::is_get_key_command") is not None:
        t = dispatch.predicate_table(ctx, "is_get_key_command")
        trues = sorted(op for op, vals in t.items() if vals == {1})
        mixed = [op for op, vals in t.items() if vals not in ({0}, {1})]
        rep.check(trues == [0x0C, 0x0D] and not mixed, "is_get_key_command", "true exactly for 0x0c, 0x0d", "is_get_key_command is true for %s (protocol: only GetK 0x0c and GetKQ 0x0d echo the key)" % [hex(x) for x in trues], safe_loc(f, HANDLER + "::is_get_key_command"))
    for op in (0x00, 0x09, 0x0C, 0x0D):
        hdr = Struct(None, None, 0, OrderedDict([("opcode", op)]), F(P("get_request"), "header"))
        req = Struct(None, None, 0, OrderedDict([("header", hdr)]), P("get_request"))
        I = Interp(f, policy=memc_opaque, models=BUF_MODELS)
        keys = set()
        gb, gargs = dispatch.handler_body_args(ctx, "get", "get_request", op, payload=req)
        for pth in I.run(gb, gargs):
            if isinstance(pth.ret, Struct) and pth.ret.variant == "Get":
                keys.add(tform(field_of(pth.ret, "0", "key")))
        want = {F(P("get_request"), "key")} if op in (0x0C, 0x0D) else {("emptybytes",)}
        rep.check(keys == want, "get:key-echo:%#04x" % op, "key %s" % ("echoed" if op in (0x0C, 0x0D) else "not echoed"), "hit response for opcode %#04x carries key %s" % (op, [short(k, 40) for k in keys]), gb.loc())
    return rep


def r3(ctx):
    rep = Report("C11.R3", "response header serialisation: magic(1) opcode(1) key_length(2) extras_length(1) data_type(1) status(2) body_length(4) opaque(4) cas(8) = 24 bytes", floor=10)
    f = ctx.facts
    # the layout is read off the two encoder entry points (whatever helpers they are organised into)
    ENC = "<" + CODEC + " as tokio_util::codec::Encoder<" + BRESP + ">>::encode"
    msg = Struct(BRESP, "Noop", 11, OrderedDict([("0", P("r"))]))
    for enc_name, enc_path, args in (("encode_message", CODEC + "::encode_message", [P("self"), msg]), ("Encoder::encode", ENC, [P("self"), msg, P("dst")])):
        b = f.one(enc_path)
        rep.analysed(b)
        paths = Interp(f, models=BUF_MODELS).run(b, args)
        rep.check(bool(paths), "%s:paths" % enc_name, "%d paths" % len(paths), "cannot evaluate %s" % enc_name, b.loc())
        for p in paths:
            puts = [(e.extra["width"], e.extra["value"]) for e in p.events if e.kind == "buf" and e.extra.get("op") == "put"]
            tot = sum(w for w, _ in puts if isinstance(w, int))
            rep.check(len(puts) == 9 and tot == 24, "%s:header:24-bytes" % enc_name, "9 fields, 24 bytes", "the header of a body-less response is written by %s as %d fields / %s bytes" % (enc_name, len(puts), tot), b.loc())
            for i_, (name, w) in enumerate(HDR_ORDER):
                got = puts[i_] if i_ < len(puts) else (None, None)
                rep.check(got[0] == w and got[1] == F(P("r"), "header", name), "%s:header:#%d:%s" % (enc_name, i_, name), "%s written as field #%d (%d bytes)" % (name, i_, w), "field #%d of the response header is %s (%s bytes); the protocol puts %s (%d bytes) there" % (i_, short(got[1], 40), got[0], name, w), b.loc())
    return rep


def r4(ctx):
    rep = Report("C11.R4", "status table: every error code is one of the protocol's; success responses have status 0", floor=13)
    f = ctx.facts
    for name, d in f.enum_discr(CERR).items():
        rep.check(d in PROTOCOL_STATUS, "CacheError::%s" % name, "status %#04x" % d, "CacheError::%s has code %#x which is not a binary-protocol status" % (name, d))
    n = 0
    for variant, resp, p in responses(ctx):
        st = field_of(resp, "0", "header", "status")
        if resp.variant == "Error":
            ok = isinstance(st, int) and st in PROTOCOL_STATUS
            what = "error status %s" % short(st, 20)
        else:
            ok = st == 0
            what = "success status %s" % short(st, 20)
            n += 1
        rep.check(ok, "%s->%s:status" % (variant, resp.variant), what, "response to %s (%s) carries status %s" % (variant, resp.variant, short(st, 40)))
    # error response builder: status <- the error's own code, message <- its text
    eb = f.one("memcrs::protocol::binary_codec::storage_error_to_response")
    adt = f.adts[CERR]
    for vi, v in enumerate(adt["variants"]):
        err = Struct(CERR, v["name"], vi, OrderedDict())
        for p in Interp(f).run(eb, [err, P("response_header")]):
            st = field_of(p.ret, "0", "header", "status")
            rep.check(st == v["discr"], "error-response:%s" % v["name"], "status = %#04x" % v["discr"], "storage_error_to_response(%s) sends status %s (its code is %#x)" % (v["name"], short(st, 20), v["discr"]), eb.loc())
    return rep


RULES = [("C11.R1", r1), ("C11.R2", r2), ("C11.R3", r3), ("C11.R4", r4)]
