"""C06 — conditional stores: add / replace / append / prepend."""
from rules.common import *  # noqa: F401,F403
from collections import OrderedDict
from rules import dispatch
from rules.storefacts import field_of
from bufmodel import BUF_MODELS

LEVEL_TEXT = (
    "Static clause check: R1 extracts the end-to-end dispatch table from the code (decoder: opcode 0..255 -> parser "
    "and BinaryRequest variant; handler: variant -> BinaryHandler method; add_replace/append_prepend: opcode -> "
    "MemcStore method) and compares the add/replace/append/prepend rows with the protocol table; R2 evaluates the "
    "presence polarity of MemcStore::{add,replace,append,prepend} over {hit,miss} of the read (rejecting arm reaches no "
    "store mutation); R3 checks the order of the two extend_from_slice sources (old+new resp. new+old) and that the "
    "record handed to set is the fetched record with only value and header.cas rewritten (flags and TTL kept); R4 checks "
    "the wire layout of the append/prepend frame (key at offset 0, value after it). Not decided: byte equality of the "
    "result, behaviour at the size limit."
)
ASSUMPTIONS = [
    "bytes::{Buf,BufMut,BytesMut} semantic table (analysis/bufmodel.py)",
    "the binary protocol opcode table written in rules/dispatch.py (the oracle)",
]

ROWS = {
    0x02: ("Add", "add_replace", "add"),
    0x12: ("AddQuietly", "add_replace", "add"),
    0x03: ("Replace", "add_replace", "replace"),
    0x13: ("ReplaceQuietly", "add_replace", "replace"),
    0x0E: ("Append", "append_prepend", "append"),
    0x19: ("AppendQuietly", "append_prepend", "append"),
    0x0F: ("Prepend", "append_prepend", "prepend"),
    0x1A: ("PrependQuietly", "append_prepend", "prepend"),
}


def decoded_variant(ctx, op):
    t = dispatch.decoder_table(ctx)[op]
    somes = sorted(o[5:] for o in t["outcomes"] if o.startswith("Some:"))
    return somes, t


def handler_method_of(ctx, variant):
    rows = dispatch.handler_table(ctx).get(variant)
    if rows is None:
        return None
    ms_ = set()
    for r in rows:
        for c in r["calls"]:
            ms_.add(c.name.split("::")[-1])
    return ms_


def store_method_for_opcode(ctx, handler_meth, argname, op):
    f = ctx.facts
    hdr = Struct(None, None, 0, OrderedDict([("opcode", op)]), F(P(argname), "header"))
    req = Struct(None, None, 0, OrderedDict([("header", hdr)]), P(argname))
    b, hargs = dispatch.handler_body_args(ctx, handler_meth, argname, op, payload=req)
    I = Interp(f, policy=lambda body, args: "opaque" if body.path.startswith(MEMC + "::") else "inline")
    paths = I.run(b, hargs)
    out = set()
    for p in paths:
        for e in p.events:
            if e.kind == "call" and e.name.startswith(MEMC + "::"):
                out.add(e.name.split("::")[-1])
    return out, paths


def r1(ctx):
    rep = Report("C06.R1", "end-to-end dispatch: opcode -> request variant -> handler method -> MemcStore method for add/replace/append/prepend (+ table floors)", floor=10)
    f = ctx.facts
    table = dispatch.decoder_table(ctx)
    rep.exhaustive = True
    rep.evaluations += sum(t["npaths"] for t in table.values())
    # floors of the extracted table
    defined = [op for op in range(256) if any(o.startswith("Some:") or o == "None" for o in table[op]["outcomes"])]
    cmd = dispatch.command_values(ctx)
    below_max = [v for n, v in cmd.items() if n != "OpCodeMax"]
    rep.check(len(below_max) == 35, "command-enum", "35 opcodes defined below OpCodeMax", "Command enum has %d opcodes below OpCodeMax (35 confirmed)" % len(below_max))
    nvar = len(f.adts[BREQ]["variants"])
    rep.check(nvar >= 28, "request-variants", "%d BinaryRequest variants" % nvar, "BinaryRequest has %d variants (>= 28 confirmed)" % nvar)
    for op in range(256):
        outs = table[op]["outcomes"]
        if op not in cmd.values() or op == cmd.get("OpCodeMax"):
            rep.check(not any(o.startswith("Some:") or o == "None" for o in outs), "undefined-opcode-rejected:%#04x" % op, "undefined opcode decodes to Err", "undefined opcode %#04x is decoded to %s" % (op, sorted(outs))) if op in (0x1B, 0x1F, 0x25, 0xFF) else None
    for op, (variant, hmeth, smeth) in sorted(ROWS.items()):
        somes, t = decoded_variant(ctx, op)
        rep.check(somes == [variant], "decode:%#04x" % op, "%#04x decodes to %s" % (op, variant), "opcode %#04x decodes to %s, the protocol says %s" % (op, somes, variant), safe_loc(f, CODEC + "::parse_request"))
        hm = handler_method_of(ctx, variant)
        # a request of this variant reaches the store through add/replace (Add, Replace) resp. append/prepend only: which
        # of the two it is for this very opcode is the next check
        reach = dispatch.store_methods_of_variant(ctx, variant)
        fam = {"add", "replace"} if hmeth == "add_replace" else {"append", "prepend"}
        rep.check(bool(reach) and reach <= fam and smeth in reach, "handle:%s" % variant, "%s is dispatched to the %s commands" % (variant, "/".join(sorted(fam))), "request variant %s reaches MemcStore::%s, expected %s" % (variant, sorted(reach), smeth), safe_loc(f, HANDLER + "::handle_request"))
        argname = "request" if hmeth == "add_replace" else "append_req"
        sm, _paths = store_method_for_opcode(ctx, hmeth, argname, op)
        rep.check(sm == {smeth}, "store-method:%#04x" % op, "%#04x -> MemcStore::%s" % (op, smeth), "opcode %#04x reaches MemcStore::%s, the protocol says %s" % (op, sorted(sm), smeth), safe_loc(f, HANDLER + "::handle_request"))
        rep.sample({"opcode": "%#04x" % op, "variant": somes, "handler": sorted(hm or []), "store": sorted(sm)})
    return rep


POLARITY = {
    # method: {hit: (expected ret kind, expects set), miss: ...}
    "add": {"hit": ("KeyExists", False), "miss": (None, True)},
    "replace": {"hit": (None, True), "miss": ("NotFound", False)},
    "append": {"hit": (None, True), "miss": ("NotFound", False)},
    "prepend": {"hit": (None, True), "miss": ("NotFound", False)},
}
MUTATORS = ("set", "delete", "flush", "remove", "remove_if")


# the rules' own labels for the parameters of the public MemcStore methods (positional: the source's names do not matter)
MEMC_ARGS = {
    "set": ["self", "key", "record"],
    "add": ["self", "key", "record"],
    "replace": ["self", "key", "record"],
    "append": ["self", "key", "new_record"],
    "prepend": ["self", "key", "new_record"],
    "get": ["self", "key"],
    "delete": ["self", "key", "header"],
    "flush": ["self", "header"],
    "increment": ["self", "header", "key", "delta"],
    "decrement": ["self", "header", "key", "delta"],
}


def memc_paths(ctx, meth):
    key = "memc_paths:" + meth
    if key not in ctx._cache:
        f = ctx.facts
        b = f.one(MEMC + "::" + meth)
        argn = MEMC_ARGS.get(meth) or [b.local_name(i) or "a%d" % i for i in b.arg_locals()]
        I = Interp(f, models=BUF_MODELS)
        ctx._cache[key] = (b, I.run(b, [P(n) for n in argn]))
    return ctx._cache[key]


def read_outcome(p):
    """('hit'|'miss'|None, get event) for the first Cache::get of the path"""
    for e in p.events:
        if e.kind == "call" and e.name == CACHE + "::get":
            d = d2(p, e.result)
            return ("hit" if d == 0 else "miss" if d == 1 else None), e
    return None, None


def r2(ctx):
    rep = Report("C06.R2", "presence polarity: add stores only on a miss (else KeyExists); replace/append/prepend only on a hit (else NotFound); the rejecting arm reaches no store mutation", floor=8)
    for meth, exp in POLARITY.items():
        b, paths = memc_paths(ctx, meth)
        rep.analysed(b)
        rep.evaluations += len(paths)
        seen = set()
        for p in paths:
            oc, g = read_outcome(p)
            if oc is None:
                rep.bad("%s:shape" % meth, "cannot evaluate: a path of MemcStore::%s does not start with a decided Cache::get" % meth, b.loc())
                continue
            if P("key") not in atoms(g.args[1]):
                rep.bad("%s:key" % meth, "MemcStore::%s tests the presence of something else than its key" % meth, b.loc())
            seen.add(oc)
            want_err, want_set = exp[oc]
            muts = [e for e in p.events if e.kind == "call" and e.name.startswith(CACHE + "::") and e.name.split("::")[-1] in MUTATORS]
            sets = [e for e in muts if e.name.endswith("::set")]
            k = "%s[%s]" % (meth, oc)
            if want_set:
                ok = len(sets) == 1 and len(muts) == 1 and P("key") in atoms(sets[0].args[1]) and tform(p.ret) == sets[0].result
                rep.check(ok, k, "%s on a %s: one Cache::set(key), its result returned" % (meth, oc), "MemcStore::%s on a %s: %d store mutations, returns %s (must store exactly once and return that result)" % (meth, oc, len(muts), short(p.ret, 80)), b.loc())
            else:
                ok = err_name(p.ret) == want_err and not muts
                rep.check(ok, k, "%s on a %s: %s, item untouched" % (meth, oc, want_err), "MemcStore::%s on a %s returns %s with %d store mutations (must be %s and leave the item unchanged)" % (meth, oc, short(p.ret, 80), len(muts), want_err), b.loc())
        for oc in ("hit", "miss"):
            if oc not in seen:
                rep.bad("%s[%s]:missing" % (meth, oc), "MemcStore::%s has no path for a %s of the presence test" % (meth, oc), b.loc())
    return rep


def r3(ctx):
    rep = Report("C06.R3", "append = old+suffix, prepend = prefix+old (order of the two sources), record handed to set is the fetched one with only value and header.cas rewritten", floor=6)
    for meth in ("append", "prepend"):
        b, paths = memc_paths(ctx, meth)
        n = 0
        for p in paths:
            oc, g = read_outcome(p)
            if oc != "hit":
                continue
            sets = [e for e in p.events if e.kind == "call" and e.name == CACHE + "::set"]
            if len(sets) != 1:
                continue
            n += 1
            rec = sets[0].args[2]
            fetched = ("field", ("as", g.result, "Ok"), "0")
            # the record is an overlay of the fetched record
            base_ok = isinstance(rec, Struct) and rec.base == fetched and set(rec.fields) <= {"header", "value"}
            rep.check(base_ok, "%s:record-is-fetched-record" % meth, "record handed to set = fetched record with {value, header} fields rewritten", "MemcStore::%s stores %s instead of the fetched record with a new value" % (meth, short(rec, 120)), b.loc())
            hdr = rec.get("header") if isinstance(rec, Struct) else None
            if isinstance(hdr, Struct):
                hdr_ok = hdr.base == ("field", fetched, "header") and set(hdr.fields) <= {"cas"}
            else:
                hdr_ok = hdr == ("field", fetched, "header")
            rep.check(hdr_ok, "%s:header-kept" % meth, "flags/ttl/timestamp are the stored item's; only cas comes from the request", "MemcStore::%s rewrites header fields %s of the stored item (only cas may come from the request: the item's flags must be kept)" % (meth, sorted(hdr.fields) if isinstance(hdr, Struct) else short(hdr, 80)), b.loc())
            # order of the sources of the new value
            val = rec.get("value") if isinstance(rec, Struct) else None
            puts = [e for e in p.events if e.kind == "buf" and e.extra.get("op") == "put" and e.extra.get("buf") == tform(val)]
            srcs = []
            for e in puts:
                a = atoms(e.extra["value"])
                if ("field", fetched, "value") in a:
                    srcs.append("old")
                elif F(P("new_record"), "value") in a:
                    srcs.append("new")
                else:
                    srcs.append("?")
            want = ["old", "new"] if meth == "append" else ["new", "old"]
            rep.sample({"method": meth, "sources in write order": srcs})
            rep.check(srcs == want, "%s:concat-order" % meth, "new value = %s" % "+".join(want), "MemcStore::%s builds the new value as %s, the property requires %s" % (meth, "+".join(srcs) or "(cannot tell)", "+".join(want)), b.loc())
        if n == 0:
            rep.bad("%s:no-hit-path" % meth, "cannot find the existing-key path of MemcStore::%s" % meth, b.loc())
    return rep


def r4(ctx):
    rep = Report("C06.R4", "wire layout of append/prepend requests: key = first key_length bytes of the body, value = the following value_len bytes; handler forwards key/value/cas", floor=6)
    f = ctx.facts
    table = dispatch.decoder_table(ctx)
    HF = F(P("self"), "header")
    kl = F(HF, "key_length")
    for op in (0x0E, 0x19, 0x0F, 0x1A):
        t = table[op]
        ok = False
        why = "no decoded request"
        for variant, ps in t["paths"].items():
            for p in ps:
                req = field_of(p.ret, "0", "0", "0")
                key = field_of(req, "key")
                val = field_of(req, "value")
                k_ok = isinstance(key, tuple) and key[0] == "bufslice" and key[2] == 0 and key[3] == kl
                v_ok = isinstance(val, tuple) and val[0] == "bufslice" and val[2] == kl and F(HF, "body_length") in atoms(val[3]) and kl in atoms(val[3])
                ok = k_ok and v_ok and key[1] == val[1]
                why = "key=%s value=%s" % (short(key, 100), short(val, 140))
        rep.check(ok, "layout:%#04x" % op, "key at body offset 0 (key_length bytes), value after it", "append/prepend frame %#04x is sliced as %s" % (op, why), safe_loc(f, CODEC + "::parse_append_prepend_request"))
    # handler: Record::new(value <- req.value, cas <- req.header.cas), key <- req.key
    b, _hargs = dispatch.handler_body_args(ctx, "append_prepend", "append_req")
    for op in (0x0E, 0x0F):
        sm, paths = store_method_for_opcode(ctx, "append_prepend", "append_req", op)
        ok = bool(paths)
        for p in paths:
            for e in p.events:
                if e.kind == "call" and e.name.startswith(MEMC + "::"):
                    rec = e.args[2]
                    if not (tform(e.args[1]) == F(P("append_req"), "key") and field_of(rec, "value") == F(P("append_req"), "value") and field_of(rec, "header", "cas") == F(P("append_req"), "header", "cas")):
                        ok = False
        rep.check(ok, "handler:%#04x:forwards" % op, "handler passes request key/value/cas to the store", "BinaryHandler::append_prepend does not pass the request's key/value/cas to the store", b.loc())
    return rep


RULES = [("C06.R1", r1), ("C06.R2", r2), ("C06.R3", r3), ("C06.R4", r4)]
