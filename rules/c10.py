"""C10 — no client input can crash, hang or bloat request processing."""
from collections import OrderedDict, defaultdict

from rules.common import *  # noqa: F401,F403
from rules import dispatch, c09, c12
from rules.storefacts import field_of
from rules.c17 import natural_loop
from bufmodel import BUF_MODELS
from storemodel import STORE_MODELS, TIMER_MODELS
import callgraph
from mir import from_external_macro

LEVEL_TEXT = (
    'Static panic census with discharge, plus boundary tables: R1 every panic-capable site (overflow / bounds / '
    'division asserts, unwrap/expect, panic!, Buf::get_*, split_to, split_off, advance, slice indexing, gen_range) in '
    'code reachable from the request path (decode, handle_request, encode, read_frame, the discard loop, write, the '
    'client task, through dyn Cache into MemoryStore and RandomPolicy) must be discharged on every path on which the '
    "abstract interpreter reaches it — by constant folding, type ranges, or the path's own dominating guards "
    '(interval facts on affine forms, min/max case split) — or be listed in the trusted table with its reason '
    "(entries are keyed by the operation's operands, or by one function); a site the interpreter never reaches is "
    'reported, not assumed safe; R2 header validation is exact in both directions, decided on the public decode: a '
    'fresh codec given one header with (magic, opcode, data type) from the boundary grid waits for the body exactly '
    "when magic = 0x80, opcode < 0x25 and data type = 0, and refuses otherwise (the codec's length validator, where "
    'one of the known shape exists, is tabulated too); R3 no request is built from invalid lengths: for every opcode, '
    'a missing required key, key 251, extras 21 or a short body decode to an error, and the boundary values '
    '250/20/exact body are accepted; R4 the synchronous request path has no loops except iterator-driven ones and no '
    'recursion (the async loops are listed; their termination is not decided); R5 buffer reservations on the '
    'connection whose size comes from the client are bounded by the item size limit or a constant. Not decided: the '
    'numeric buffer bound.'
)
ASSUMPTIONS = [
    "external macros (log, tracing, tokio::select, format) do not panic on client data: sites inside their expansions are listed, not judged",
    "BytesMut::with_capacity(n) has capacity exactly n and read_buf reads at most capacity - len bytes (trusted table: skip_bytes)",
    "DashMap / tokio / bytes internals do not panic for any argument the crate passes except through the listed preconditions",
]
DEV_ONLY = ("C10.R1",)  # overflow asserts exist only with overflow checks on

DECODE = c09.DECODE

# (function suffix, kind, operand fragment) -> reason.  One symbol wide: a new undischarged site is a violation.
TRUSTED = {
    ("skip_bytes::{closure#0}", "Overflow:Sub", ""): "bytes as usize - bytes_counter: the counter cannot pass `bytes` because each read is capped by a buffer of capacity min(remaining, 64 KiB) (allocator-capacity assumption)",
    ("skip_bytes::{closure#0}", "explicit-panic", ""): "panic!(\"Read too much bytes\") guards the same allocator-capacity assumption; unreachable while with_capacity(n) gives exactly n",
    ("skip_bytes::{closure#0}", "Overflow:Add", ""): "bytes_counter += bytes_read: bounded by `bytes` (u32) under the same assumption",
    ("run::{closure#0}", "precondition:unwrap", ""): "Semaphore::acquire() fails only after close(), which the crate never calls (C17.R2 census)",
    # keyed by the operands — a record header's own timestamp and time_to_live — in whatever function of the crate the expiry
    # sum is written (helper extraction moves it into the store, the Cache trait or a method of the header type)
    ("memcrs::", "Overflow:Add", ("timestamp", "time_to_live")): "record.header.timestamp + ttl as u64: the timestamp is the server's own tick counter (seconds since start, stamped by MemoryStore::set) and ttl < 2^32 — the sum stays below 2^64 for 5*10^11 years of uptime",
    # keyed by the operands — the u32 length of a stored value, in whatever function the get response's body length is summed
    ("memcrs::", "Overflow:Add", ("trunc(u32, len(", ".value")): "value.len() as u32 + 4 + key.len() as u32 overflows only for a stored value of 4 GiB - 4 or more; the item size limit is a u32 (at most 1024m per the CLI) and a single request cannot exceed it (append growth to 4 GiB is an advisory, not a request-path input)",
}

PANIC_CALLS = {
    "std::option::Option::unwrap": "unwrap",
    "std::option::Option::expect": "expect",
    "std::result::Result::unwrap": "unwrap",
    "std::result::Result::expect": "expect",
    "bytes::BytesMut::split_to": "split_to",
    "bytes::BytesMut::split_off": "split_off",
    "bytes::Buf::advance": "advance",
    "bytes::buf::Buf::advance": "advance",
    "rand::Rng::gen_range": "gen_range",
    "core::panicking::panic": "panic",
    "core::panicking::panic_fmt": "panic",
    "std::rt::begin_panic": "panic",
    "std::rt::panic_fmt": "panic",
    "core::panicking::panic_explicit": "panic",
    "core::panicking::unreachable_display": "panic",
    "std::slice::SliceIndex::index": "index",
}


def request_roots(f):
    roots = [
        DECODE,
        HANDLER + "::handle_request",
        CODEC + "::encode_message",
        c09.READ_FRAME,
        CONN + "::skip_bytes::{closure#0}",
        CONN + "::write::{closure#0}",
        CONN + "::write_data_to_stream::{closure#0}",
        CONN + "::shutdown::{closure#0}",
        c12.HL,
        c12.HF_,
        c12.HR,
        "<" + CLIENT + " as std::ops::Drop>::drop",
        CLIENT + "::new",
        CONN + "::new",
    ]
    return [r for r in roots if r in f.bodies]


def census(ctx):
    """[(body, bb, kind, term, descr)] panic-capable sites reachable from the request path"""
    f = ctx.facts
    cg = callgraph.get(ctx)
    reach = cg.reachable(request_roots(f))
    sites = []
    for bp in sorted(reach):
        b = f.bodies[bp]
        if b.crate != "memcrs.lib":
            continue
        if "fmt::Debug" in bp or "::fmt" in bp and "Debug" in bp:
            continue
        for bi in sorted(b.reachable()):
            blk = b.blocks[bi]
            if blk.cleanup:
                continue
            t = blk.term
            ext = from_external_macro(t.span)
            if t.k == "assert":
                kind = t.msg.get("kind", "?")
                if kind in ("ResumedAfterReturn", "ResumedAfterPanic", "ResumedAfterDrop"):
                    continue
                if kind == "Overflow":
                    kind = "Overflow:" + t.msg.get("op", "?")
                # constant operands (e.g. `Command::Add as u8` lowered to an add of 0) are decided by folding
                sites.append((b, bi, kind, t, ext))
            elif t.k == "call":
                nm = strip_generics(t.callee.path or "")
                k = PANIC_CALLS.get(nm)
                if k is None and nm.startswith("bytes::") and t.callee.name in ("get_u8", "get_u16", "get_u32", "get_u64", "get_i8", "get_i16", "get_i32", "get_i64"):
                    k = t.callee.name
                if k is None:
                    continue
                if k == "index":
                    # only range indexing can panic; RangeFull cannot
                    if "RangeFull" in (t.callee.self_ty or "") or any("RangeFull" in a for a in t.callee.targs):
                        continue
                if k == "panic":
                    kk = "explicit-panic"
                else:
                    kk = "precondition:" + k
                sites.append((b, bi, kk, t, ext))
    return sites


def all_runs(ctx):
    """runs the interpreter over the request path; returns {(body path, bb): set(status)} and the paths count"""
    if "c10_runs" in ctx._cache:
        return ctx._cache["c10_runs"]
    f = ctx.facts
    status = defaultdict(set)
    descr = {}
    npaths = [0]

    def collect(I, paths):
        for p in list(paths) + list(getattr(I, "panic_paths", [])):
            npaths[0] += 1
            for e in p.events:
                if e.kind == "obligation":
                    key = (e.extra.get("body") or (e.site[0] if e.site else None), e.site[1] if e.site else None)
                    status[key].add(e.extra["status"])
                    if key not in descr:
                        descr[key] = e.args

    models = dict(BUF_MODELS)
    # 1. decoder, both parser states
    b = f.one(DECODE)
    for st_ in ("None", "HeaderParsed"):
        I = Interp(f, models=models)

        def seeds(st):
            assume(st, {F(P("self"), "item_size_limit"): 1}, lo=0, hi=2**32 - 1)

        collect(I, I.run(b, [dispatch.codec_self(None, state=st_), P("src")], seeds=seeds))
    # 2. handler + command layer (dyn Cache opaque)
    hb = f.one(HANDLER + "::handle_request")
    for vi, v in enumerate(f.adts[BREQ]["variants"]):
        req = Struct(BREQ, v["name"], vi, OrderedDict([("0", P("payload"))]))
        I = Interp(f, models=models)
        collect(I, I.run(hb, [P("self"), req]))
    # 3. store layer
    sm = dict(STORE_MODELS)
    sm.update(TIMER_MODELS)
    for body in f.bodies.values():
        if body.impl_self in (MS, RP) and body.kind == "assoc_fn":
            argn = [body.local_name(i) or "a%d" % i for i in body.arg_locals()]
            I = Interp(f, models=sm, loop_bound=2)
            collect(I, I.run(body, [P(n) for n in argn]))
    g = impl_or_default(f, MS, "get")[0]
    I = Interp(f, models=sm, dyn_impl={IMPLD + "::get_by_key": ms("get_by_key", IMPLD), IMPLD + "::check_if_expired": ms("check_if_expired", IMPLD)})
    collect(I, I.run(g, [P("self"), P("key")]))
    # 4. encoder
    eb = f.one(CODEC + "::encode_message")
    for vi, v in enumerate(f.adts[BRESP]["variants"]):
        msg = Struct(BRESP, v["name"], vi, OrderedDict([("0", P("r"))]))
        I = Interp(f, models=models)
        collect(I, I.run(eb, [P("self"), msg]))
    # 5. connection + client coroutines
    rf = f.one(c09.READ_FRAME)
    for kind in ("none", "toolarge", "frame"):
        m2 = dict(models)
        m2["tokio_util::codec::Decoder::decode"] = c09.m_decode_opaque(kind)
        I = Interp(f, models=m2, policy=c09.conn_opaque, loop_bound=2)

        def seeds2(st):
            assume(st, {F(P("request"), "header", "body_length"): 1}, lo=0, hi=2**32 - 1)

        collect(I, I.run(rf, [ClosureV(c09.READ_FRAME, [P("self")], "coroutine"), P("cx")], seeds=seeds2))
    for path, caps in ((CONN + "::skip_bytes::{closure#0}", [P("self"), P("bytes")]), (CONN + "::write::{closure#0}", [P("self"), P("msg")]), (c12.HR, [P("self"), P("request")]), (c12.HF_, [P("self"), P("req")]), (c12.HL, [P("self")])):
        if path not in f.bodies:
            continue
        I = Interp(f, models=models, policy=c12.conn_handler_opaque if "client_handler" in path else (lambda body, a: "inline"), loop_bound=2)

        def seeds3(st):
            assume(st, {P("bytes"): 1}, lo=0, hi=2**32 - 1)

        collect(I, I.run(f.one(path), [ClosureV(path, caps, "coroutine"), P("cx")], seeds=seeds3))
    for path, args in (("<" + CLIENT + " as std::ops::Drop>::drop", ["self"]), (CLIENT + "::new", ["store", "socket", "addr", "config", "limit_connections"]), (CONN + "::new", ["socket", "item_size_limit"])):
        if path.endswith("Drop>::drop") and path not in f.bodies:
            continue  # a Client without a Drop impl has no drop code to examine (C17.R2 decides whether that is acceptable)
        I = Interp(f, models=models)
        collect(I, I.run(f.one(path), [P(a) for a in args]))
    ctx._cache["c10_runs"] = (status, descr, npaths[0])
    return ctx._cache["c10_runs"]


def site_key(b, kind, t, ordinal):
    fn = b.path
    return "%s:%s#%d" % (fn.replace("memcrs::", ""), kind, ordinal)


_PREMISE = {}


def skip_discipline_holds(ctx):
    """premise of the skip_bytes trusted entries: every read is capped by the bytes still to skip (C13.R3)"""
    if "v" not in _PREMISE or _PREMISE.get("ctx") is not ctx:
        from rules import c13

        f = ctx.facts
        path = CONN + "::skip_bytes::{closure#0}"
        sb = f.one(path)
        I = Interp(f, models=BUF_MODELS, loop_bound=2)

        def seeds(st):
            assume(st, {P("bytes"): 1}, lo=0, hi=2**32 - 1)

        paths = I.run(sb, [ClosureV(path, [P("self"), P("bytes")], "coroutine"), P("cx")], seeds=seeds)
        disc = c13.skip_capacity_discipline(I, list(paths) + list(I.panic_paths))
        # ... and the explicit panic is only reachable under `bytes read > requested` (which the discipline excludes)
        guarded = True
        for p in I.panic_paths:
            pe = [e for e in p.events if e.kind == "panic"]
            if not pe:
                continue
            g = False
            for c, truth, _s, _at in p.state.pc:
                if isinstance(c, tuple) and c and c[0] == "cmp" and P("bytes") in atoms(c) and any(isinstance(x, tuple) and x and x[0] == "await" for x in atoms(c)):
                    l_is_counter = P("bytes") not in atoms(c[2])
                    op = c[1]
                    if (op == "Gt" and l_is_counter and truth) or (op == "Lt" and not l_is_counter and truth) or (op == "Le" and l_is_counter and not truth) or (op == "Ge" and not l_is_counter and not truth):
                        g = True
            if not g and any((e.name or "").split("::")[-1] in ("panic", "panic_fmt", "begin_panic", "panic_explicit") or "panic" in (e.name or "") for e in pe):
                guarded = False
        _PREMISE["v"] = bool(disc) and all(ok for ok, _w, _s in disc.values()) and guarded
        _PREMISE["ctx"] = ctx
    return _PREMISE["v"]


def trusted_reason(b, kind, descr_s, ctx=None):
    for (fn_suffix, k, frag), why in TRUSTED.items():
        frags = frag if isinstance(frag, tuple) else (frag,)
        where = (fn_suffix in b.path) if fn_suffix.endswith("::") else b.path.endswith(fn_suffix)
        if where and kind == k and all(x in descr_s for x in frags) and why != "n/a":
            if fn_suffix.startswith("skip_bytes") and ctx is not None and not skip_discipline_holds(ctx):
                return None  # the premise of the assumption is checked, and it does not hold
            return why
    return None


def r1(ctx):
    rep = Report("C10.R1", "panic census: every panic-capable site reachable from the request path is discharged on all evaluated paths, or trusted with a reason", floor=40)
    f = ctx.facts
    sites = census(ctx)
    status, descr, npaths = all_runs(ctx)
    rep.evaluations += npaths
    rep.call_sites = len(sites)
    counters = defaultdict(int)
    n_macro = 0
    for b, bi, kind, t, ext in sorted(sites, key=lambda s: (s[0].path, (s[3].span or {}).get("line", 0), (s[3].span or {}).get("col", 0), s[1])):
        rep.analysed(b)
        if ext:
            n_macro += 1
            continue
        counters[(b.path, kind)] += 1
        key = site_key(b, kind, t, counters[(b.path, kind)])
        sts = status.get((b.path, bi), set())
        d = descr.get((b.path, bi))
        ds = ""
        if d:
            try:
                ds = " ".join(short(x, 70) for x in d[2:4] if x is not None)
            except Exception:
                ds = ""
        loc = loc_s(t.span)
        if t.k == "assert" and kind.startswith("Overflow") and is_const_assert(b, bi):
            rep.ok(key, "constant operands (folded)", loc)
            continue
        if not sts:
            why = trusted_reason(b, kind, operand_names(b, t), ctx)
            if why:
                rep.ok(key, "trusted: " + why, loc)
            else:
                rep.bad(key, "panic-capable site (%s %s) in the request path was not reached by the analysis: it is not assumed safe" % (kind, operand_names(b, t)), loc)
            continue
        if "panics" in sts:
            why = trusted_reason(b, kind, operand_names(b, t) + ds, ctx)
            if why and sts <= {"panics", "safe"} and kind == "explicit-panic":
                rep.ok(key, "trusted: " + why, loc)
                continue
            rep.bad(key, "client input can make the server panic here: %s (%s) fails on a feasible path" % (kind, ds or operand_names(b, t)), loc)
        elif "unknown" in sts:
            why = trusted_reason(b, kind, operand_names(b, t) + ds, ctx)
            if why:
                rep.ok(key, "trusted: " + why, loc)
            else:
                rep.bad(key, "cannot discharge %s (%s): no dominating guard, type range or constant bounds it — a client-controlled value can make it panic (in a build without overflow checks the arithmetic silently wraps instead)" % (kind, ds or operand_names(b, t)), loc)
        else:
            rep.ok(key, "discharged on all %s" % ("evaluated paths" + (" (" + ds + ")" if ds else "")), loc)
    rep.sample({"sites": len(sites), "inside external macro expansions (listed, not judged)": n_macro, "paths evaluated": npaths})
    return rep


def is_const_assert(b, bi):
    """overflow assert whose binop has only constant operands (enum `as` casts)"""
    blk = b.blocks[bi]
    for s in blk.stmts:
        if s.k == "assign" and s.rv.k == "binop" and s.rv.op.endswith("WithOverflow"):
            if all(o.kind == "const" for o in s.rv.ops):
                return True
    return False


def operand_names(b, t):
    """source-level names of an assert's / call's operands"""
    out = []
    ops = []
    if t.k == "assert":
        from mir import Operand

        for k in ("l", "r", "len", "index"):
            if k in t.msg:
                ops.append(Operand(t.msg[k]))
    else:
        ops = t.args
    for o in ops:
        if o.kind == "const":
            out.append(str(o.const.get("val", o.const.get("repr", "const"))))
        elif o.place is not None:
            n = b.local_name(o.place.local)
            fl = ".".join(o.place.fields())
            out.append((n or "_") + ("." + fl if fl else ""))
    return " ".join(out)


def r2(ctx):
    rep = Report("C10.R2", "header validation is exact in both directions (boundary table, decided on the public decode); the codec's validator helpers, where they exist, agree", floor=30)
    f = ctx.facts
    d = f.one(DECODE)
    rep.analysed(d)
    rep.exhaustive = True
    maxop = dispatch.command_values(ctx)["OpCodeMax"]
    src = P("src")
    # a fresh codec is given exactly one header whose body (100 bytes, within the limit) has not arrived: a well-formed
    # header must make the decoder wait for more bytes, a malformed one must close the connection — whatever helper decides it
    for magic in (0x80, 0x81, 0x00, 0xFF):
        for op in (0x00, maxop - 1, maxop, 0xFF):
            for dt in (0, 1, 0xFF):
                def seeds(st, magic=magic, op=op, dt=dt):
                    assume(st, {("len0", src): 1}, eq=24)
                    assume(st, {("bufread", src, 0, 1): 1}, eq=magic)
                    assume(st, {("bufread", src, 1, 1): 1}, eq=op)
                    assume(st, {("bufread", src, 5, 1): 1}, eq=dt)
                    assume(st, {("bufread", src, 2, 2): 1}, eq=0)
                    assume(st, {("bufread", src, 4, 1): 1}, eq=0)
                    assume(st, {("bufread", src, 8, 4): 1}, eq=100)
                    assume(st, {F(P("self"), "item_size_limit"): 1}, lo=1000, hi=2**32 - 1)

                I = Interp(f, models=BUF_MODELS)
                outs = set(dispatch.outcome_of(p.ret) for p in I.run(d, [dispatch.codec_self(None, state="None"), src], seeds=seeds))
                if I.panic_paths:
                    outs.add("PANIC")
                valid = magic == 0x80 and op < maxop and dt == 0
                want = {"None"} if valid else {"Err"}
                rep.evaluations += 1
                rep.check(outs == want, "header_valid[magic=%#x,op=%#x,dt=%d]" % (magic, op, dt), "-> %s" % ("waits for the body" if valid else "refused"), "a header with magic=%#x, opcode=%#x, data_type=%d gives %s, must be %s (%s)" % (magic, op, dt, sorted(outs), sorted(want), "a malformed header is accepted" if not valid else "a well-formed request is refused"), d.loc())
    # the length validator, when the codec has one with the known shape (&self, &mut BytesMut, key_required) -> bool
    rv = f.bodies.get(CODEC + "::request_valid")
    if rv is not None and rv.arg_count == 3 and rv.local_ty(0) == "bool":
        rep.analysed(rv)
        for extras in (0, 20, 21, 255):
            for key in (0, 1, 250, 251, 65535):
                for rel in (-1, 0, 1):
                    body = key + extras + rel
                    if body < 0:
                        continue
                    for kr in (0, 1):
                        slf = dispatch.codec_self(None, header_fields={"extras_length": extras, "key_length": key, "body_length": body})
                        I = Interp(f)
                        outs = set(tform(p.ret) for p in I.run(rv, [slf, P("src"), kr]))
                        if I.panic_paths and key + extras > 65535:
                            outs.add("panic")
                        want = 1 if (extras <= 20 and key <= 250 and (not kr or key != 0) and body >= key + extras) else 0
                        rep.evaluations += 1
                        k = "request_valid[extras=%d,key=%d,body=key+extras%+d,required=%d]" % (extras, key, rel, kr)
                        ok = outs == {want}
                        rep.check(ok, k, "-> %s" % bool(want), "request_valid(extras=%d, key=%d, body=%d, key_required=%s) = %s, must be %s (%s)" % (extras, key, body, bool(kr), sorted(map(str, outs)), bool(want), "an invalid request is executed" if not want else "a valid request is refused"), rv.loc())
    else:
        rep.advise("no length validator of the known shape in the codec: the length rules are decided per opcode on decode (C10.R3)")
    return rep


KEY_REQUIRED = {0x00, 0x09, 0x0C, 0x0D, 0x01, 0x11, 0x02, 0x12, 0x03, 0x13, 0x04, 0x14, 0x05, 0x15, 0x06, 0x16, 0x0E, 0x19, 0x0F, 0x1A}
EXTRAS_OF = {0x01: 8, 0x11: 8, 0x02: 8, 0x12: 8, 0x03: 8, 0x13: 8, 0x05: 20, 0x15: 20, 0x06: 20, 0x16: 20}


def decode_outcomes(ctx, op, hdr):
    f = ctx.facts
    b = f.one(DECODE)
    I = Interp(f, models=BUF_MODELS)

    def seeds(st):
        assume(st, {F(P("self"), "item_size_limit"): 1}, lo=hdr["body_length"], hi=2**32 - 1)
        assume(st, {("len0", P("src")): 1}, lo=hdr["body_length"])

    paths = I.run(b, [dispatch.codec_self(op, header_fields=hdr), P("src")], seeds=seeds)
    outs = set(dispatch.outcome_of(p.ret) for p in paths)
    if I.panic_paths:
        outs.add("PANIC")
    return outs


def r3(ctx):
    rep = Report("C10.R3", "validated before built: per opcode, missing required key / key 251 / extras 21 / short body are refused; boundary values accepted", floor=100)
    f = ctx.facts
    b = f.one(DECODE)
    rep.exhaustive = True
    for op in sorted(dispatch.PROTOCOL):
        ex = EXTRAS_OF.get(op, 0)
        kreq = op in KEY_REQUIRED
        good_key = 250 if kreq else 0
        cases = [
            ("valid-boundary", {"key_length": good_key, "extras_length": ex, "body_length": good_key + ex}, True),
            ("key-251", {"key_length": 251, "extras_length": ex, "body_length": 251 + ex}, False),
            ("extras-21", {"key_length": good_key if kreq else 1, "extras_length": 21, "body_length": 21 + (good_key if kreq else 1)}, False),
            ("short-body", {"key_length": 10, "extras_length": ex, "body_length": 10 + ex - 1}, False),
        ]
        if kreq:
            cases.append(("missing-key", {"key_length": 0, "extras_length": ex, "body_length": ex}, False))
        for name, hdr, accept in cases:
            outs = decode_outcomes(ctx, op, hdr)
            rep.evaluations += 1
            k = "op%#04x:%s" % (op, name)
            if accept:
                ok = any(o.startswith("Some:") for o in outs) and "PANIC" not in outs and "None" not in outs
                rep.check(ok, k, "accepted", "opcode %#04x with key_length=%d extras=%d body=%d (all within the protocol's bounds) is refused or crashes: %s" % (op, hdr["key_length"], hdr["extras_length"], hdr["body_length"], sorted(outs)), b.loc())
            else:
                ok = outs == {"Err"}
                rep.check(ok, k, "refused (connection closed)", "opcode %#04x with %s (key_length=%d extras=%d body=%d) is not refused: %s — the property requires that it is never executed" % (op, name, hdr["key_length"], hdr["extras_length"], hdr["body_length"], sorted(outs)), b.loc())
    return rep


SYNC_ROOTS = [DECODE, HANDLER + "::handle_request", CODEC + "::encode_message"]


def r4(ctx):
    rep = Report("C10.R4", "no unbounded loop or recursion in the synchronous request path (iterator-driven loops excepted); async loops listed", floor=20)
    f = ctx.facts
    cg = callgraph.get(ctx)
    reach = cg.reachable(SYNC_ROOTS)
    from rules import roles

    sweep_path = roles.get(ctx).policy_sweep().path
    n = 0
    for bp in sorted(reach):
        b = f.bodies[bp]
        if b.crate != "memcrs.lib":
            continue
        n += 1
        rep.analysed(b)
        back = b.has_cycle()
        bad = []
        for tail, head in back:
            loop = natural_loop(b, tail, head)
            # iterator-driven: some block of the loop calls Iterator::next (on a finite std/DashMap iterator)
            iter_driven = any(b.blocks[x].term.k == "call" and (b.blocks[x].term.callee.name == "next" and (b.blocks[x].term.callee.trait or "").endswith("Iterator")) for x in loop)
            macro = all(from_external_macro(b.blocks[x].term.span) for x in loop if b.blocks[x].term.span)
            if not iter_driven and not macro:
                bad.append((tail, head))
        key = "loop-free:%s" % bp.replace("memcrs::", "")
        if bad and bp == sweep_path:
            key = "loop-free:memcache::random_policy::RandomPolicy::<eviction sweep>"
            rep.ok(key + ":listed", "eviction sweep loop (exits: usage <= limit, empty store) — termination under concurrent writers is not decided (C14/C16)", b.loc())
        else:
            rep.check(not bad, key, "no loop", "%s contains a loop that is not iterator-driven: a request may never complete" % bp, b.loc())
    # recursion
    sccs = cycles(cg, reach)
    rep.check(not sccs, "no-recursion", "no recursion among %d functions of the synchronous path" % n, "recursion in the request path: %s" % sccs[:3])
    for bp in (c09.READ_FRAME, CONN + "::skip_bytes::{closure#0}", c12.HL):
        b = f.bodies.get(bp)
        if b is not None:
            rep.advise("async loop in %s (exits on EOF / error / timeout / requested count); termination depends on the peer and the 60 s timeout — not decided" % bp.replace("memcrs::", ""))
    return rep


def cycles(cg, nodes):
    nodes = set(nodes)
    out = []
    for n in nodes:
        seen = set()
        # dynamic dispatch (dyn Cache) is excluded: the policy's inner store is a different object
        st = list(cg.static_edges.get(n, ()))
        while st:
            x = st.pop()
            if x == n:
                out.append(n)
                break
            if x in seen or x not in nodes:
                continue
            seen.add(x)
            st.extend(cg.static_edges.get(x, ()))
    return sorted(set(out))


def r5(ctx):
    rep = Report("C10.R5", "bounded buffering: client-sized reservations on the connection are bounded by the item size limit or a constant", floor=3)
    f = ctx.facts
    LIMIT = F(P("self"), "item_size_limit")
    found = 0
    # parse_header
    b = f.one(CODEC + "::parse_header")
    I = Interp(f, models=BUF_MODELS)

    def seeds(st):
        assume(st, {("len0", P("src")): 1}, lo=24)

    for p in I.run(b, [P("self"), P("src")], seeds=seeds):
        for e in p.events:
            if e.kind == "buf" and e.name == "reserve":
                found += 1
                size = e.args[1]
                d = I.decide_cmp(p.state, "Le", size, LIMIT, "usize")
                lo, hi = I.bounds(p.state, size)
                rep.check(d is True or hi <= 1 << 20, "parse_header:reserve", "reserve(body_length) only under body_length <= item_size_limit", "parse_header reserves %s bytes without a bound: a 24-byte header can make the server allocate up to 4 GiB per connection" % short(size, 60), loc_s(e.span))
    # skip_bytes and connection constructor
    for path, caps in ((CONN + "::skip_bytes::{closure#0}", [P("self"), P("bytes")]),):
        sb = f.one(path)
        I = Interp(f, models=BUF_MODELS, loop_bound=2)

        def seeds2(st):
            assume(st, {P("bytes"): 1}, lo=0, hi=2**32 - 1)

        for p in I.run(sb, [ClosureV(path, caps, "coroutine"), P("cx")], seeds=seeds2):
            for e in p.events:
                if e.kind == "buf" and e.name == "new" and e.args:
                    found += 1
                    lo, hi = I.bounds(p.state, e.args[0])
                    rep.check(hi <= 64 * 1024, "skip_bytes:scratch-buffer", "scratch buffer <= 64 KiB", "skip_bytes allocates a scratch buffer of up to %s bytes for a client-announced length" % hi, loc_s(e.span))
    cb = f.one(CONN + "::new")
    for p in Interp(f, models=BUF_MODELS).run(cb, [P("socket"), P("item_size_limit")]):
        for e in p.events:
            if e.kind == "buf" and e.name == "new" and e.args:
                found += 1
                rep.check(isinstance(e.args[0], int) and e.args[0] <= 1 << 16, "connection:initial-buffer", "initial buffer is a small constant", "the connection buffer starts with %s bytes" % short(e.args[0], 30), loc_s(e.span))
    rep.check(found >= 3, "reservation-sites", "%d reservation sites examined" % found, "only %d reservation sites found (3 confirmed: parse_header, skip_bytes, connection)" % found)
    # census: no other reserve/with_capacity/resize in codec/connection code
    for body in f.bodies.values():
        if body.crate != "memcrs.lib" or not (body.path.startswith(CODEC) or body.path.startswith(CONN) or body.path.startswith("<" + CODEC)):
            continue
        for bb, t in body.calls():
            nm = strip_generics(t.callee.path or "")
            if nm.split("::")[-1] in ("reserve", "with_capacity", "resize", "reserve_exact", "set_len") and (nm.startswith("bytes::") or "Vec" in nm):
                root = body.root or body.path
                allowed = root in (CODEC + "::parse_header", CONN + "::skip_bytes", CONN + "::new", CODEC + "::encode_message", "<" + CODEC + " as tokio_util::codec::Encoder<" + BRESP + ">>::encode")
                rep.check(allowed, "reservation@%s" % root.replace("memcrs::", ""), "known reservation site", "new buffer reservation (%s) in %s: not covered by the bound analysis" % (nm.split("::")[-1], root), loc_s(t.span))
    return rep


RULES = [("C10.R1", r1), ("C10.R2", r2), ("C10.R3", r3), ("C10.R4", r4), ("C10.R5", r5)]
