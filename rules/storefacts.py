"""Cached interpretations of the MemoryStore methods shared by several properties."""
from rules.common import *  # noqa: F401,F403

REQ_CAS = F(P("record"), "header", "cas")


def field_of(v, *names):
    """navigate a value (Struct overlay or term) by field names"""
    for n in names:
        if isinstance(v, Struct):
            v = v.get(n)
        elif isinstance(v, tuple) and v != TOP:
            v = ("field", v, n)
        else:
            return TOP
    return v


def set_paths(ctx):
    if "set_paths" not in ctx._cache:
        b = ctx.facts.one(ms("set"))
        I = store_interp(ctx.facts)
        ctx._cache["set_paths"] = I.run(b, [P("self"), P("key"), P("record")])
    return ctx._cache["set_paths"]


def req_cas_case(p):
    key, _ = canon({REQ_CAS: 1})
    iv = p.state.iv.get(key)
    if iv is None:
        return "?"
    if iv.decide("Eq", 0) is True:
        return "cas=0"
    if iv.decide("Ne", 0) is True or iv.decide("Gt", 0) is True:
        return "cas!=0"
    return "?"


def presence_case(p):
    """'present' / 'absent' / '-' from the discriminant facts on map lookups of the path"""
    res = "-"
    for term, d in p.state.discr.items():
        if isinstance(term, tuple) and term and term[0] == "lookup":
            kind = term[1]
            if not isinstance(d, int):
                continue
            if kind in ("get", "get_mut"):
                res = "present" if d == 1 else "absent"
            elif kind == "entry":
                res = "present" if d == 0 else "absent"
    return res


def cas_match_case(p):
    """'=' / '!=' / '-' : outcome of the comparison stored.cas vs request cas on this path"""
    for c, truth, _s, _at in p.state.pc:
        if isinstance(c, tuple) and c and c[0] == "cmp" and c[1] in ("Eq", "Ne"):
            a, b = c[2], c[3]
            sides = [a, b]
            if REQ_CAS in sides:
                other = b if a == REQ_CAS else a
                if lookup_of(other) is not None:
                    eq = truth if c[1] == "Eq" else (not truth)
                    return "=" if eq else "!="
    return "-"


def set_case(p):
    return "%s,%s,%s" % (req_cas_case(p), presence_case(p), cas_match_case(p))
