"""Cached interpretations of the MemoryStore methods shared by several properties."""
from rules.common import *  # noqa: F401,F403

REQ_CAS = F(P("record"), "header", "cas")


def field_of(v, *names):
    """navigate a value (Struct overlay or term) by field names"""
    for n in names:
        if isinstance(v, Struct):
            v = v.get(n)
        elif isinstance(v, tuple) and v != TOP:
            v = ("field", v, n)
        else:
            return TOP
    return v


def set_paths(ctx):
    if "set_paths" not in ctx._cache:
        b = ctx.facts.one(ms("set"))
        I = store_interp(ctx.facts)
        ctx._cache["set_paths"] = I.run(b, [P("self"), P("key"), P("record")])
    return ctx._cache["set_paths"]


def req_cas_case(p):
    key, _ = canon({REQ_CAS: 1})
    iv = p.state.iv.get(key)
    if iv is None:
        return "?"
    if iv.decide("Eq", 0) is True:
        return "cas=0"
    if iv.decide("Ne", 0) is True or iv.decide("Gt", 0) is True:
        return "cas!=0"
    return "?"


def presence_case(p):
    """'present' / 'absent' / '-' from the discriminant facts on map lookups of the path"""
    res = "-"
    for term, d in p.state.discr.items():
        if isinstance(term, tuple) and term and term[0] == "lookup":
            kind = term[1]
            if not isinstance(d, int):
                continue
            if kind in ("get", "get_mut"):
                res = "present" if d == 1 else "absent"
            elif kind == "entry":
                res = "present" if d == 0 else "absent"
    return res


def cas_match_case(p):
    """'=' / '!=' / '-' : outcome of the comparison stored.cas vs request cas on this path"""
    for c, truth, _s, _at in p.state.pc:
        if isinstance(c, tuple) and c and c[0] == "cmp" and c[1] in ("Eq", "Ne"):
            a, b = c[2], c[3]
            sides = [a, b]
            if REQ_CAS in sides:
                other = b if a == REQ_CAS else a
                if lookup_of(other) is not None:
                    eq = truth if c[1] == "Eq" else (not truth)
                    return "=" if eq else "!="
    return "-"


def set_case(p):
    return "%s,%s,%s" % (req_cas_case(p), presence_case(p), cas_match_case(p))


def flush_deadlines(ctx):
    """Evaluates the delayed-flush rewrite closure under: item timestamp <= now, no u32 saturation
    (age, delay < 2^31).  For every path returns dict(old_zero, p1, p2, new_ttl, ts_kept):
      p1: new expiry (timestamp' + ttl') <= now + delay      (C08: gone n seconds after the flush at the latest)
      p2: new expiry <= timestamp + old ttl  when old ttl != 0 (C05: never prolonged)
    each True / False / None (= cannot be shown from the path's facts)."""
    if "flush_deadlines" in ctx._cache:
        return ctx._cache["flush_deadlines"]
    f = ctx.facts
    fb = f.one(ms("flush"))
    delay = F(P("header"), "time_to_live")
    now = ("now",)
    out = []
    I = store_interp(f)

    def seeds(st):
        assume(st, {delay: 1}, lo=1, hi=2**30)

    # the item's fields are terms rooted at the alter_all argument: seed generic facts after the run is impossible,
    # so facts about the stored record are added by a model hook: we seed on the known shape of the stored term
    paths0 = I.run(fb, [P("self"), P("header")], seeds=seeds)
    stored = None
    for p in paths0:
        for e in map_events(p):
            if e.name == "alter_all":
                stored = e.extra["old"]
    if stored is None:
        ctx._cache["flush_deadlines"] = None
        return None
    ts = F(stored, "header", "timestamp")
    old = F(stored, "header", "time_to_live")

    def seeds2(st):
        assume(st, {delay: 1}, lo=1, hi=2**30)
        assume(st, {now: 1, ts: -1}, lo=0, hi=2**30)
        assume(st, {old: 1}, lo=0, hi=2**32 - 1)
        assume(st, {ts: 1}, lo=0, hi=2**62)
        assume(st, {now: 1}, lo=0, hi=2**62)

    I = store_interp(f)
    for p in I.run(fb, [P("self"), P("header")], seeds=seeds2):
        for e in map_events(p):
            if e.name != "alter_all":
                continue
            newv = e.extra["value"]
            nt = field_of(newv, "header", "time_to_live")
            nts = field_of(newv, "header", "timestamp")
            exp_new = lin_add(nts, nt, 1)
            deadline = lin_add(now, delay, 1)
            own = lin_add(ts, old, 1)
            key, _f = canon({old: 1})
            iv = p.state.iv.get(key)
            old_zero = iv is not None and iv.decide("Eq", 0) is True
            old_nonzero = iv is not None and iv.decide("Ne", 0) is True
            p1 = I.decide_cmp(p.state, "Le", exp_new, deadline) if exp_new is not None else None
            p2 = None
            if old_zero:
                p2 = True
            elif exp_new is not None:
                p2 = I.decide_cmp(p.state, "Le", exp_new, own)
            out.append({"old_zero": old_zero, "old_nonzero": old_nonzero, "p1": p1, "p2": p2, "new_ttl": nt, "ts_kept": tform(nts) == ts, "event": e})
    ctx._cache["flush_deadlines"] = out
    return out
