"""C04 — read-modify-write commands are atomic (check-then-act at the command layer)."""
from rules.common import *  # noqa: F401,F403
from rules.storefacts import field_of

LEVEL_TEXT = (
    "Static check-then-act analysis at the command layer: the Cache trait offers only separately locked "
    "get/set/delete, so a MemcStore command that reads with Cache::get and then writes with Cache::set/delete, where "
    "the write is control- or data-dependent on the read and is not tied to it (tie = the record handed to set "
    "carries header.cas taken from the record that was read, or a single atomic trait operation), has a window in "
    "every schedule that puts a conflicting command between the two calls. R1 enumerates these pairs per command by "
    "abstract interpretation of every MemcStore command (public entry point, helpers inlined). Today's eight pairs (add, replace, append, prepend, incr/decr on hit and on miss) are genuine and recorded as known findings; "
    "any other pair (a new command, or set/get/delete becoming composite) is a violation; so is the converse shape, a "
    "command whose answer depends on a read made after its own write. Not decided: the "
    "quantitative statements (N*d, distinct return values)."
)
ASSUMPTIONS = [
    "Cache::get / Cache::set / Cache::delete are individually atomic (C03) and nothing else synchronises commands",
]


def innermost_common_method(f, root, rctx, wctx):
    """deepest MemcStore method (not closure) that contains both calls"""
    common = []
    for a, b in zip(rctx, wctx):
        a = a.split("|")[-1]
        b = b.split("|")[-1]
        if a != b:
            break
        common.append(a)
    owner = root
    for c in common:
        body = f.bodies.get(c)
        if body is not None and body.kind in ("fn", "assoc_fn") and c.startswith(MEMC + "::"):
            owner = c
    return owner


def r1(ctx):
    rep = Report("C04.R1", "no untied (Cache::get, dependent Cache::set/delete) pair on one key inside a MemcStore command", floor=10)
    f = ctx.facts
    methods = [b for b in f.bodies.values() if b.path.startswith(MEMC + "::") and b.kind == "assoc_fn" and b.name != "new"]
    if len(methods) < 11:
        rep.bad("methods", "only %d MemcStore methods found (11 confirmed by reading)" % len(methods))
    # commands = the MemcStore methods that no other MemcStore method (or closure of one) calls: a helper shared by several
    # commands (add_delta, ...) is analysed inlined into each command, so a finding is identified by the command it breaks
    import callgraph

    cg = callgraph.get(ctx)
    mpaths = set(b.path for b in methods)

    def owner_method(path):
        while path not in mpaths and path in f.bodies and f.bodies[path].parent and path != f.bodies[path].parent:
            path = f.bodies[path].parent
        return path if path in mpaths else None

    called = set()
    for src, tgts in cg.edges.items():
        so = owner_method(src)
        if so is None:
            continue
        for t in tgts:
            to = owner_method(t)
            if to is not None and to != so:
                called.add(to)
    commands = [b for b in methods if b.path not in called or (b.j.get("vis") or "") == "Public"]
    rep.check(len(commands) >= 10, "commands", "%d commands (entry points of MemcStore)" % len(commands), "only %d MemcStore entry points found (10 confirmed: set get add replace append prepend increment decrement delete flush)" % len(commands))
    pairs = {}
    rereads = {}
    clean = set()
    for b in commands:
        rep.analysed(b)
        argn = [b.local_name(i) or "a%d" % i for i in b.arg_locals()]
        I = Interp(f)
        paths = I.run(b, [P(n) for n in argn])
        rep.evaluations += len(paths)
        for p in paths:
            evs = [e for e in p.events if e.kind == "call" and e.name.startswith(CACHE + "::")]
            for j, W in enumerate(evs):
                wn = W.name.split("::")[-1]
                if wn not in ("set", "delete", "flush", "remove", "remove_if"):
                    continue
                for R in evs[:j]:
                    rn = R.name.split("::")[-1]
                    if rn not in ("get", "get_by_key", "len", "is_empty", "as_read_only"):
                        continue
                    if len(R.args) > 1 and len(W.args) > 1 and tform(R.args[1]) != tform(W.args[1]):
                        continue  # different keys
                    rres = R.result
                    ri = p.events.index(R)
                    wi = p.events.index(W)
                    dep = any(ri < at <= wi and rres in atoms(c) for c, _t, _s, at in p.state.pc)
                    if not dep:
                        dep = any(rres in atoms(a) for a in W.args[1:])
                    if not dep:
                        continue
                    tied = False
                    if wn == "set" and len(W.args) > 2:
                        cas = field_of(W.args[2], "header", "cas")
                        if rres in atoms(cas):
                            tied = True  # optimistic: conditional on the version that was read
                    if tied:
                        continue
                    hit = d2(p, rres)
                    owner = b.path
                    k = "%s:%s(%s)->%s" % (owner.replace("memcrs::memcache::store::", ""), rn, "hit" if hit == 0 else ("miss" if hit == 1 else "?"), wn)
                    pairs.setdefault(k, (owner, W))
            # the converse shape: a read of the key made *after* the command's own write, on which the answer (or anything
            # the command does next) depends — a conflicting command between the two makes the answer contradict the effect
            for j, R in enumerate(evs):
                rn = R.name.split("::")[-1]
                if rn not in ("get", "get_by_key", "len", "is_empty"):
                    continue
                for W in evs[:j]:
                    wn = W.name.split("::")[-1]
                    if wn not in ("set", "delete", "remove", "remove_if"):
                        continue
                    if len(R.args) > 1 and len(W.args) > 1 and tform(R.args[1]) != tform(W.args[1]):
                        continue
                    rres = R.result
                    ri = p.events.index(R)
                    dep = any(at > ri and rres in atoms(c) for c, _t, _s, at in p.state.pc) or rres in atoms(p.ret)
                    if dep:
                        k = "%s:%s->%s:answer-from-reread" % (b.path.replace("memcrs::memcache::store::", ""), wn, rn)
                        rereads.setdefault(k, (b.path, R))
        clean.add(b.path)
    owners = set(o for o, _ in pairs.values())
    for b in commands:
        if b.path not in owners:
            rep.ok(b.path.replace("memcrs::memcache::store::", "") + ":no-pair", "no dependent read->write pair sequenced by this method", b.loc())
    for k, (owner, W) in sorted(pairs.items()):
        rep.bad(k, "read-modify-write is not atomic: Cache::get and a dependent Cache::%s on the same key with nothing tying the write to what was read (no CAS from the read record, no atomic update primitive): two concurrent commands interleave between the two calls" % k.split("->")[-1], f.bodies[owner].loc())
    for b in commands:
        if not any(o == b.path for o, _ in rereads.values()):
            rep.ok(b.path.replace("memcrs::memcache::store::", "") + ":no-reread", "the command's answer does not depend on a read made after its own write", b.loc())
    for k, (owner, R) in sorted(rereads.items()):
        rep.bad(k, "the command writes the key and then answers according to a separate, later read of it: a conflicting command between the two calls makes the answer contradict the effect that took place (the write happened, the client is told it did not — or the reverse)", f.bodies[owner].loc())
    return rep


RULES = [("C04.R1", r1)]
