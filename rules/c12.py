"""C12 — pipelining: in-order execution, one response per loud request, quit rules."""
from collections import OrderedDict

from rules.common import *  # noqa: F401,F403
from rules import dispatch
from rules.storefacts import field_of
import callgraph

LEVEL_TEXT = (
    'Static clause check: R1 every opcode of the Command enum below OpCodeMax decodes to a request or to an error '
    "that closes the connection — never to 'no frame' (decoder table over 0..255 on the public decode); R2 a semantic "
    'reply table: BinaryHandler::handle_request is evaluated for every request variant with each command method (the '
    'handler methods that call the storage) answering each of {Error(NotFound), Error(KeyExists), Error(0x81), '
    "success}: a loud request is always answered with the command's own response, a quiet mutation exactly on error, "
    'a quiet get always except on a miss, QuitQuietly never; the quiet request runs the same command with the same '
    'arguments as its loud sibling — however dispatch and filtering are organised into functions; R3/R4 are evaluated '
    'on the public Client::handle with its private steps inlined, one round of the loop per path: a decoded request '
    'is dispatched exactly once (QuitQuietly: zero times), its response is written exactly once when there is one and '
    'never otherwise, nothing reachable from the connection task (handler and store included) spawns, joins or queues work for another task or thread (any spawn*/join*/channel callee); QuitQuietly -> '
    'shutdown and the task ends, nothing executed or written; a Quit response -> written, then shutdown, the task '
    'ends; any other response keeps the loop going; a failed write ends the task; R5 MemcacheBinaryConnection::write '
    'returns success only after the whole encoded response was written to the socket. Not decided: TCP delivering the '
    'responses in order.'
)
ASSUMPTIONS = [
    "the loud/quiet pairing is the one of the repository's own enums (X / XQuiet(ly))",
    "tokio executes one task's awaits sequentially",
]


def conn_handler_opaque(body, args):
    if body.path.startswith(CONN + "::") or body.path.startswith(HANDLER + "::"):
        return "opaque"
    return "inline"


def r1(ctx):
    rep = Report("C12.R1", "every known opcode yields a request frame (or a closing error), never 'no frame'", floor=35)
    table = dispatch.decoder_table(ctx)
    cmd = dispatch.command_values(ctx)
    b = ctx.facts.one(CODEC + "::parse_request")
    rep.exhaustive = True
    for name, op in sorted(cmd.items(), key=lambda x: x[1]):
        if name == "OpCodeMax":
            continue
        outs = table[op]["outcomes"]
        ok = "None" not in outs and any(o.startswith("Some:") for o in outs) and "cut" not in outs
        rep.check(ok, "opcode:%#04x" % op, "%s -> %s" % (name, sorted(o for o in outs if o != "Err")), "opcode %#04x (%s) decodes to %s: a request that yields 'no frame' gets no response and its body is taken for the next header" % (op, name, sorted(outs)), b.loc())
        rep.sample({"opcode": "%#04x" % op, "name": name, "outcomes": sorted(outs)})
    # loud rows agree with the protocol table (the quiet/other rows are checked by C06/C07/C08/C19)
    for op, variant in sorted(dispatch.PROTOCOL.items()):
        somes = sorted(o[5:] for o in table[op]["outcomes"] if o.startswith("Some:"))
        if op == 0x10:
            if somes != ["Stats"]:
                rep.advise("opcode 0x10 (stat) is decoded as %s; the handler's Stats arm is unreachable (not covered by the given properties)" % somes)
            continue
        rep.check(somes == [variant], "row:%#04x" % op, "%#04x -> %s" % (op, variant), "opcode %#04x decodes to %s, the protocol says %s" % (op, somes, variant), b.loc())
    return rep


def filter_table(ctx, name):
    """into_quiet_* over {Error(NotFound), Error(other status), non-error}"""
    f = ctx.facts
    b = f.one("memcrs::memcache_server::handler::" + name)
    out = {}
    cases = {
        "Error(NotFound)": Struct(BRESP, "Error", 0, OrderedDict([("0", Struct(None, None, 0, OrderedDict([("header", Struct(None, None, 0, OrderedDict([("status", 1)]), F(P("r"), "header")))]), P("r")))])),
        "Error(KeyExists)": Struct(BRESP, "Error", 0, OrderedDict([("0", Struct(None, None, 0, OrderedDict([("header", Struct(None, None, 0, OrderedDict([("status", 2)]), F(P("r"), "header")))]), P("r")))])),
        "Error(0x81)": Struct(BRESP, "Error", 0, OrderedDict([("0", Struct(None, None, 0, OrderedDict([("header", Struct(None, None, 0, OrderedDict([("status", 0x81)]), F(P("r"), "header")))]), P("r")))])),
        "Get(hit)": Struct(BRESP, "Get", 1, OrderedDict([("0", P("r"))])),
        "Set(ok)": Struct(BRESP, "Set", 5, OrderedDict([("0", P("r"))])),
        "Quit": Struct(BRESP, "Quit", 16, OrderedDict([("0", P("r"))])),
    }
    for cname, val in cases.items():
        # variant index must be the enum's
        for i, v in enumerate(f.adts[BRESP]["variants"]):
            if v["name"] == val.variant:
                val.vi = i
        rs = Interp(f).run(b, [val])
        outs = set()
        for p in rs:
            var, pl = variant_of(p.ret)
            outs.add("Some(same)" if (var == "Some" and pl is val) or (var == "Some" and tform(pl) == tform(val)) else ("None" if var == "None" else "Some(other)" if var == "Some" else "?"))
        out[cname] = outs
    return out, b


def r2(ctx):
    rep = Report("C12.R2", "loud request => Some(response) for every outcome of the command; quiet mutation => answered exactly on error; quiet get => silent exactly on a miss; the quiet request runs the same command as its loud sibling", floor=30)
    f = ctx.facts
    rt = dispatch.reply_table(ctx)
    hb = f.one(HANDLER + "::handle_request")
    rep.analysed(hb)
    rep.exhaustive = True
    quiet_of = {q: (l, flt) for l, (q, flt) in dispatch.QUIET_OF.items()}
    cm = dispatch.command_methods(ctx)
    n_cmd = sum(1 for _v, row_ in rt.items() if any(cc for cc in row_["success"]["calls"]))
    rep.check(n_cmd >= 22, "command-methods", "%d request variants are executed by a storage command (%d handler methods talk to the storage)" % (n_cmd, len(cm)), "only %d request variants reach a storage command (22 confirmed: get x4, and set/add/replace/append/prepend/delete/incr/decr/flush x2)" % n_cmd, hb.loc())
    for variant, row in rt.items():
        has_cmd = any(cc for cc in row["success"]["calls"])
        bad = []
        for case, d in row.items():
            outs = d["outs"]
            err = case.startswith("Error")
            if variant in quiet_of:
                flt = quiet_of[variant][1]
                if not has_cmd:
                    want = {"None"}  # QuitQuietly: the (non-error) Quit response is never sent
                elif flt == "into_quiet_get":
                    want = {"None"} if case == "Error(NotFound)" else {"Some(same)"}
                else:
                    want = {"Some(same)"} if err else {"None"}
                if outs != want:
                    bad.append("%s -> %s (expected %s)" % (case, sorted(outs), sorted(want)[0]))
            else:
                ok = (outs == {"Some(same)"}) if has_cmd else (len(outs) == 1 and list(outs)[0].startswith("Some(") and list(outs)[0] not in ("Some(same)", "Some(other)", "Some(?)"))
                if not ok:
                    bad.append("%s -> %s (expected Some(response))" % (case, sorted(outs)))
        if variant in quiet_of:
            rule = "silent only on a miss" if quiet_of[variant][1] == "into_quiet_get" else "answered only on error"
            rep.check(not bad, "quiet:%s" % variant, "%s: %s, with the command's own response" % (variant, rule), "quiet request %s: %s — a quiet %s must be %s and then carry the command's own response" % (variant, "; ".join(bad), "get" if "get" in quiet_of[variant][1] else "command", rule), hb.loc())
        else:
            rep.check(not bad, "loud:%s" % variant, "%s -> Some(response) whatever the outcome" % variant, "loud request %s: %s — a non-quiet request must always be answered, with the command's own response" % (variant, "; ".join(bad)), hb.loc())
    # the quiet request runs the same command (same method, same arguments) as its loud sibling
    for q, (loud, _flt) in sorted(quiet_of.items()):
        if q not in rt or loud not in rt:
            rep.bad("pair:%s" % loud, "request variant %s or %s is missing" % (loud, q), hb.loc())
            continue

        def sig(calls):
            return sorted(set(tuple((c.name, tuple(strip_sites(tform(a)) for a in c.args)) for c in cc) for cc in calls))

        same = all(sig(rt[q][case]["calls"]) == sig(rt[loud][case]["calls"]) for case in rt[q])
        lc = sig(rt[loud]["success"]["calls"])
        qc = sig(rt[q]["success"]["calls"])
        rep.check(same, "pair:%s" % loud, "quiet arm runs the same command as the loud arm", "the quiet sibling of %s does not run the same command with the same arguments as the loud arm (%s vs %s)" % (loud, [[n.split("::")[-1] for n, _a in x] for x in lc], [[n.split("::")[-1] for n, _a in x] for x in qc]), hb.loc())
    return rep


def strip_sites(t):
    if isinstance(t, tuple):
        if t and t[0] == "call" and len(t) >= 4:
            return ("call", t[1], None, strip_sites(t[3]))
        return tuple(strip_sites(x) for x in t)
    return t


HR = CLIENT + "::handle_request::{closure#0}"
HF_ = CLIENT + "::handle_frame::{closure#0}"
HL = CLIENT + "::handle::{closure#0}"


def client_paths(ctx, which, request=None):
    f = ctx.facts
    b = f.one(which)
    caps = {HR: [P("self"), request if request is not None else P("request")], HF_: [P("self"), request if request is not None else P("req")], HL: [P("self")]}[which]
    cor = ClosureV(which, caps, "coroutine")
    I = Interp(f, policy=conn_handler_opaque, loop_bound=1)
    paths = I.run(b, [cor, P("cx")])
    return b, paths, I


def summarize(p):
    """ordered list of connection-level actions on a path: dispatch / write / shutdown / read_frame"""
    acts = []
    for e in p.events:
        if e.kind == "call":
            n = e.name
            if n == HANDLER + "::handle_request":
                acts.append(("dispatch", e))
            elif n == CONN + "::write":
                acts.append(("write-call", e))
            elif n == CONN + "::shutdown":
                acts.append(("shutdown-call", e))
            elif n == CONN + "::read_frame":
                acts.append(("read_frame-call", e))
        elif e.kind == "await":
            t = tform(e.args[0])
            if isinstance(t, tuple) and t[0] == "call":
                if t[1] == CONN + "::write":
                    acts.append(("write", e))
                elif t[1] == CONN + "::shutdown":
                    acts.append(("shutdown", e))
                elif "timeout" in t[1]:
                    acts.append(("read", e))
    return acts


def rounds(ctx):
    """one round of the connection task, evaluated on the public Client::handle with its private steps inlined (so the
    rules do not depend on how the loop is divided into functions or on what those functions return): for every path
    the kind of frame that was read, what was done with it, and whether the task ends or goes back to reading"""
    if "c12.rounds" in ctx._cache:
        return ctx._cache["c12.rounds"]
    f = ctx.facts
    b, paths, I = client_paths(ctx, HL)
    qq = [i for i, v in enumerate(f.adts[BREQ]["variants"]) if v["name"] == "QuitQuietly"]
    quit_idx = [i for i, v in enumerate(f.adts[BRESP]["variants"]) if v["name"] == "Quit"]
    out = []

    def two(p, term):
        """discriminant of a two-variant value (Result / Option) on this path: 0 / 1 / None"""
        d = p.state.discr.get(term)
        if isinstance(d, int):
            return d
        if isinstance(d, tuple) and d and d[0] == "not" and len(d[1]) == 1 and list(d[1])[0] in (0, 1):
            return 1 - list(d[1])[0]
        return None

    for p in paths:
        acts = summarize(p)
        kinds = [a for a, _ in acts]
        r = {"path": p, "acts": acts, "kinds": kinds, "frame": None, "req": None, "quitq": False, "ends": not p.cut, "cut": p.cut}
        reads = [e for a, e in acts if a == "read"]
        if not reads:
            out.append(r)
            continue
        T = reads[0].result if reads[0].result is not None else tform(("await", tform(reads[0].args[0])))
        dT = two(p, T)
        R = ("field", ("as", T, "Ok"), "0")
        O = ("field", ("as", R, "Ok"), "0")
        req = ("field", ("as", O, "Some"), "0")
        if dT == 1:
            r["frame"] = "timeout"
        elif dT == 0:
            dR = two(p, R)
            if dR == 1:
                r["frame"] = "read-error"
            elif dR == 0:
                dO = two(p, O)
                if dO == 0:
                    r["frame"] = "eof"
                elif dO == 1:
                    r["frame"] = "request"
                    r["req"] = req
                    dq = p.state.discr.get(req)
                    r["quitq"] = bool(qq) and dq == qq[0]
        disp = [e for a, e in acts if a == "dispatch"]
        r["disp"] = disp
        r["resp"] = None
        r["resp_quit"] = None
        if len(disp) == 1:
            d = two(p, disp[0].result)
            r["resp"] = "some" if d == 1 else "none" if d == 0 else None
            if d == 1:
                rv = ("field", ("as", disp[0].result, "Some"), "0")
                r["resp_term"] = rv
                dv = p.state.discr.get(rv)
                r["resp_quit"] = bool(quit_idx) and dv == quit_idx[0]
        w = [e for a, e in acts if a == "write"]
        r["write"] = None
        if w:
            dw = two(p, w[0].result)
            r["write"] = "err" if dw == 1 else "ok"
        out.append(r)
    ctx._cache["c12.rounds"] = (b, out)
    return ctx._cache["c12.rounds"]


def r3(ctx):
    rep = Report("C12.R3", "exactly-once dispatch, at most one write (exactly one when there is a response), sequential task", floor=6)
    f = ctx.facts
    b, rs = rounds(ctx)
    rep.analysed(b)
    rep.evaluations += len(rs)
    n_resp = n_noresp = n_qq = 0
    for r in rs:
        if r["frame"] != "request":
            continue
        p = r["path"]
        if r["cut"] and not str(r["cut"]).startswith("loop"):
            rep.bad("handle_request:cut", "cannot evaluate the connection task (%s)" % r["cut"], b.loc())
            continue
        kinds = r["kinds"]
        nd = kinds.count("dispatch")
        nw = kinds.count("write")
        if r["quitq"]:
            n_qq += 1
            continue  # R4
        if nd != 1:
            rep.bad("handle_request:dispatch-count", "a request is dispatched to the handler %d times on some path (must be exactly once)" % nd, b.loc())
            continue
        disp = r["disp"][0]
        rep.check(tform(disp.args[1]) == r["req"], "handle_request:dispatches-the-request", "handler gets the decoded request", "the handler is given %s instead of the decoded request" % short(disp.args[1], 60), b.loc())
        if r["resp"] == "some":
            n_resp += 1
            w = [e for a, e in r["acts"] if a == "write-call"]
            okw = nw == 1 and len(w) == 1 and r["resp_term"] in atoms(w[0].args[1]) and kinds.index("dispatch") < kinds.index("write")
            rep.check(okw, "handle_request:response-written-once", "the handler's response is written exactly once, after the dispatch", "a response is written %d times / not the handler's response" % nw, b.loc())
        elif r["resp"] == "none":
            n_noresp += 1
            rep.check(nw == 0 and "shutdown" not in kinds and not r["ends"], "handle_request:no-response-no-write", "no response: nothing written, connection stays open", "without a response the connection task writes %d times / closes (%s)" % (nw, "the task ends" if r["ends"] else "continues"), b.loc())
        else:
            rep.bad("handle_request:shape", "cannot relate the handler's result to the write", b.loc())
    rep.check(n_resp > 0 and n_noresp > 0 and n_qq > 0, "handle_request:cases", "paths for: response, no response, quitq", "the connection task lacks a path for one of {response, no response, quitq} (%d/%d/%d)" % (n_resp, n_noresp, n_qq), b.loc())
    # sequential: no spawn/join/select reachable from the connection task
    cg = callgraph.get(ctx)
    from rules.conntask import is_deferral as is_conc

    w = cg.may_reach_ext(HL, is_conc)
    rep.check(w is None, "sequential:handle", "no concurrent work started from the connection task", "the connection task can start concurrent work (%s): requests of one connection may be executed or answered out of order" % (" -> ".join(w) if w else ""), safe_loc(f, HL))
    # one frame is handled to completion before the next read
    for r in rs:
        acts = r["kinds"]
        idx = [i for i, a in enumerate(acts) if a == "read_frame-call"]
        for i, j in zip(idx, idx[1:]):
            seg = acts[i:j]
            if "dispatch" not in seg and "shutdown" not in seg:
                rep.bad("handle:read-before-handled", "a second frame is read before the first was handled", b.loc())
    rep.ok("handle:read-handle-loop", "each frame is handled before the next read_frame", b.loc())
    return rep


def r4(ctx):
    rep = Report("C12.R4", "quit rules: quitq -> shutdown and stop, nothing executed/written; quit response -> written, then shutdown, stop; stop ends the read loop", floor=5)
    f = ctx.facts
    b, rs = rounds(ctx)
    rep.analysed(b)
    qq = [r for r in rs if r["frame"] == "request" and r["quitq"]]
    ok = bool(qq)
    for r in qq:
        kinds = r["kinds"]
        if "dispatch" in kinds or "write" in kinds or "write-call" in kinds or "shutdown" not in kinds or not r["ends"]:
            ok = False
    rep.check(ok, "quitq", "quitq: shutdown, task ends, no dispatch, no write", "quitq is not handled as 'close without executing or answering anything'", b.loc())
    n_quit = n_other = 0
    for r in rs:
        if r["frame"] != "request" or r["quitq"] or r.get("resp") != "some":
            continue
        kinds = r["kinds"]
        if r["write"] == "err":
            rep.check(r["ends"], "write-error-closes", "a failed write ends the connection", "after a failed write the connection keeps going", b.loc())
            continue
        if r["resp_quit"]:
            n_quit += 1
            ok = "write" in kinds and "shutdown" in kinds and kinds.index("write") < kinds.index("shutdown") and r["ends"]
            rep.check(ok, "quit", "quit: response written, then shutdown, stop", "a quit response is not 'written, then the socket shut down, then stop' (actions %s, %s)" % (kinds, "ends" if r["ends"] else "continues"), b.loc())
        else:
            n_other += 1
            ok = "shutdown" not in kinds and not r["ends"]
            rep.check(ok, "non-quit-keeps-open", "other responses keep the connection open", "a non-quit response closes the connection or stops the loop (actions %s, %s)" % (kinds, "ends" if r["ends"] else "continues"), b.loc())
    rep.check(n_quit > 0 and n_other > 0, "quit:cases", "paths for quit and non-quit responses", "cannot find both a quit and a non-quit response path (%d/%d)" % (n_quit, n_other), b.loc())
    # after a shutdown nothing more is read
    okl = True
    seen_stop = False
    for r in rs:
        kinds = r["kinds"]
        if "shutdown" in kinds:
            seen_stop = True
            if not r["ends"] or "read_frame-call" in kinds[kinds.index("shutdown"):]:
                okl = False
    rep.check(okl and seen_stop, "handle:stop-ends-loop", "after quit/quitq nothing more is read", "after a quit the read loop continues: requests received after quit are executed", b.loc())
    return rep


def r5(ctx):
    rep = Report("C12.R5", "MemcacheBinaryConnection::write puts the whole encoded response on the socket before it returns Ok (no deferred/queued responses); shutdown follows", floor=2)
    f = ctx.facts
    from bufmodel import BUF_MODELS

    path = CONN + "::write::{closure#0}"
    b = f.one(path)
    rep.analysed(b)
    I = Interp(f, models=BUF_MODELS, policy=lambda body, a: "opaque" if body.path == CODEC + "::encode_message" else "inline", loop_bound=1)
    paths = I.run(b, [ClosureV(path, [P("self"), P("msg")], "coroutine"), P("cx")])
    rep.evaluations += len(paths)
    n_ok = 0
    for p in paths:
        var, _pl = variant_of(p.ret)
        if var == "Err" or p.cut:
            continue
        # Ok(..) written out, or the result of the awaited write handed back as it is (Ok exactly when the write succeeded)
        n_ok += 1
        enc = [e for e in p.events if e.kind == "call" and e.name == CODEC + "::encode_message"]
        wa = [e for e in p.events if e.kind == "await" and "write_all" in repr(tform(e.args[0]))]
        ok = len(enc) == 1 and tform(enc[0].args[1]) == P("msg") and len(wa) == 1 and enc[0].result in atoms(wa[0].args[0]) and F(P("self"), "stream") in atoms(wa[0].args[0])
        # ... and the write is known to have succeeded on this path: its result was examined and found Ok, or is handed back
        # as the function's own result (an error swallowed with .ok() / let _ = makes write report success for a lost response)
        if ok:
            wres = wa[0].result
            examined = d2(p, wres) == 0 or tform(p.ret) == wres or wres in atoms(tform(p.ret))
            ok = examined
        rep.check(ok, "write:encoded-message-written", "Ok(()) only after write_all(encode_message(msg)) on the stream was awaited", "MemcacheBinaryConnection::write can return Ok without having written the encoded response to the socket (%d encode_message, %d awaited write_all): a response can be lost or delayed past a later shutdown, or overtaken" % (len(enc), len(wa)), b.loc())
    rep.check(n_ok > 0, "write:ok-path", "write has a success path", "cannot find a success path of MemcacheBinaryConnection::write", b.loc())
    # nobody else writes to the socket
    writers = set()
    for body in f.bodies.values():
        if body.crate != "memcrs.lib":
            continue
        for bb, t in body.calls():
            nm = strip_generics(t.callee.path or "")
            if nm.startswith("tokio::io::AsyncWriteExt::") and t.callee.name.startswith("write"):
                writers.add(body.root or body.path)
    for w in sorted(writers):
        rep.check(w.startswith(CONN + "::write"), "socket-writer:" + w.replace("memcrs::", ""), "socket written only by the connection's write path", "%s writes to the socket directly: responses can be interleaved or reordered" % w)
    return rep


RULES = [("C12.R1", r1), ("C12.R2", r2), ("C12.R3", r3), ("C12.R4", r4), ("C12.R5", r5)]
