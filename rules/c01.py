"""C01 — stored data is returned exactly; key isolation; no spurious loss."""
from collections import OrderedDict

from rules.common import *  # noqa: F401,F403
from rules import dispatch, storefacts
from rules.storefacts import field_of, REQ_CAS
from rules.c02 import is_counter_token, memc_opaque
from rules import roles
from storemodel import MULTI_KEY_MUTATORS

LEVEL_TEXT = (
    "Static provenance check of the round trip wire -> request -> record -> map -> response, for all inputs at once: "
    "R1 the set/get frames are sliced at the protocol's offsets (flags@0, expiration@4, key@8, value after the key; get "
    "key@0), R2 the handlers build the stored record from the matching request fields (value, flags, expiration, cas) and "
    "pass the request key, R3 MemoryStore::set writes exactly that record under exactly that key (only cas and timestamp "
    "are rewritten), R4 get returns the looked-up record and the hit response carries its value/flags/cas, R5 every stored "
    "cas is non-zero by construction, R6 every map operation of a single-key command uses the command's key, multi-key "
    "mutators are called only by flush, and the census of removal sites is {expiry, delete, flush, remove, remove_if} with "
    "remove/remove_if called only by the eviction policy. Not decided: byte-for-byte equality, Bytes/DashMap themselves."
)
ASSUMPTIONS = [
    "bytes / DashMap semantic tables (analysis/bufmodel.py, analysis/storemodel.py)",
    "Clone of Record/Bytes is a faithful copy",
]

HF = F(P("self"), "header")


def buffer_root_ok(buf):
    """the buffer the parsers read from: the connection buffer, or the body slice cut off it"""
    if buf == P("src"):
        return True
    if isinstance(buf, tuple) and buf[0] == "bufslice" and buf[1] == P("src") and buf[2] == 0 and F(HF, "body_length") in atoms(buf[3]):
        return True
    return False


def r1(ctx):
    rep = Report("C01.R1", "wire -> request: set frames: flags = body[0..4], expiration = body[4..8], key = body[8..8+key_length], value = the rest; get/delete frames: key = body[0..key_length]", floor=12)
    f = ctx.facts
    table = dispatch.decoder_table(ctx)
    kl = F(HF, "key_length")
    for op in (0x01, 0x11, 0x02, 0x12, 0x03, 0x13):
        oks = []
        why = "no decoded request"
        for variant, ps in table[op]["paths"].items():
            for p in ps:
                req = field_of(p.ret, "0", "0", "0")
                fl, ex, k, v = (field_of(req, n) for n in ("flags", "expiration", "key", "value"))

                def rd(x, off, w):
                    return isinstance(x, tuple) and x[0] == "bufread" and x[2] == off and x[3] == w

                k_ok = isinstance(k, tuple) and k[0] == "bufslice" and k[2] == 8 and k[3] == kl
                v_ok = isinstance(v, tuple) and v[0] == "bufslice" and to_lin(v[2]) == ({kl: 1}, 8) and F(HF, "body_length") in atoms(v[3])
                same = k_ok and v_ok and rd(fl, 0, 4) and rd(ex, 4, 4) and len({fl[1], ex[1], k[1], v[1]}) == 1 and buffer_root_ok(k[1])
                hdr_ok = field_of(req, "header") is not TOP and (F(HF, "cas") in atoms(field_of(req, "header", "cas")) or field_of(req, "header") == HF or isinstance(field_of(req, "header"), Struct))
                oks.append(bool(same and hdr_ok))
                if not oks[-1] or why == "no decoded request":
                    why = "flags=%s expiration=%s key=%s value=%s" % (short(fl, 50), short(ex, 50), short(k, 70), short(v, 90))
        ok = bool(oks) and all(oks)  # every path that decodes the frame slices it this way
        rep.check(ok, "set-layout:%#04x" % op, "flags@0 expiration@4 key@8 value@8+key_length", "set-family frame %#04x is sliced as %s" % (op, why), safe_loc(f, CODEC + "::parse_set_request"))
    for op, parser in ((0x00, "parse_get_request"), (0x09, "parse_get_request"), (0x0C, "parse_get_request"), (0x0D, "parse_get_request"), (0x04, "parse_delete_request"), (0x14, "parse_delete_request")):
        oks = []
        why = "no decoded request"
        for variant, ps in table[op]["paths"].items():
            for p in ps:
                req = field_of(p.ret, "0", "0", "0")
                k = field_of(req, "key")
                oks.append(isinstance(k, tuple) and k[0] == "bufslice" and k[2] == 0 and k[3] == kl and buffer_root_ok(k[1]))
                if not oks[-1] or why == "no decoded request":
                    why = "key=%s" % short(k, 100)
        ok = bool(oks) and all(oks)
        rep.check(ok, "key-layout:%#04x" % op, "key = body[0..key_length]", "frame %#04x: %s" % (op, why), safe_loc(f, CODEC + "::" + parser))
    return rep


def r2(ctx):
    rep = Report("C01.R2", "request -> record: handlers store Record{value<-req.value, flags<-req.flags, ttl<-req.expiration, cas<-req.header.cas} under req.key", floor=3)
    f = ctx.facts
    for meth, argn, ops in (("set", "set_req", [None]), ("add_replace", "request", [0x02, 0x03])):
        for op in ops:
            if op is None:
                req = P(argn)
            else:
                hdr = Struct(None, None, 0, OrderedDict([("opcode", op)]), F(P(argn), "header"))
                req = Struct(None, None, 0, OrderedDict([("header", hdr)]), P(argn))
            I = Interp(f, policy=memc_opaque)
            b, hargs = dispatch.handler_body_args(ctx, meth, argn, op, payload=req)
            rep.analysed(b)
            paths = I.run(b, hargs)
            ok = bool(paths)
            why = ""
            for p in paths:
                calls = [e for e in p.events if e.kind == "call" and e.name.startswith(MEMC + "::")]
                if len(calls) != 1:
                    ok = False
                    why = "%d store calls" % len(calls)
                    break
                e = calls[0]
                rec = e.args[2]
                got = {
                    "key": tform(e.args[1]),
                    "value": field_of(rec, "value"),
                    "flags": field_of(rec, "header", "flags"),
                    "ttl": field_of(rec, "header", "time_to_live"),
                    "cas": field_of(rec, "header", "cas"),
                }
                want = {
                    "key": F(P(argn), "key"),
                    "value": F(P(argn), "value"),
                    "flags": F(P(argn), "flags"),
                    "ttl": F(P(argn), "expiration"),
                    "cas": F(P(argn), "header", "cas"),
                }
                for k in want:
                    if tform(got[k]) != want[k]:
                        ok = False
                        why = "record.%s <- %s (must be the request's %s)" % (k, short(got[k], 80), ".".join(want[k][2:] if False else [str(want[k])]))
            k = "handler:%s%s" % (meth, "" if op is None else ":%#04x" % op)
            rep.check(ok, k, "stored record built from the matching request fields", "BinaryHandler::%s: %s" % (meth, why), b.loc())
    return rep


def r3(ctx):
    rep = Report("C01.R3", "record -> map: every map write of MemoryStore::set stores the given record (value, flags, ttl untouched; only cas/timestamp rewritten) under the given key", floor=3)
    b = ctx.facts.one(ms("set"))
    seen = set()
    for p in storefacts.set_paths(ctx):
        for w in map_writes(p):
            v = w["value"]
            case = storefacts.set_case(p)
            k = "set[%s]:%s" % (case, w["name"])
            if k in seen:
                continue
            seen.add(k)
            ok_key = w["key"] == P("key")
            ok_val = field_of(v, "value") == F(P("record"), "value") and field_of(v, "header", "flags") == F(P("record"), "header", "flags") and field_of(v, "header", "time_to_live") == F(P("record"), "header", "time_to_live")
            over = set()
            if isinstance(v, Struct):
                over |= set(v.fields) - {"header"}
                h = v.get("header")
                if isinstance(h, Struct):
                    over |= set("header." + x for x in h.fields) - {"header.cas", "header.timestamp"}
            rep.check(ok_key and ok_val and not over, k, "writes the request's record under the request's key", "MemoryStore::set writes key=%s value=%s flags=%s ttl=%s (rewritten fields: %s)" % (short(w["key"], 40), short(field_of(v, "value"), 60), short(field_of(v, "header", "flags"), 60), short(field_of(v, "header", "time_to_live"), 60), sorted(over)), loc_s(w["event"].span))
    return rep


def r4(ctx):
    rep = Report("C01.R4", "map -> response: get_by_key returns the looked-up record; MemcStore::get forwards; the hit response carries record.value / header.flags / header.cas of the record fetched for the request key", floor=5)
    f = ctx.facts
    b = f.one(ms("get_by_key", IMPLD))
    rep.analysed(b)
    I = store_interp(f)
    paths = I.run(b, [P("self"), P("key")])
    hit = miss = False
    for p in paths:
        evs = map_events(p)
        if len(evs) != 1 or evs[0].name not in ("get",) or evs[0].extra["key"] != P("key"):
            rep.bad("get_by_key:shape", "get_by_key is not a single lookup of its key (%s)" % [e.name for e in evs], b.loc())
            continue
        lk = evs[0].extra["result"]
        var, pl = variant_of(p.ret)
        if d2(p, lk) == 1:
            hit = True
            rep.check(var == "Ok" and lookup_of(pl) == lk and not map_writes(p), "get_by_key:hit", "hit -> Ok(clone of the stored record)", "get_by_key hit returns %s" % short(p.ret, 100), b.loc())
        else:
            miss = True
            rep.check(err_name(p.ret) == "NotFound", "get_by_key:miss", "miss -> NotFound", "get_by_key miss returns %s" % short(p.ret, 80), b.loc())
    if not (hit and miss):
        rep.bad("get_by_key:cases", "get_by_key lacks a hit or a miss path", b.loc())
    # MemcStore::get
    mg = f.one(MEMC + "::get")
    paths = Interp(f).run(mg, [P("self"), P("key")])
    ok = bool(paths)
    for p in paths:
        calls = [e for e in p.events if e.kind == "call" and e.name.startswith(CACHE + "::")]
        if len(calls) != 1 or calls[0].name != CACHE + "::get" or tform(calls[0].args[1]) != P("key") or tform(p.ret) != calls[0].result:
            ok = False
    rep.check(ok, "MemcStore::get", "MemcStore::get = store.get(key)", "MemcStore::get does not simply forward to the store's get for its key", mg.loc())
    # handler
    hb, hargs = dispatch.handler_body_args(ctx, "get", "get_request")
    I = Interp(f, policy=memc_opaque)
    n = 0
    for p in I.run(hb, hargs):
        calls = [e for e in p.events if e.kind == "call" and e.name.startswith(MEMC + "::")]
        if len(calls) != 1 or calls[0].name != MEMC + "::get":
            rep.bad("handler:get:store-call", "BinaryHandler::get does not make exactly one MemcStore::get call", hb.loc())
            continue
        if tform(calls[0].args[1]) != F(P("get_request"), "key"):
            rep.bad("handler:get:key", "BinaryHandler::get looks up %s instead of the request key" % short(calls[0].args[1], 80), hb.loc())
        if d2(p, calls[0].result) != 0:
            continue
        n += 1
        rec = ("field", ("as", calls[0].result, "Ok"), "0")
        resp = field_of(p.ret, "0")
        ok = field_of(resp, "value") == F(rec, "value") and field_of(resp, "flags") == F(rec, "header", "flags") and tform(field_of(resp, "header", "cas")) == F(rec, "header", "cas")
        rep.check(ok, "handler:get:hit-response", "hit response <- record.value / header.flags / header.cas", "hit response carries value=%s flags=%s cas=%s" % (short(field_of(resp, "value"), 60), short(field_of(resp, "flags"), 60), short(field_of(resp, "header", "cas"), 60)), hb.loc())
        var = p.ret.variant if isinstance(p.ret, Struct) else None
        rep.check(var == "Get", "handler:get:variant", "hit answered with a Get response", "hit answered with %s" % var, hb.loc())
    if n == 0:
        rep.bad("handler:get:no-hit-path", "cannot find the hit path of BinaryHandler::get", hb.loc())
    return rep


def r5(ctx):
    rep = Report("C01.R5", "every stored cas is non-zero: counter starts at a non-zero constant; a client-derived token is client cas (+1) under cas > 0 without wrap", floor=4)
    f = ctx.facts
    nb = f.one(MS + "::new")
    init = None
    for p in Interp(f).run(nb, [P("timer")]):
        c = field_of(p.ret, roles.get(ctx).ms_cas)
        for a in atoms(c):
            if isinstance(a, tuple) and a[0] == "call" and a[1].endswith("::new") and "tomic" in a[1]:
                init = a[3][0] if a[3] else None
    rep.check(isinstance(init, int) and init != 0, "cas_id:init", "cas counter initialised to %s" % init, "the cas counter starts at %s: the first store would hand out the reserved token 0" % (init,), nb.loc())
    for p in storefacts.set_paths(ctx):
        for w in map_writes(p):
            cas = field_of(w["value"], "header", "cas")
            case = storefacts.set_case(p)
            k = "set[%s]:nonzero" % case
            if is_counter_token(cas, ctx):
                rep.ok(k, "token from the counter (starts non-zero, 2^64 steps to wrap)", loc_s(w["event"].span))
                continue
            # client-derived
            okc = False
            why = short(cas, 100)
            key, _f = canon({REQ_CAS: 1})
            iv = p.state.iv.get(key)
            pos = iv is not None and iv.lo >= 1
            if isinstance(cas, tuple) and cas[0] == "call" and cas[1].endswith("saturating_add") and cas[3][0] == REQ_CAS and pos:
                okc = True
            elif cas == REQ_CAS and pos:
                okc = True
            rep.check(okc, k, "client token + 1 (saturating) under cas > 0", "stored cas %s can be 0 (wrapping / unchecked arithmetic on the client's token, or no cas > 0 guard)" % why, loc_s(w["event"].span))
    return rep


SINGLE_KEY = [("set", CACHE, ["self", "key", "record"]), ("delete", CACHE, ["self", "key", "header"]), ("remove", CACHE, ["self", "key"]), ("get_by_key", IMPLD, ["self", "key"]), ("check_if_expired", IMPLD, ["self", "key", "record"])]
DM = "dashmap::DashMap::"
REMOVERS = ("remove", "remove_if", "remove_if_mut", "clear", "retain")


def r6(ctx):
    rep = Report("C01.R6", "key isolation and removal census: single-key commands touch only their key; multi-key mutators only in flush; removal sites = {expiry, delete, flush, remove, remove_if}; remove/remove_if used only by the eviction policy", floor=10)
    f = ctx.facts
    for meth, trait, args in SINGLE_KEY:
        b = f.one(ms(meth, trait))
        rep.analysed(b)
        paths = store_interp(f).run(b, [P(a) for a in args])
        bad = None
        n = 0
        for p in paths:
            for e in map_events(p):
                n += 1
                if "key" in e.extra and e.extra["key"] != P("key"):
                    bad = "%s on key %s" % (e.name, short(e.extra["key"], 60))
                if e.name in ("clear", "alter_all", "retain", "iter", "iter_mut"):
                    bad = "multi-key operation %s" % e.name
        rep.check(bad is None and n > 0, "single-key:%s" % meth, "all %d map operations use the command's key" % n, "MemoryStore::%s performs %s: a command for one key touches another" % (meth, bad), b.loc())
    # census of DashMap calls
    removers = {}
    for b in f.bodies.values():
        if b.crate != "memcrs.lib":
            continue
        for bb, t in b.calls():
            nm = strip_generics(t.callee.path or "")
            if not nm.startswith(DM) and "dashmap::mapref::entry::OccupiedEntry::remove" not in nm:
                continue
            rep.call_sites += 1
            meth = nm.split("::")[-1]
            root = b.root or b.path
            if meth in MULTI_KEY_MUTATORS:
                rep.check(root == ms("flush"), "multi-key:%s@%s" % (meth, root), "%s called from flush" % meth, "the multi-key mutator DashMap::%s is called from %s (only flush may touch all items)" % (meth, root), loc_s(t.span))
            if meth in REMOVERS or "OccupiedEntry::remove" in nm:
                removers.setdefault(root, set()).add(meth)
    allowed = {ms("check_if_expired", IMPLD): "expiry", ms("delete"): "delete", ms("flush"): "flush", ms("remove"): "Cache::remove", ms("remove_if"): "Cache::remove_if"}
    for root, meths in sorted(removers.items()):
        rep.check(root in allowed, "removal-site:%s" % root, "removal in %s (%s)" % (allowed.get(root), sorted(meths)), "items are removed (%s) in %s — outside expiry/delete/flush/remove/remove_if" % (sorted(meths), root), f.bodies[root].loc() if root in f.bodies else None)
    # who calls Cache::remove / Cache::remove_if
    for b in f.bodies.values():
        if b.crate != "memcrs.lib":
            continue
        for bb, t in b.calls():
            if t.callee.name in ("remove", "remove_if") and (t.callee.trait == CACHE or (t.callee.resolved or "").startswith("<" + MS + " as " + CACHE)):
                root = b.root or b.path
                ok = "random_policy::RandomPolicy" in root or root in (ms("remove_if"),)
                rep.check(ok, "evictor:%s->%s" % (root, t.callee.name), "Cache::%s called by the eviction policy / the store itself" % t.callee.name, "Cache::%s is called from %s: items can disappear without expiry, delete, flush or eviction" % (t.callee.name, root), loc_s(t.span))
    return rep


RULES = [("C01.R1", r1), ("C01.R2", r2), ("C01.R3", r3), ("C01.R4", r4), ("C01.R5", r5), ("C01.R6", r6)]
