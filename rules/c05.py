"""C05 — expiry: items live for their TTL and never longer."""
from rules.common import *  # noqa: F401,F403
from rules import storefacts

LEVEL_TEXT = (
    "Static clause check (no execution): R1 evaluates the expiry predicate of MemoryStore::check_if_expired by "
    "abstract interpretation over the finite partition ttl in {0,!=0} x sign(timestamp+ttl-now) and requires alive "
    "<=> ttl=0 or >, and a removal of the key on the expired cases; R2 requires every map write of MemoryStore::set "
    "to carry header.timestamp <- Timer::timestamp(); R3 requires every presence test of the command layer to go "
    "through Cache::get (lazy expiry) and Cache::get to map 'expired' to NotFound; R4 is a census of writes to "
    "time_to_live/timestamp and requires the delayed flush to make the new TTL depend on the old one. Not decided: "
    "that the 1 Hz clock really ticks, behaviour over whole histories."
)
ASSUMPTIONS = [
    "DashMap 5.5.3 semantic table in analysis/storemodel.py (which call looks up / writes / removes, closures run under the lock)",
    "u64 + (u32 as u64) in the predicate cannot wrap for realistic clock values (type-range discharge is C10's)",
    "arguments of log/tracing macros have no side effects",
]


def r1(ctx):
    rep = Report("C05.R1", "expiry predicate truth table: alive <=> ttl=0 or timestamp+ttl>now; expired => removal of the key is attempted", floor=6)
    f = ctx.facts
    b = f.one(ms("check_if_expired", IMPLD))
    rep.analysed(b)
    ttl = F(P("record"), "header", "time_to_live")
    ts = F(P("record"), "header", "timestamp")
    now = ("now",)
    rep.exhaustive = True
    for ttl_case in ("ttl=0", "ttl!=0"):
        for sign in ("<", "=", ">"):
            def seeds(st, ttl_case=ttl_case, sign=sign):
                if ttl_case == "ttl=0":
                    assume(st, {ttl: 1}, eq=0)
                else:
                    assume(st, {ttl: 1}, lo=1, hi=2**32 - 1)
                # clock values and store times of the property's range (seconds since start): lets saturating/checked forms
                # of the same sum fold to the plain one
                assume(st, {ts: 1}, lo=0, hi=2**62)
                assume(st, {now: 1}, lo=0, hi=2**62)
                L = {ts: 1, ttl: 1, now: -1}
                if sign == "<":
                    assume(st, L, hi=-1)
                elif sign == "=":
                    assume(st, L, eq=0)
                else:
                    assume(st, L, lo=1)

            I = store_interp(f)
            paths = I.run(b, [P("self"), P("key"), P("record")], seeds=seeds)
            rep.evaluations += len(paths)
            key = "%s,ts+ttl%snow" % (ttl_case, sign)
            rets = set(tform(p.ret) for p in paths)
            expect_alive = ttl_case == "ttl=0" or sign == ">"
            if any(p.cut for p in paths) or not paths:
                rep.bad(key, "cannot evaluate the expiry predicate for this case (loop/unknown shape)", b.loc())
                continue
            if not rets <= {0, 1}:
                rep.bad(key, "cannot evaluate: the result depends on something other than ttl and order(timestamp+ttl, now): %s" % short(rets), b.loc())
                continue
            if len(rets) != 1:
                rep.bad(key, "cannot evaluate: result not determined by (ttl, order(timestamp+ttl, now)): returns %s" % sorted(rets), b.loc())
                continue
            got_expired = rets == {1}
            removal_ok = True
            if not expect_alive:
                for p in paths:
                    rem = [e for e in map_events(p) if e.name in ("remove", "remove_if", "occupied_remove") and e.extra.get("key") == P("key")]
                    if not rem:
                        removal_ok = False
            else:
                for p in paths:
                    if map_removals(p):
                        removal_ok = False
            rep.sample({"case": key, "returns_expired": got_expired, "map_events": [e.name for e in map_events(paths[0])]})
            if got_expired == (not expect_alive) and removal_ok:
                rep.ok(key, "%s -> %s" % (key, "expired+removed" if got_expired else "alive"), b.loc())
            elif got_expired != (not expect_alive):
                rep.bad(key, "expiry predicate wrong: case %s evaluates to %s, the property requires %s" % (key, "expired" if got_expired else "alive", "alive" if expect_alive else "expired"), b.loc())
            else:
                rep.bad(key, "case %s: %s" % (key, "expired item is not removed on every path" if not expect_alive else "alive item is removed"), b.loc())
    return rep


def r2(ctx):
    rep = Report("C05.R2", "every map write of MemoryStore::set stamps header.timestamp with the store timer's current time", floor=3)
    f = ctx.facts
    b = f.one(ms("set"))
    rep.analysed(b)
    paths = storefacts.set_paths(ctx)
    n = 0
    seen = {}
    for p in paths:
        for w in map_writes(p):
            n += 1
            tsv = storefacts.field_of(w["value"], "header", "timestamp")
            case = storefacts.set_case(p)
            key = "set[%s]:%s" % (case, w["name"])
            ok = tsv == ("now",)
            if key in seen and seen[key] == ok:
                continue
            seen[key] = ok
            rep.check(ok, key, "written record's timestamp <- Timer::timestamp()", "record written to the map with timestamp %s (not the timer's current time): its expiry is computed from a wrong store time" % short(tsv), loc_s(w["event"].span))
    rep.evaluations += len(paths)
    return rep


def r3(ctx):
    rep = Report("C05.R3", "presence tests go through lazy expiry: get_by_key only via Cache::get; Cache::get maps expired to NotFound; command layer reads via Cache::get", floor=9)
    f = ctx.facts
    # (a) who calls get_by_key
    callers = []
    for b in f.bodies.values():
        for bb, t in b.all_calls():
            if t.callee.name == "get_by_key" and (t.callee.trait == IMPLD or (t.callee.path or "").endswith("::get_by_key")):
                callers.append((b, t))
    rep.call_sites += len(callers)
    allowed = {CACHE + "::get", rp("get_by_key", IMPLD), ms("get")}
    for b, t in callers:
        rep.check(b.path in allowed, "get_by_key-caller:" + b.path, "raw lookup used only inside Cache::get / the policy pass-through", "get_by_key (no expiry check) is called from %s: an expired item can be observed as present" % b.path, loc_s(t.span))
    # (b) the default Cache::get
    g, _gmap = impl_or_default(f, MS, "get")  # MemoryStore's own get when it overrides the default
    rep.analysed(g)
    # the two steps stay opaque (they are decided by R1/R2 and C01.R4), whether the calls on Self are resolved (override) or not
    steps = (ms("get_by_key", IMPLD), ms("check_if_expired", IMPLD))
    I = Interp(f, policy=lambda body, a: "opaque" if body.path in steps else "inline")
    paths = I.run(g, [P("self"), P("key")])
    rep.evaluations += len(paths)
    for p in paths:
        calls = [e for e in p.events if e.kind == "call" and e.name.split("::")[-1] in ("get_by_key", "check_if_expired")]
        names = [e.name.split("::")[-1] for e in calls]
        if not names or names[0] != "get_by_key":
            rep.bad("Cache::get:first-call", "Cache::get does not start with get_by_key", g.loc())
            continue
        lookup = calls[0].result
        d = d2(p, lookup)
        var, pl = variant_of(p.ret)
        if d is None or isinstance(d, tuple):
            # the lookup's result is handed back without being examined: a found record reaches the caller unchecked
            rep.bad("Cache::get:hit-without-expiry-check", "a found record is returned without check_if_expired (the lookup result is passed through: %s)" % short(p.ret, 60), g.loc())
            continue
        if d == 1:  # lookup Err
            rep.check(var == "Err", "Cache::get:miss", "miss -> Err", "lookup miss does not return Err", g.loc())
        elif d == 0:
            if len(calls) < 2 or names[1] != "check_if_expired":
                rep.bad("Cache::get:hit-without-expiry-check", "a found record is returned without check_if_expired", g.loc())
                continue
            chk = calls[1]
            truth = None
            for c, tr, _, _at in p.state.pc:
                if isinstance(c, tuple) and chk.result in atoms(c):
                    truth = tr
            # switch on the bool result: recorded as Eq fact
            iv = p.state.iv
            expired = None
            key, _f = canon({chk.result: 1})
            if key in iv:
                if iv[key].decide("Eq", 0) is True:
                    expired = False
                elif iv[key].decide("Ne", 0) is True:
                    expired = True
            if expired is True:
                rep.check(err_name(p.ret) == "NotFound", "Cache::get:expired", "expired -> Err(NotFound)", "an expired record is not reported as NotFound (returns %s)" % short(p.ret), g.loc())
            elif expired is False:
                okv = var == "Ok" and lookup in atoms(pl)
                rep.check(okv, "Cache::get:alive", "alive -> Ok(the looked-up record)", "alive record not returned as found (returns %s)" % short(p.ret), g.loc())
            else:
                rep.bad("Cache::get:shape", "cannot relate the result of check_if_expired to the outcome", g.loc())
            # arguments of check_if_expired: same key, the looked-up record
            a = chk.args
            rep.check(len(a) >= 3 and tform(a[1]) == P("key") and lookup in atoms(a[2]), "Cache::get:expiry-args", "check_if_expired(key, looked-up record)", "check_if_expired is called on something else than the looked-up record/key", g.loc())
    # (c) command layer: first store access of each presence-dependent command is Cache::get on the same key
    for m, argnames in (("add", ["self", "key", "record"]), ("replace", ["self", "key", "record"]), ("append", ["self", "key", "new_record"]), ("prepend", ["self", "key", "new_record"]), ("increment", ["self", "header", "key", "delta"]), ("decrement", ["self", "header", "key", "delta"]), ("get", ["self", "key"])):
        b = f.one(MEMC + "::" + m)
        rep.analysed(b)
        I = Interp(f)
        paths = I.run(b, [P(n) for n in argnames])
        rep.evaluations += len(paths)
        ok = True
        why = ""
        for p in paths:
            dyn = [e for e in p.events if e.kind == "call" and e.name.startswith(CACHE + "::")]
            if not dyn:
                ok = False
                why = "a path makes no store access"
                break
            if dyn[0].name != CACHE + "::get":
                ok = False
                why = "first store access is %s, not Cache::get" % dyn[0].name
                break
            if P("key") not in atoms(dyn[0].args[1]):
                ok = False
                why = "Cache::get is not called with the command's key"
                break
        rep.check(ok, "MemcStore::%s:first-access" % m, "first store access is Cache::get(key)", "MemcStore::%s: %s — expired items are not treated as absent" % (m, why), b.loc())
    # (d) the policy layer's get performs the lazy expiry of the inner store: it forwards to the inner Cache::get, or (trait
    # default) looks the key up and returns the record only after the inner check_if_expired said "not expired"
    b, dyn = impl_or_default(f, RP, "get")
    rep.analysed(b)
    I = Interp(f, self_impl=dyn)
    paths = I.run(b, [P("self"), P("key")])
    ok = bool(paths)
    for p in paths:
        inner = [e for e in p.events if e.kind == "call" and (e.name.startswith(CACHE + "::") or e.name.startswith(IMPLD + "::")) and ("deref", F(P("self"), "store")) in [tform(e.args[0])] + list(atoms(e.args[0]))]
        names = [e.name.split("::")[-1] for e in inner]
        if names == ["get"]:
            if tform(inner[0].args[1]) != P("key") or tform(p.ret) != inner[0].result:
                ok = False
            continue
        var, pl = variant_of(p.ret)
        if var != "Err":  # Ok(record), or a result passed through unexamined: may carry a record
            chk = [e for e in inner if e.name.endswith("::check_if_expired")]
            looked = [e for e in inner if e.name.endswith("::get_by_key") and tform(e.args[1]) == P("key")]
            judged = bool(chk) and bool(looked) and tform(chk[-1].args[1]) == P("key") and looked[0].result in atoms(chk[-1].args[2]) and looked[0].result in atoms(p.ret)
            not_expired = judged and bool_fact(p, chk[-1].result) is False
            if not not_expired:
                ok = False
        elif any(n not in ("get_by_key", "check_if_expired", "get") for n in names):
            ok = False
    rep.check(ok, "RandomPolicy::get", "policy get = inner Cache::get(key) / lookup + inner expiry check", "RandomPolicy::get returns a record without the inner store's expiry check (it neither forwards to the inner Cache::get nor asks check_if_expired about the record it returns): expired items stay visible", b.loc())
    return rep


TTL_FIELDS = ("time_to_live", "timestamp")


def r4(ctx):
    rep = Report("C05.R4", "nobody lengthens a life: time_to_live/timestamp of stored records are written only by set (whole record) and flush; the delayed flush makes the new TTL depend on the old TTL", floor=3)
    f = ctx.facts
    # (i) census of field writes
    allowed_writers = {
        ms("set"): "stamps the record being stored (C05.R2)",
        ms("flush") + "::{closure#0}": "delayed flush rewrite (checked below)",
    }
    import callgraph

    cg = callgraph.get(ctx)
    rev = {}
    for src, tgts in cg.edges.items():
        for t in tgts:
            rev.setdefault(t, set()).add(src)

    def only_from_set_or_flush(path, seen=None):
        """a private helper is as good as its callers: every call chain into it starts in MemoryStore::set / flush"""
        seen = seen or set()
        if path in seen:
            return True
        seen.add(path)
        body = f.bodies.get(path)
        if body is not None and (path in allowed_writers or (body.root or path) in (ms("set"), ms("flush"))):
            return True
        callers = rev.get(path, ())
        if not callers or (body is not None and (body.j.get("vis") or "") == "Public"):
            return False
        return all(only_from_set_or_flush(c, seen) for c in callers)

    n = 0
    for b in f.bodies.values():
        if b.crate != "memcrs.lib":
            continue
        for bi, blk in enumerate(b.blocks):
            if blk.cleanup:
                continue
            for s in blk.stmts:
                if s.k != "assign" or not s.place.proj:
                    continue
                fl = s.place.fields()
                if fl and fl[-1] in TTL_FIELDS and ("header" in fl or "CacheMetaData" in b.local_ty(s.place.local)):
                    n += 1
                    root = b.root or b.path
                    key = "field-write:%s:%s" % (b.path, fl[-1])
                    rep.check(only_from_set_or_flush(b.path), key, "write of %s in %s (%s)" % (fl[-1], b.path, allowed_writers.get(b.path, "store layer")), "%s of a record is written in %s — outside MemoryStore::set / flush nothing may change an item's expiry" % (fl[-1], b.path), loc_s(s.span))
    # aggregates of CacheMetaData outside its constructor
    for b in f.bodies.values():
        if b.crate != "memcrs.lib" or "fmt::Debug" in b.path or "Clone" in b.path:
            continue
        for blk in b.blocks:
            for s in blk.stmts:
                if s.k == "assign" and s.rv.k == "agg" and s.rv.j.get("adt") == "memcrs::cache::cache::CacheMetaData":
                    rep.check(b.path == "memcrs::cache::cache::CacheMetaData::new", "metadata-aggregate:" + b.path, "CacheMetaData built only by its constructor", "CacheMetaData is built outside its constructor in %s" % b.path, loc_s(s.span))
    # (ii) delayed flush
    fb = f.one(ms("flush"))
    rep.analysed(fb)
    I = store_interp(f)
    hdr_ttl = F(P("header"), "time_to_live")

    def seeds(st):
        assume(st, {hdr_ttl: 1}, lo=1, hi=2**32 - 1)

    paths = I.run(fb, [P("self"), P("header")], seeds=seeds)
    rep.evaluations += len(paths)
    rewrites = 0
    for p in paths:
        for e in map_events(p):
            if e.name != "alter_all":
                continue
            rewrites += 1
            old = e.extra["old"]
            newv = e.extra["value"]
            new_ttl = storefacts.field_of(newv, "header", "time_to_live")
            old_ttl = F(old, "header", "time_to_live")
            data_dep = old_ttl in atoms(new_ttl)
            ctrl_dep = any(old_ttl in atoms(c) for c, _t, _s, _at in p.state.pc)
            rep.sample({"flush path": rewrites, "new_ttl": short(new_ttl), "depends_on_old_ttl": data_dep or ctrl_dep})
            if not (data_dep or ctrl_dep):
                rep.bad("flush:new-ttl-independent-of-old", "delayed flush sets every item's time_to_live to %s, independent of the item's own TTL: an item whose TTL was shorter than the flush delay lives longer than its TTL (set ttl=5; flush delay=100; get at t=50 hits)" % short(new_ttl), loc_s(e.span))
            else:
                rep.ok("flush:new-ttl-depends-on-old:%d" % rewrites, "new TTL depends on the old TTL (%s)" % ("data" if data_dep else "guard"), loc_s(e.span))
    if rewrites == 0:
        rep.bad("flush:no-rewrite", "delayed flush (ttl>0) reaches no alter_all: cannot locate the TTL rewrite", fb.loc())
    # (iii) the arithmetic: on every path of the rewrite, new expiry <= the item's own expiry (affine entailment from the path's guards)
    fd = storefacts.flush_deadlines(ctx)
    if fd is None:
        rep.bad("flush:deadline:cannot-evaluate", "cannot evaluate the delayed-flush rewrite", fb.loc())
    else:
        for i, r in enumerate(fd):
            case = "ttl=0" if r["old_zero"] else ("ttl!=0" if r["old_nonzero"] else "?")
            arm = "keep" if tform(r["new_ttl"]) == F(r["event"].extra["old"], "header", "time_to_live") else "rewrite"
            k = "flush:never-prolongs[%s,%s]" % (case, arm)
            rep.check(r["p2"] is True, k, "timestamp' + ttl' <= timestamp + old ttl follows from the path's guards", "delayed flush, item %s, %s arm: the new TTL %s is not bounded by the item's own expiry — the guards on this path do not imply timestamp + new_ttl <= timestamp + old_ttl (e.g. an aged item: set ttl=10 at t=100; flush delay=5 at t=108 -> alive until 113)" % (case, arm, short(r["new_ttl"], 100)), loc_s(r["event"].span))
    return rep


RULES = [("C05.R1", r1), ("C05.R2", r2), ("C05.R3", r3), ("C05.R4", r4)]
