"""C19 — quiet variants differ from loud ones only in what is sent back."""
from collections import OrderedDict

from rules.common import *  # noqa: F401,F403
from rules import dispatch, c12
from rules.storefacts import field_of
from rules.c06 import store_method_for_opcode

LEVEL_TEXT = (
    "Static sibling cross-check; the loud/quiet pairing is read off the repository's own Command enum (X / XQuiet): "
    'R1 decoder: both opcodes of a pair select the same parser and build their request from the same bytes of the '
    'frame (identical payload terms up to the opcode constant), and the variant built for XQuiet is the quiet sibling '
    'of the one built for X; R2 handler: the quiet request runs the same command method with the same arguments as '
    'the loud one and differs only in whether the response is sent (the semantic reply table of C12.R2); the store '
    'method selected inside add_replace / append_prepend is the same for both opcodes; R3 every (u8) -> bool opcode '
    'predicate of the handler module (method, associated or free function) and every (&self) -> bool validator of the '
    'codec give the same answer for X and XQuiet; R4 the error response does not depend on the opcode. Not decided: '
    'equality of store contents after whole programs (follows from R1-R3 given a deterministic handler).'
)
ASSUMPTIONS = ["pairing X <-> XQuiet of memcrs::protocol::binary::Command", "bytes semantic table"]


def pairs(ctx):
    cmd = dispatch.command_values(ctx)
    out = []
    for name, op in cmd.items():
        if name.endswith("Quiet") and name[: -len("Quiet")] in cmd:
            out.append((name[: -len("Quiet")], cmd[name[: -len("Quiet")]], name, op))
    return sorted(out, key=lambda x: x[1])


def erase_opcode(t, ops):
    """replace opcode constants inside a payload term by a placeholder"""
    if isinstance(t, tuple):
        if len(t) == 2 and t[0] == "opcode" and t[1] in ops:
            return ("opcode", "*")
        return tuple(erase_opcode(x, ops) for x in t)
    return t


def payload_shape(path_result, ops):
    req = field_of(path_result.ret, "0", "0", "0")
    if isinstance(req, Struct):
        items = []
        for k, v in req.fields.items():
            tv = tform(v)
            if k == "header":
                tv = erase_opcode(tv, ops)
            items.append((k, tv))
        return tuple(items)
    return erase_opcode(tform(req), ops)


def r1(ctx):
    rep = Report("C19.R1", "decoder: X and XQuiet use the same parser, slice the same bytes, and XQuiet builds the quiet sibling variant", floor=12)
    table = dispatch.decoder_table(ctx)
    b = ctx.facts.one(CODEC + "::parse_request")
    quiet_variant = {l: q for l, (q, _f) in dispatch.QUIET_OF.items()}
    for loud, lop, quiet, qop in pairs(ctx):
        tl, tq = table[lop], table[qop]
        lv = sorted(o[5:] for o in tl["outcomes"] if o.startswith("Some:"))
        qv = sorted(o[5:] for o in tq["outcomes"] if o.startswith("Some:"))
        k = "pair:%s/%s" % (loud, quiet)
        if not lv or not qv:
            rep.check(lv == qv and tl["outcomes"] == tq["outcomes"], k, "both opcodes are treated alike (%s)" % sorted(tl["outcomes"]), "%s and %s are decoded differently: %s vs %s" % (loud, quiet, sorted(tl["outcomes"]), sorted(tq["outcomes"])), b.loc())
            continue
        same_parser = tl["parsers"] == tq["parsers"]
        sib_ok = len(lv) == 1 and len(qv) == 1 and (quiet_variant.get(lv[0]) == qv[0] or lv == qv == ["NotSupported"])
        shape_l = set(payload_shape(p, (lop, qop)) for ps in tl["paths"].values() for p in ps)
        shape_q = set(payload_shape(p, (lop, qop)) for ps in tq["paths"].values() for p in ps)
        rep.check(same_parser and sib_ok and shape_l == shape_q, k, "%s/%s: same parser %s, same bytes, variants %s/%s" % (loud, quiet, sorted(tl["parsers"]), lv, qv), "%s (%#04x) and %s (%#04x) are not decoded alike: parsers %s vs %s, variants %s vs %s, same payload: %s" % (loud, lop, quiet, qop, sorted(tl["parsers"]), sorted(tq["parsers"]), lv, qv, shape_l == shape_q), b.loc())
    return rep


def r2(ctx):
    rep = Report("C19.R2", "handler: quiet arm = loud arm's computation behind the quiet filter; same store method for both opcodes", floor=12)
    sub = c12.r2(ctx)
    for i in sub.instances:
        if i.key.startswith("pair:") or i.key.startswith("quiet:"):
            rep.instances.append(i)
    f = ctx.facts
    for hmeth, argn, ops in (("add_replace", "request", [(0x02, 0x12), (0x03, 0x13)]), ("append_prepend", "append_req", [(0x0E, 0x19), (0x0F, 0x1A)])):
        for lop, qop in ops:
            sl, _p = store_method_for_opcode(ctx, hmeth, argn, lop)
            sq, _p = store_method_for_opcode(ctx, hmeth, argn, qop)
            rep.check(sl == sq and len(sl) == 1, "store-method:%#04x/%#04x" % (lop, qop), "both reach MemcStore::%s" % sorted(sl), "opcodes %#04x and %#04x reach different store methods (%s vs %s): the quiet variant has a different effect" % (lop, qop, sorted(sl), sorted(sq)), safe_loc(f, HANDLER + "::" + hmeth))
    return rep


def r3(ctx):
    rep = Report("C19.R3", "opcode predicates are closed under the loud/quiet pairing", floor=1)
    f = ctx.facts
    # every (u8) -> bool helper of the handler module — method, associated function or free function — whatever its name
    hmod = HANDLER.rsplit("::", 1)[0] + "::"
    preds = []
    for b in f.bodies.values():
        if b.path.startswith(hmod) and b.kind in ("assoc_fn", "fn") and b.arg_count in (1, 2) and b.local_ty(0) == "bool" and b.local_ty(b.arg_count) == "u8":
            preds.append(b)
    rep.ok("predicates-found", "%d (u8)->bool opcode predicates in the handler module" % len(preds), None)
    ps = pairs(ctx)
    for b in preds:
        rep.analysed(b)
        t = {}
        for op in set(x for _l, lop, _q, qop in ps for x in (lop, qop)):
            t[op] = set(tform(p.ret) for p in Interp(f).run(b, [P("self"), op] if b.arg_count == 2 else [op]))
        bad = [(l, q) for l, lop, q, qop in ps if t[lop] != t[qop] or len(t[lop]) != 1]
        rep.check(not bad, "predicate:%s" % b.name, "same answer for X and XQuiet on all %d pairs" % len(ps), "%s distinguishes a command from its quiet variant: %s" % (b.name, bad), b.loc())
    # header validation: every (&self) -> bool helper of the codec answers alike for X and XQuiet
    from rules import roles

    R = roles.get(ctx)
    for hv in sorted((b for b in f.bodies.values() if b.impl_self == CODEC and b.impl_trait is None and b.kind == "assoc_fn" and b.arg_count == 1 and b.local_ty(0) == "bool"), key=lambda x: x.path):
        res = {}
        for l, lop, q, qop in ps:
            for op in (lop, qop):
                slf = dispatch.codec_self(op, header_fields={"magic": 0x80, "data_type": 0})
                res[op] = set(tform(p.ret) for p in Interp(f).run(hv, [slf]))
        bad = [(l, q) for l, lop, q, qop in ps if res[lop] != res[qop]]
        rep.check(not bad, "header_valid", "the codec's header check treats X and XQuiet alike", "%s distinguishes %s" % (hv.name, bad), hv.loc())
    return rep


def r4(ctx):
    rep = Report("C19.R4", "error responses do not depend on the opcode (identical for loud and quiet apart from the echoed opcode)", floor=12)
    f = ctx.facts
    eb = f.one("memcrs::protocol::binary_codec::storage_error_to_response")
    adt = f.adts[CERR]
    opc = F(P("response_header"), "opcode")
    for vi, v in enumerate(adt["variants"]):
        err = Struct(CERR, v["name"], vi, OrderedDict())
        for p in Interp(f).run(eb, [err, P("response_header")]):
            r = field_of(p.ret, "0")
            dep = any(opc in atoms(field_of(r, *path)) for path in (("header", "status"), ("header", "body_length"), ("error",)))
            branch = any(opc in atoms(c) for c, _t, _s, _at in p.state.pc)
            rep.check(not dep and not branch, "error:%s" % v["name"], "status/length/text independent of the opcode", "the error response for %s depends on the request's opcode" % v["name"], eb.loc())
    return rep


RULES = [("C19.R1", r1), ("C19.R2", r2), ("C19.R3", r3), ("C19.R4", r4)]
