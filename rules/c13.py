"""C13 — item size limit: oversized requests are refused and skipped cleanly."""
from collections import OrderedDict

from rules.common import *  # noqa: F401,F403
from rules import dispatch, c09
from rules.storefacts import field_of
from bufmodel import BUF_MODELS, buf_state, buf_len
from absint import Event, Ok, Some, lin_add

LEVEL_TEXT = (
    'Static clause check: R1 the size tests (header reserve guard, decode, and the dispatcher where it exists) are '
    "the same predicate 'too large <=> body_length > item_size_limit', evaluated over order(body_length, limit) in "
    '{<,=,>} (equal and smaller are never rejected); R2 an oversized request of any opcode decodes to ItemTooLarge, '
    "whose handler arm answers 'value too large' (status 3) and reaches no store method; R3 conservation of bytes in "
    'the oversized-item arm of read_frame: (bytes dropped from the connection buffer) + (count handed to the discard '
    'loop) is the affine expression body_length on every path, the buffered part of the body (min(body_length, buffered)) is dropped from the buffer before anything is read off the socket, and the subtraction producing the skip count cannot '
    'underflow; the discard loop ends with Ok only when its counter equals the requested count or on EOF, and every '
    'read in it is capped by the bytes still to skip; R4 the configured limit reaches the codec, composed end to end '
    'through the public constructors: CLI item_size_limit -> MemcacheServerConfig -> MemcacheTcpServer::new -> run -> '
    "Client::new -> the connection's codec. Not decided: what the peer sends while the body is being discarded."
)
ASSUMPTIONS = [
    "bytes semantic table (advance/clear/split_off/len), std::cmp::min(a,b) <= a and <= b",
    "tokio read_buf appends at most buffer.capacity() - buffer.len() bytes",
]

DECODE = c09.DECODE
HF = F(P("self"), "header")
LIMIT = F(P("self"), "item_size_limit")


def order_seed(sign, body):
    def seeds(st):
        L = {body: 1, LIMIT: -1}
        if sign == "<":
            assume(st, L, hi=-1)
        elif sign == "=":
            assume(st, L, eq=0)
        else:
            assume(st, L, lo=1)
        assume(st, {("len0", P("src")): 1}, lo=24)

    return seeds


def r1(ctx):
    rep = Report("C13.R1", "one predicate at three sites: too large <=> body_length > item_size_limit (truth table over <,=,>)", floor=9)
    f = ctx.facts
    rep.exhaustive = True
    # decode (header already parsed) and parse_request
    for name, body_path, selfv in [("decode", DECODE, "HeaderParsed")] + ([("parse_request", CODEC + "::parse_request", "HeaderParsed")] if (CODEC + "::parse_request") in f.bodies else []):
        b = f.one(body_path)
        rep.analysed(b)
        for sign in ("<", "=", ">"):
            I = Interp(f, models=BUF_MODELS)
            paths = I.run(b, [dispatch.codec_self(None, state=selfv), P("src")], seeds=order_seed(sign, F(HF, "body_length")))
            rep.evaluations += len(paths)
            outs = set(dispatch.outcome_of(p.ret) for p in paths)
            too_large = outs == {"Some:ItemTooLarge"}
            never = "Some:ItemTooLarge" not in outs
            k = "%s[body%slimit]" % (name, sign)
            if sign == ">":
                rep.check(too_large, k, "larger than the limit -> ItemTooLarge (whatever the opcode)", "%s with body_length > limit yields %s (must be ItemTooLarge for every opcode)" % (name, sorted(outs)), b.loc())
            else:
                rep.check(never, k, "within the limit: never rejected for size", "%s rejects a body of %s the limit as too large" % (name, "exactly" if sign == "=" else "less than"), b.loc())
    # parse_header: reserve only within the limit
    b = f.one(CODEC + "::parse_header")
    rep.analysed(b)
    body = ("bufread", P("src"), 8, 4)
    for sign in ("<", "=", ">"):
        I = Interp(f, models=BUF_MODELS)
        paths = I.run(b, [P("self"), P("src")], seeds=order_seed(sign, body))
        rep.evaluations += len(paths)
        ok_paths = [p for p in paths if variant_of(p.ret)[0] == "Ok"]
        reserves = [[e for e in p.events if e.kind == "buf" and e.name == "reserve"] for p in ok_paths]
        k = "parse_header[body%slimit]" % sign
        if not ok_paths:
            rep.bad(k, "cannot evaluate parse_header", b.loc())
        elif sign == ">":
            rep.check(all(not r for r in reserves), k, "no reservation for an oversized body", "parse_header reserves buffer space for a body larger than the item size limit: a header can make the server allocate what it announces", b.loc())
        else:
            okr = all(len(r) == 1 and body in atoms(r[0].args[1]) for r in reserves)
            rep.check(okr, k, "reserves body_length bytes", "parse_header does not reserve body_length bytes for a body within the limit", b.loc())
    return rep


def r2(ctx):
    rep = Report("C13.R2", "oversized request -> 'value too large' (0x03), no store access, for every opcode", floor=3)
    f = ctx.facts
    rows = dispatch.handler_table(ctx).get("ItemTooLarge")
    hb = f.one(HANDLER + "::handle_request")
    if not rows:
        rep.bad("handler:ItemTooLarge:missing", "no handler arm for ItemTooLarge", hb.loc())
    for r in rows or []:
        ret = r["ret"]
        var, pl = variant_of(ret)
        status = field_of(pl, "0", "header", "status")
        okr = var == "Some" and isinstance(pl, Struct) and pl.variant == "Error" and status == 3
        rep.check(okr, "handler:ItemTooLarge:answer", "answers Error status 3 (value too large)", "an oversized request is answered with %s (status %s), the protocol says 'too large' (0x03)" % (short(pl, 80), short(status, 20)), hb.loc())
        store_calls = [c for c in r["calls"] if True] + [o for o in r["other"] if o.name.startswith(MEMC + "::")]
        rep.check(not store_calls, "handler:ItemTooLarge:no-store", "reaches no handler/store method", "the oversized-item arm calls %s: it must not store or change anything" % [c.name.split("::")[-1] for c in store_calls], hb.loc())
    # every opcode: with body > limit, decode (fresh state, header valid) -> ItemTooLarge regardless of the opcode byte
    b = f.one(DECODE)
    body = ("bufread", P("src"), 8, 4)
    I = Interp(f, models=BUF_MODELS)
    paths = I.run(b, [dispatch.codec_self(None, state="None"), P("src")], seeds=order_seed(">", body))
    outs = set(dispatch.outcome_of(p.ret) for p in paths)
    rep.check(outs <= {"Some:ItemTooLarge", "Err"} and "Some:ItemTooLarge" in outs, "decode[fresh,body>limit]", "a fresh oversized request is ItemTooLarge or an invalid header", "a fresh request with body_length > limit decodes to %s" % sorted(outs), b.loc())
    # the opcode is not consulted before the size test
    op_dep = False
    for p in paths:
        if dispatch.outcome_of(p.ret) != "Some:ItemTooLarge":
            continue
        for c, _t, s, _at in p.state.pc:
            if ("bufread", P("src"), 1, 1) in atoms(c) and s and not s[0].endswith("::header_valid"):
                op_dep = True
    rep.check(not op_dep, "decode:size-test-before-opcode", "ItemTooLarge does not depend on the opcode (beyond header validity)", "whether an oversized request is refused depends on its opcode", b.loc())
    return rep


READ_FRAME = c09.READ_FRAME
SKIP = CONN + "::skip_bytes"


def r3(ctx):
    rep = Report("C13.R3", "oversized-item arm of read_frame conserves bytes: dropped-from-buffer + skip count = body_length on every path, no underflow; skip loop exits with Ok only at the requested count or EOF", floor=4)
    f = ctx.facts
    b = f.one(READ_FRAME)
    rep.analysed(b)
    BUFT = F(P("self"), "buffer")
    BODY = F(P("request"), "header", "body_length")
    cor = ClosureV(READ_FRAME, [P("self")], "coroutine")
    models = dict(BUF_MODELS)
    models["tokio_util::codec::Decoder::decode"] = c09.m_decode_opaque("toolarge")
    # three orderings of body_length vs buffered bytes
    for case in ("body>buffered", "body=buffered", "body<buffered"):
        def seeds(st, case=case):
            L = {BODY: 1, ("len0", BUFT): -1}
            if case == "body>buffered":
                assume(st, L, lo=1)
            elif case == "body=buffered":
                assume(st, L, eq=0)
            else:
                assume(st, L, hi=-1)
            assume(st, {BODY: 1}, lo=1, hi=2**32 - 1)
            assume(st, {("len0", BUFT): 1}, lo=0, hi=2**31)

        I = Interp(f, models=models, policy=c09.conn_opaque, loop_bound=1)
        paths = I.run(b, [cor, P("cx")], seeds=seeds)
        rep.evaluations += len(paths)
        found = False
        for p in paths:
            skips = [e for e in p.events if e.kind == "call" and e.name == SKIP]
            if not skips:
                if any(e.kind == "panic" for e in p.events):
                    found = True
                    rep.bad("skip[%s]:panics" % case, "the oversized-item arm panics when %s (arithmetic on the announced length and the buffered length)" % case.replace("body", "the body is ").replace(">", "longer than the ").replace("<", "shorter than the ").replace("=", "exactly the "), b.loc())
                continue
            found = True
            skip_arg = skips[0].args[1]
            # bytes dropped from the connection buffer before the skip
            dropped = 0
            unknown = None
            evs = p.events
            for i, e in enumerate(evs):
                if e is skips[0]:
                    break
                if e.kind != "buf" or e.extra.get("buf") != BUFT:
                    continue
                op = e.extra.get("op")
                if op == "skip":
                    dropped = lin_add(dropped, e.extra["width"], 1)
                elif op == "clear":
                    dropped = lin_add(dropped, e.extra["dropped"], 1)
                elif op == "split_off":
                    # self.buffer = self.buffer.split_off(at): keeps the tail => drops `at` bytes (if the tail is stored back)
                    stored_back = any(w.kind == "write" and w.args[1] == ("buffer",) and isinstance(w.args[2], tuple) and w.args[2][:1] == ("buftail",) for w in evs[i:])
                    if stored_back:
                        dropped = lin_add(dropped, e.extra["at"], 1)
                    else:
                        unknown = "split_off whose tail is not stored back"
                elif op in ("read",):
                    dropped = lin_add(dropped, e.extra["width"], 1)
            total = lin_add(dropped, skip_arg, 1) if dropped is not None else None
            k = "conservation[%s]" % case
            # overflow terms from a checked subtraction that cannot be discharged
            ovf = [a for a in atoms(skip_arg) if isinstance(a, tuple) and a[0] in ("binop",) and a[1] == "Sub"]
            if unknown or total is None:
                rep.bad(k, "cannot evaluate the buffer surgery of the oversized-item arm (%s)" % (unknown or "non-affine"), b.loc())
                continue
            # cast noise: ('trunc','u32',x) of a value known < 2^32 is x
            tot = simplify_trunc(total)
            ok = tform(tot) == BODY
            rep.sample({"case": case, "dropped": short(dropped, 80), "skip": short(skip_arg, 80)})
            # ... and the buffered part of the body goes first: what the buffer holds of the body (min(body, buffered)) is
            # dropped from the buffer, only the rest is read off the socket — bytes of the body left in the buffer would be
            # parsed as the next request while the discard loop eats the real one
            exp = ("len0", BUFT) if case == "body>buffered" else BODY
            first = I.decide_cmp(p.state, "Eq", simplify_trunc(dropped), exp) is True
            rep.check(first, "buffer-first[%s]" % case, "min(body_length, buffered) bytes are dropped from the buffer before anything is skipped from the socket", "oversized item, %s: %s bytes are dropped from the buffer where %s bytes of the body are buffered — the rest of the buffered body is parsed as the next request and the discard loop swallows the real one" % (case, short(dropped, 60), short(exp, 40)), b.loc())
            rep.check(ok, k, "dropped + skipped = body_length", "oversized item, %s: %s bytes are dropped from the buffer and %s more are skipped from the socket — together %s, not the announced body_length: the following pipelined request is misparsed" % (case, short(dropped, 80), short(skip_arg, 80), short(tot, 100)), b.loc())
        pan = [q for q in I.panic_paths if any(e.kind == "panic" for e in q.events)]
        if pan:
            found = True
            pe = [e for e in pan[0].events if e.kind == "panic"][-1]
            rep.bad("skip[%s]:panics" % case, "the oversized-item arm panics (%s) when %s: unchecked arithmetic on the announced body length and the buffered length" % (pe.name, case), loc_s(pe.span))
        if not found:
            rep.bad("skip[%s]:no-path" % case, "cannot find the oversized-item path of read_frame for %s" % case, b.loc())
    # underflow: the subtraction that produces the skip count must be dominated by a guard (discharged on every path)
    n_unsafe = 0
    for bi, blk in enumerate(b.blocks):
        t = blk.term
        if t.k == "assert" and t.msg.get("kind") == "Overflow" and t.msg.get("op") == "Sub" and not blk.cleanup:
            n_unsafe += 1
    # evaluated: a panic event in any of the three cases above is already reported; here the static count is informational
    # skip loop
    sb = f.one(SKIP + "::{closure#0}")
    rep.analysed(sb)
    scor = ClosureV(sb.path, [P("self"), P("bytes")], "coroutine")
    I = Interp(f, models=BUF_MODELS, loop_bound=2)
    paths = I.run(sb, [scor, P("cx")])
    rep.evaluations += len(paths)
    ok_exits = set()
    for p in paths:
        if p.cut:
            continue
        var, _pl = variant_of(p.ret)
        if var != "Ok":
            continue
        why = "?"
        # what the loop has read on this path: the sum of the read_buf results
        total = 0
        last_read = None
        for e in p.events:
            if e.kind == "await":
                t_ = tform(e.args[0])
                if isinstance(t_, tuple) and t_[0] == "call" and t_[1].endswith("read_buf"):
                    last_read = ("field", ("as", e.result, "Ok"), "0")
                    total = lin_add(total, last_read, 1)
        for c, truth, s, _at in reversed(p.state.pc):
            a = atoms(c)
            if isinstance(c, tuple) and c[0] == "cmp" and c[1] in ("Eq", "Ne"):
                if P("bytes") in a and (c[3] == 0 or c[2] == 0) and len(a) <= 4 and ((c[1] == "Eq") == truth):
                    why = "bytes==0"
                    break
                if P("bytes") in a and any(isinstance(x, tuple) and x[0] == "await" for x in a) and ((c[1] == "Eq") == truth):
                    why = "counter==bytes"
                    # the counter compared with the requested count is exactly the number of bytes read so far
                    side = c[2] if P("bytes") in atoms(c[3]) else c[3]
                    exact = total is not None and lin_add(simplify_trunc(side), total, -1) == 0
                    rep.check(exact, "skip_bytes:counter-is-bytes-read", "the loop ends when (bytes read so far) == requested", "skip_bytes ends when %s equals the requested count, but it has read %s: body bytes are left in the stream (or bytes of the next request are taken) and the connection is misframed" % (short(side, 60), short(total, 60)), sb.loc())
                    break
                if any(isinstance(x, tuple) and x[0] == "await" for x in a) and P("bytes") not in a and ((c[1] == "Eq") == truth):
                    why = "eof"
                    other = c[3] if any(isinstance(x, tuple) and x[0] == "await" for x in atoms(c[2])) or (isinstance(c[2], tuple) and c[2] and c[2][0] == "await") else c[2]
                    rep.check(other == 0, "skip_bytes:eof-test", "end of stream = a read of 0 bytes", "skip_bytes treats a read of %s bytes as the end of the stream: a short read ends the discard loop in the middle of the body" % short(other, 20), sb.loc())
                    break
                if ("cmp", "Eq") == c[:2] and truth and any(isinstance(x, tuple) and x[0] == "newbuf" for x in a):
                    why = "eof"
                    break
        ok_exits.add(why)
    # capacity discipline: a read may never take more than the bytes still to be skipped, i.e. the scratch buffer's
    # free capacity at every read_buf is <= bytes - (bytes read so far).  This is the premise of the two trusted
    # panic sites of skip_bytes (C10.R1) and what keeps the next pipelined request out of the discard loop.
    disc = skip_capacity_discipline(I, list(paths) + list(I.panic_paths))
    for k, (ok, why, sp) in sorted(disc.items()):
        rep.check(ok, "skip_bytes:read-capped:%s" % k, "free capacity <= bytes still to skip", "skip_bytes can read past the oversized body: at the %s read the scratch buffer has room for %s — bytes of the next pipelined request are swallowed (and the counter arithmetic then panics)" % (k, why), sp)
    if not disc:
        rep.bad("skip_bytes:read-capped:none", "cannot find the socket reads of skip_bytes", sb.loc())
    # the loop must leave on end of stream: some path ends (Ok or Err) under `read result == 0`; otherwise a peer that closes
    # in the middle of the body makes the task spin on read_buf == 0 forever
    eof_exit = False
    for p in list(paths) + list(I.panic_paths):
        if p.cut:
            continue
        for c, truth, _s, _at in p.state.pc:
            if isinstance(c, tuple) and c and c[0] == "cmp" and c[1] in ("Eq", "Ne") and 0 in (c[2], c[3]) and ((c[1] == "Eq") == truth):
                other = c[3] if c[2] == 0 else c[2]
                if any(isinstance(x, tuple) and x and x[0] == "await" for x in [other] + list(atoms(other))) and P("bytes") not in atoms(other):
                    eof_exit = True
    rep.check(eof_exit, "skip_bytes:eof-exit", "the discard loop ends when read_buf returns 0", "the discard loop has no exit for end of stream (read_buf == 0): a peer that closes inside an oversized body leaves the task spinning", sb.loc())
    # the explicit panic ("read too much") is reachable only under counter > requested
    for p in I.panic_paths:
        pe = [e for e in p.events if e.kind == "panic"]
        if not pe or not any("panic" in (e.name or "") or e.name in ("begin_panic", "panic_fmt", "panic") for e in pe):
            continue
        guarded = False
        for c, truth, _s, _at in p.state.pc:
            if isinstance(c, tuple) and c and c[0] == "cmp" and P("bytes") in atoms(c) and any(isinstance(x, tuple) and x and x[0] == "await" for x in atoms(c)):
                op = c[1]
                l_is_counter = P("bytes") not in atoms(c[2])
                gt = (op == "Gt" and l_is_counter and truth) or (op == "Lt" and not l_is_counter and truth) or (op == "Le" and l_is_counter and not truth) or (op == "Ge" and not l_is_counter and not truth)
                if gt:
                    guarded = True
        rep.check(guarded, "skip_bytes:panic-guarded", "the 'read too much' panic sits under counter > requested", "the explicit panic of the discard loop is reachable without 'bytes read > requested' having been established: an ordinary partial read of an oversized body kills the connection task", loc_s(pe[-1].span))
    rep.sample({"skip_bytes Ok exits": sorted(ok_exits)})
    rep.check(ok_exits <= {"bytes==0", "counter==bytes", "eof"} and "counter==bytes" in ok_exits, "skip_bytes:ok-exits", "Ok only when nothing to skip, counter == requested, or EOF", "skip_bytes returns Ok on an exit that is neither 'requested count reached' nor EOF: %s" % sorted(ok_exits), sb.loc())
    return rep


def skip_capacity_discipline(I, paths):
    """{ordinal: (holds, description, loc)} over all evaluated paths of skip_bytes"""
    out = {}
    for p in paths:
        total = 0
        k = 0
        prior = []  # (bytes read, free capacity) of the earlier reads: read_buf never returns more than the free capacity
        last_free = None
        for e in p.events:
            if e.kind == "buf" and e.name == "read_buf":
                k += 1
                free = e.extra.get("free")
                last_free = free
                remaining = lin_add(P("bytes"), total, -1)
                name = {1: "first", 2: "second"}.get(k, "%dth" % k)
                if free is None or remaining is None:
                    ok, why = False, "an unknown capacity"
                else:
                    d = I.decide_cmp(p.state, "Le", free, remaining, "usize")
                    ok = d is True
                    why = "%s bytes while only %s remain" % (short(free, 80), short(remaining, 80))
                    s2 = p.state.fork()
                    for r_, f_ in prior:
                        ft = tform(f_) if f_ is not None else None
                        comps = [ft[1], ft[2]] if isinstance(ft, tuple) and ft and ft[0] == "min" else ([ft] if ft is not None else [])
                        for c_ in comps:
                            I.assume_cmp(s2, "Le", r_, c_, True, "usize")
                    if ok and I.decide_cmp(s2, "Ge", free, 1, "usize") is not True:
                        # a full (or zero-capacity) BytesMut grows by itself: read_buf then takes up to 64 bytes whatever
                        # the cap was meant to be — e.g. skip_bytes(0) without the early return reads the next request
                        ok = False
                        why = "a buffer that may have no free capacity (%s): BytesMut then grows by 64 bytes on its own and the read is not capped" % short(free, 60)
                prev = out.get(name)
                out[name] = (ok and (prev is None or prev[0]), why if not ok or prev is None else prev[1], loc_s(e.span))
            elif e.kind == "await":
                t = tform(e.args[0])
                if isinstance(t, tuple) and t[0] == "call" and t[1].endswith("read_buf"):
                    r_ = ("field", ("as", e.result, "Ok"), "0")
                    total = lin_add(total, r_, 1)
                    prior.append((r_, last_free))
    return out


def simplify_trunc(v, min_bits=32, small=None):
    """drop ('trunc', ty, x) wrappers that are known to be lossless: the target type has at least `min_bits` bits (the
    quantities compared are byte counts bounded by u32 header fields / the u32 item limit), or `small(x)` says the operand
    is known to be small (e.g. a validated key length). A narrower truncation stays in the term — and then differs from
    what the rule expects: truncating a length is how a length field goes wrong for large values."""
    from absint import INT_BITS

    if isinstance(v, tuple) and v:
        if v[0] == "trunc":
            inner = simplify_trunc(v[2], min_bits, small)
            if INT_BITS.get(v[1], 0) >= min_bits or (small is not None and small(inner)) or isinstance(inner, int):
                return inner
            return ("trunc", v[1], inner)
        if v[0] == "lin":
            acc = v[2]
            for a, k in v[1]:
                s = simplify_trunc(a, min_bits, small)
                acc = lin_add(acc, lin_scale_(s, k), 1)
            return acc
        if v[0] == "min":
            return ("min", simplify_trunc(v[1], min_bits, small), simplify_trunc(v[2], min_bits, small))
    return v


def lin_scale_(v, k):
    from absint import lin_scale

    r = lin_scale(v, k)
    return r if r is not None else v


def is_cli_item_limit(v):
    """the CLI's item size limit in bytes, unchanged: Byte::as_u64(config.item_size_limit), at most cast to a type of 32 bits
    or more (the pinned code's `as u32`; the CLI caps the option at 1024m) — a narrower cast or arithmetic on it is not"""
    t = simplify_trunc(tform(v), 32)
    while isinstance(t, tuple) and t and t[0] in ("ref", "deref"):
        t = t[1]
    return isinstance(t, tuple) and len(t) >= 4 and t[0] == "call" and t[1].split("::")[-1] in ("as_u64", "as_u128", "get_bytes") and len(t[3]) == 1 and t[3][0] in (F(P("config"), "item_size_limit"), ("deref", F(P("config"), "item_size_limit")), ("ref", F(P("config"), "item_size_limit")))


def r4(ctx):
    rep = Report("C13.R4", "limit plumbing: CLI item_size_limit -> server config -> (each Client's connection) -> the codec's item size limit — composed through the public constructors and entry points", floor=4)
    f = ctx.facts
    from rules import conntask

    pl = conntask.plumbing(ctx)
    nb = f.one(SERVER + "::new")
    rep.analysed(nb)
    C = pl["client"]
    rep.check(C is not None, "plumbing:evaluated", "MemcacheTcpServer::new -> run -> Client::new evaluated", "cannot follow the configuration from MemcacheTcpServer::new to the Client built in the accept loop", nb.loc())
    for C in pl["clients"]:
        lim = field_of(C, "stream", "codec", "item_size_limit")
        want = F(P("config"), "item_memory_limit")
        rep.check(tform(lim) == want, "connection::new", "the codec of every accepted connection gets the server config's item limit (3rd argument of MemcacheServerConfig::new)", "the codec of an accepted connection is built with limit %s, not the server configuration's item limit: the configured --max-item-size is not the one enforced" % short(lim, 80), safe_loc(f, CLIENT + "::new"))
    # the public constructors on the way store what they are given (each is part of the library's API)
    b = f.one(CODEC + "::new")
    for p in Interp(f).run(b, [P("item_size_limit")]):
        rep.check(field_of(p.ret, "item_size_limit") == P("item_size_limit"), "codec::new", "codec limit <- argument", "MemcacheBinaryCodec::new does not store its argument as the item size limit (%s)" % short(field_of(p.ret, "item_size_limit"), 60), b.loc())
    b = f.one(CONN + "::new")
    for p in Interp(f, models=BUF_MODELS).run(b, [P("socket"), P("item_size_limit")]):
        rep.check(field_of(p.ret, "codec", "item_size_limit") == P("item_size_limit"), "connection::new:arg", "connection passes its limit to the codec", "MemcacheBinaryConnection::new builds the codec with limit %s" % short(field_of(p.ret, "codec", "item_size_limit"), 60), b.loc())
    # runtime builders: the server config's item limit <- the CLI item size limit
    from rules import builderfacts

    for fn in builderfacts.BUILDERS:
        bf = builderfacts.builder_facts(ctx, fn)
        ok = bool(bf["news"]) and all(is_cli_item_limit(field_of(cfg, "item_memory_limit")) for cfg, _st, _e in bf["news"])
        rep.check(ok, "runtime_builder::%s" % fn, "server config item limit <- args.item_size_limit", "%s does not pass the CLI item size limit as the server's item limit" % fn, bf["body"].loc())
    return rep


def chase_mentions(body, operand, field_suffix, depth=0, seen=None):
    """does the operand (through temporaries, calls and casts inside this body) derive from a place whose field path ends with field_suffix?"""
    seen = seen if seen is not None else set()
    if operand.kind == "const" or operand.place is None or depth > 12:
        return False
    pl = operand.place
    if pl.fields()[-len(field_suffix):] == tuple(field_suffix):
        return True
    l = pl.local
    if l in seen:
        return False
    seen.add(l)
    for blk in body.blocks:
        for s in blk.stmts:
            if s.k == "assign" and s.place.local == l:
                if s.rv.place is not None and s.rv.place.fields()[-len(field_suffix):] == tuple(field_suffix):
                    return True
                for o in s.rv.ops:
                    if chase_mentions(body, o, field_suffix, depth + 1, seen):
                        return True
                if s.rv.place is not None:
                    class _O:
                        pass

                    o = _O()
                    o.kind = "copy"
                    o.place = s.rv.place
                    o.const = None
                    if s.rv.place.local != l and chase_mentions(body, o, field_suffix, depth + 1, seen):
                        return True
        t = blk.term
        if t.k == "call" and t.dest is not None and t.dest.local == l:
            for o in t.args:
                if chase_mentions(body, o, field_suffix, depth + 1, seen):
                    return True
    return False


RULES = [("C13.R1", r1), ("C13.R2", r2), ("C13.R3", r3), ("C13.R4", r4)]
