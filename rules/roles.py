"""Structural resolution of the *private* names the rules need: a private field is identified by its type inside its
(public) struct, a private method by what it does — so renaming or moving private items does not change a verdict.
Public API names (pub fns, pub structs, traits, enum variants, pub(crate) record/header fields used by the repository's
own tests) are used literally. Every role fails closed (AnchorMissing) when it cannot be resolved uniquely."""
from rules.common import *  # noqa: F401,F403
import callgraph

SEM_TY = "tokio::sync::Semaphore"
ATOMIC_U64 = ("std::sync::atomic::Atomic<u64>", "std::sync::atomic::AtomicU64", "core::sync::atomic::AtomicU64")


def _fields(f, adt):
    a = f.adts.get(adt)
    if a is None:
        raise AnchorMissing(adt)
    return [fl for v in a["variants"] for fl in v["fields"]]


DEFAULT_NAMES = {
    "the connection semaphore": "limit_connections", "the server config": "config", "the shared MemcStore": "storage",
    "the connection": "stream", "the client config": "config", "the command handler": "handler", "the inner store": "store",
    "the memory limit": "memory_limit", "the usage counter": "memory_usage", "the map": "memory", "the timer": "timer",
    "the cas counter": "cas_id", "the socket": "stream", "the read buffer": "buffer", "the codec": "codec",
    "the request header": "header", "the item size limit": "item_size_limit", "the parser state": "state",
    "the store": "store", "the MemcStore": "storage", "the seconds counter": "seconds",
}


def field_by_type(f, adt, pred, what):
    hits = [fl["name"] for fl in _fields(f, adt) if pred(fl["ty"])]
    if len(hits) != 1 and DEFAULT_NAMES.get(what) in hits:
        # several fields of that type (e.g. a statistics counter next to the cas counter): the one that still carries the
        # pinned tree's name is meant
        return DEFAULT_NAMES[what]
    if len(hits) != 1:
        raise AnchorMissing("%s: the field of %s holding %s (found %s)" % (what, adt.split("::")[-1], what, hits))
    return hits[0]


class Roles:
    def __init__(self, ctx):
        self.ctx = ctx
        self.f = ctx.facts
        self._c = {}

    def _get(self, key, fn):
        if key not in self._c:
            self._c[key] = fn()
        return self._c[key]

    # ---------------------------------------------------------------- fields
    @property
    def server_sem(self):
        return self._get("server_sem", lambda: field_by_type(self.f, SERVER, lambda t: SEM_TY in t, "the connection semaphore"))

    @property
    def server_config(self):
        return self._get("server_config", lambda: field_by_type(self.f, SERVER, lambda t: t.endswith("MemcacheServerConfig"), "the server config"))

    @property
    def server_storage(self):
        return self._get("server_storage", lambda: field_by_type(self.f, SERVER, lambda t: t == "std::sync::Arc<%s>" % MEMC, "the shared MemcStore"))

    @property
    def client_conn(self):
        return self._get("client_conn", lambda: field_by_type(self.f, CLIENT, lambda t: t == CONN, "the connection"))

    @property
    def client_config(self):
        return self._get("client_config", lambda: field_by_type(self.f, CLIENT, lambda t: t.endswith("::ClientConfig"), "the client config"))

    @property
    def client_handler(self):
        return self._get("client_handler", lambda: field_by_type(self.f, CLIENT, lambda t: t == HANDLER, "the command handler"))

    @property
    def rp_store(self):
        return self._get("rp_store", lambda: field_by_type(self.f, RP, lambda t: "dyn " + CACHE in t, "the inner store"))

    @property
    def rp_limit(self):
        return self._get("rp_limit", lambda: field_by_type(self.f, RP, lambda t: t == "u64", "the memory limit"))

    @property
    def rp_usage(self):
        return self._get("rp_usage", lambda: field_by_type(self.f, RP, lambda t: t in ATOMIC_U64, "the usage counter"))

    @property
    def ms_map(self):
        return self._get("ms_map", lambda: field_by_type(self.f, MS, lambda t: t.startswith("dashmap::DashMap<"), "the map"))

    @property
    def ms_timer(self):
        return self._get("ms_timer", lambda: field_by_type(self.f, MS, lambda t: "dyn memcrs::server::timer::Timer" in t, "the timer"))

    @property
    def ms_cas(self):
        return self._get("ms_cas", lambda: field_by_type(self.f, MS, lambda t: t in ATOMIC_U64, "the cas counter"))

    @property
    def conn_stream(self):
        return self._get("conn_stream", lambda: field_by_type(self.f, CONN, lambda t: t == "tokio::net::TcpStream", "the socket"))

    @property
    def conn_buffer(self):
        return self._get("conn_buffer", lambda: field_by_type(self.f, CONN, lambda t: t == "bytes::BytesMut", "the read buffer"))

    @property
    def conn_codec(self):
        return self._get("conn_codec", lambda: field_by_type(self.f, CONN, lambda t: t == CODEC, "the codec"))

    @property
    def codec_header(self):
        return self._get("codec_header", lambda: field_by_type(self.f, CODEC, lambda t: t.endswith("::RequestHeader"), "the request header"))

    @property
    def codec_limit(self):
        return self._get("codec_limit", lambda: field_by_type(self.f, CODEC, lambda t: t == "u32", "the item size limit"))

    @property
    def codec_state(self):
        return self._get("codec_state", lambda: field_by_type(self.f, CODEC, lambda t: t in self.f.adts and self.f.adts[t].get("kind") == "Enum" and t.startswith("memcrs::"), "the parser state"))

    @property
    def codec_state_ty(self):
        def go():
            n = self.codec_state
            return [fl["ty"] for fl in _fields(self.f, CODEC) if fl["name"] == n][0]

        return self._get("codec_state_ty", go)

    @property
    def memc_store(self):
        return self._get("memc_store", lambda: field_by_type(self.f, MEMC, lambda t: "dyn " + CACHE in t, "the store"))

    @property
    def handler_storage(self):
        return self._get("handler_storage", lambda: field_by_type(self.f, HANDLER, lambda t: t == "std::sync::Arc<%s>" % MEMC, "the MemcStore"))

    @property
    def timer_seconds(self):
        return self._get("timer_seconds", lambda: field_by_type(self.f, "memcrs::server::timer::SystemTimer", lambda t: t in ATOMIC_U64, "the seconds counter"))

    # ---------------------------------------------------------------- codec states (values, not names)
    def fresh_codec_state(self):
        """(variant name, index) of the parser state a new codec starts in: read off the public constructor"""

        def go():
            b = self.f.one(CODEC + "::new")
            for p in Interp(self.f).run(b, [P("item_size_limit")]):
                st = p.ret.get(self.codec_state) if isinstance(p.ret, Struct) else None
                if isinstance(st, Struct) and st.variant is not None:
                    return (st.variant, st.vi)
            raise AnchorMissing("the parser state set by MemcacheBinaryCodec::new")

        return self._get("fresh_state", go)

    def header_parsed_state(self):
        """(variant name, index) of the state after a header was read and accepted: the other state the decoder assigns"""

        def go():
            ad = self.f.adts[self.codec_state_ty]
            fresh = self.fresh_codec_state()[0]
            names = [v["name"] for v in ad["variants"]]
            # the state written by the function that consumes the 24 header bytes
            cands = set()
            for b in self.f.bodies.values():
                if b.impl_self != CODEC and not b.path.startswith(CODEC + "::"):
                    continue
                for blk in b.blocks:
                    for s in blk.stmts:
                        if s.k == "assign" and s.rv.k == "agg" and s.rv.j.get("adt") == self.codec_state_ty:
                            v = s.rv.j.get("variant")
                            nm = names[v] if isinstance(v, int) and v < len(names) else v
                            if nm != fresh:
                                cands.add(nm)
            if len(cands) != 1:
                raise AnchorMissing("the 'header parsed' parser state (states assigned besides %s: %s)" % (fresh, sorted(cands)))
            nm = cands.pop()
            return (nm, names.index(nm))

        return self._get("header_parsed_state", go)

    # ---------------------------------------------------------------- methods by what they do
    def inherent_methods(self, adt):
        return [b for b in self.f.bodies.values() if b.kind == "assoc_fn" and b.impl_self == adt and b.impl_trait is None] + [b for b in self.f.bodies.values() if b.kind == "assoc_fn" and b.impl_self is None and b.path.startswith(adt + "::") and b.path.count("::") == adt.count("::") + 1]

    def policy_sweep(self):
        """the RandomPolicy function holding the eviction loop: reachable from the policy's set, contains a loop from which
        the inner remove_if is reached"""

        def go():
            cg = callgraph.get(self.ctx)
            root = "<%s as %s>::set" % (RP, CACHE)
            out = []
            for bp in sorted(cg.reachable([root])):
                b = self.f.bodies.get(bp)
                if b is None or not (bp.startswith(RP + "::") or bp.startswith("<" + RP)) or b.kind != "assoc_fn":
                    continue
                if not b.has_cycle():
                    continue
                reach = cg.reachable([bp])
                if any(t.callee.name == "remove_if" and (t.callee.trait == CACHE or (t.callee.path or "").startswith(CACHE)) for r in reach for _bb, t in cg.sites.get(r, ())):
                    out.append(b)
            if len(out) != 1:
                raise AnchorMissing("the eviction loop of RandomPolicy (functions with a loop reaching remove_if: %s)" % [b.path for b in out])
            return out[0]

        return self._get("policy_sweep", go)


def get(ctx):
    if "roles" not in ctx._cache:
        ctx._cache["roles"] = Roles(ctx)
    return ctx._cache["roles"]
