"""Dispatch tables extracted from the code (E5): opcode -> request variant (decoder),
request variant -> handler method and response filter (handler), opcode predicates."""
from collections import OrderedDict

from rules.common import *  # noqa: F401,F403
from bufmodel import BUF_MODELS

RPS = "memcrs::protocol::binary_codec::RequestParserState"


def codec_self(opcode=None, state="HeaderParsed", header_fields=None):
    hf = OrderedDict()
    if opcode is not None:
        hf["opcode"] = opcode
    for k, v in (header_fields or {}).items():
        hf[k] = v
    hdr = Struct(None, None, 0, hf, F(P("self"), "header"))
    fields = OrderedDict()
    fields["header"] = hdr
    if state is not None:
        fields["state"] = Struct(RPS, state, 0 if state == "None" else 1, OrderedDict())
    return Struct(None, None, 0, fields, P("self"))


def outcome_of(ret):
    """classify a Result<Option<BinaryRequest>, io::Error> value"""
    var, pl = variant_of(ret)
    if var == "Err":
        return "Err"
    if var == "Ok":
        v2, pl2 = variant_of(pl)
        if v2 == "None":
            return "None"
        if v2 == "Some":
            if isinstance(pl2, Struct) and pl2.adt == BREQ:
                return "Some:" + pl2.variant
            return "Some:?"
    return "?"


def decoder_table(ctx):
    """op -> {'outcomes': set, 'payload': {variant: payload value}, 'parsers': set of parser fn names}"""
    if "decoder_table" in ctx._cache:
        return ctx._cache["decoder_table"]
    f = ctx.facts
    # the public Decoder::decode on a codec whose header has been read (the state the decoder itself assigns)
    b = f.one("<" + CODEC + " as tokio_util::codec::Decoder>::decode")
    table = {}
    HF = F(P("self"), "header")
    for op in range(256):
        I = Interp(f, models=BUF_MODELS)

        def seeds(st):
            # body within the limit and completely buffered (the decode() caller guarantees both)
            assume(st, {F(HF, "body_length"): 1, F(P("self"), "item_size_limit"): -1}, hi=0)
            assume(st, {("len0", P("src")): 1, F(HF, "body_length"): -1}, lo=0)

        paths = I.run(b, [codec_self(op), P("src")], seeds=seeds)
        outs = set()
        payload = {}
        parsers = set()
        for p in paths:
            o = outcome_of(p.ret) if not p.cut else "cut"
            outs.add(o)
            if o.startswith("Some:"):
                payload.setdefault(o[5:], []).append(p)
            for e in p.events:
                for c in e.ctx:
                    if c.startswith(CODEC + "::parse_") and c != CODEC + "::parse_request":
                        parsers.add(c.split("::")[-1])
        table[op] = {"outcomes": outs, "paths": payload, "parsers": parsers, "npaths": len(paths)}
    ctx._cache["decoder_table"] = table
    return table


def command_methods(ctx):
    """the BinaryHandler methods that talk to the storage themselves (a direct call of a MemcStore method, possibly from a
    closure of theirs): these execute one command; whatever sits between handle_request and them is dispatch"""
    if "command_methods" not in ctx._cache:
        import callgraph

        cg = callgraph.get(ctx)
        f = ctx.facts
        out = set()
        for bp, sites in cg.sites.items():
            body = f.bodies.get(bp)
            if body is None:
                continue
            owner = body.root or bp
            if not owner.startswith(HANDLER + "::") or owner == HANDLER + "::handle_request":
                continue
            if any(strip_generics(t.callee.path or "").startswith(MEMC + "::") for _bb, t in sites):
                out.add(owner)
        ctx._cache["command_methods"] = out
    return ctx._cache["command_methods"]


def handler_policy(ctx):
    cm = command_methods(ctx)

    def pol(body, args):
        if body.path in cm or body.path.startswith(MEMC + "::"):
            return "opaque"
        return "inline"

    return pol


def handler_table(ctx):
    """variant -> list of path summaries: {'calls' (command methods), 'other', 'ret'}; dispatch helpers between
    handle_request and the command methods are inlined"""
    if "handler_table" in ctx._cache:
        return ctx._cache["handler_table"]
    f = ctx.facts
    b = f.one(HANDLER + "::handle_request")
    adt = f.adts[BREQ]
    table = OrderedDict()
    for v in adt["variants"]:
        vi = adt["variants"].index(v)
        req = Struct(BREQ, v["name"], vi, OrderedDict([("0", P("payload"))]))
        I = Interp(f, policy=handler_policy(ctx))
        paths = I.run(b, [P("self"), req])
        rows = []
        for p in paths:
            calls = [e for e in p.events if e.kind == "call" and e.name.startswith(HANDLER + "::")]
            other = [e for e in p.events if e.kind == "call" and not e.name.startswith(HANDLER + "::")]
            rows.append({"calls": calls, "other": other, "ret": p.ret, "path": p})
        table[v["name"]] = rows
    ctx._cache["handler_table"] = table
    return table


def handler_entry(ctx, variant, payload=None, argn="request"):
    """(body, args) of the BinaryHandler command method that handle_request calls for a request of `variant`, with the
    arguments it is called with there: the payload replaced by `payload` (default: a parameter named argn), the response
    header by the parameter `response_header`, anything else (a direction enum, a response constructor handed in as a
    fn pointer, ...) as evaluated at the call.  Several commands sharing one private method are thereby analysed each with
    its own arguments, whatever that method is called."""
    rows = handler_table(ctx).get(variant) or []
    evs = [r["calls"] for r in rows if not r["path"].cut]
    names = set(c.name for cs in evs for c in cs)
    if len(names) != 1 or any(len(cs) != 1 for cs in evs):
        raise AnchorMissing("the BinaryHandler method handling %s (handle_request calls %s for it)" % (variant, sorted(n.split("::")[-1] for n in names) or "nothing"))
    ev = evs[0][0]
    body = ctx.facts.bodies.get(ev.name)
    if body is None:
        raise AnchorMissing("the body of %s" % ev.name)
    pv = payload if payload is not None else P(argn)
    args = []
    for a in ev.args:
        t = tform(a)
        if t == P("payload"):
            args.append(pv)
        elif t == P("self"):
            args.append(P("self"))
        elif isinstance(a, Struct) and (a.adt or "").endswith("::ResponseHeader"):
            args.append(P("response_header"))
        else:
            args.append(a)
    return body, args


def store_methods_of_variant(ctx, variant):
    """names of the MemcStore methods a request of this variant reaches through handle_request (handler methods inlined,
    the payload left symbolic): what the dispatch does with the variant, whatever the private methods in between are called"""
    key = "store_methods_of_variant:" + variant
    if key not in ctx._cache:
        f = ctx.facts
        b = f.one(HANDLER + "::handle_request")
        adt = f.adts[BREQ]
        vi = [v["name"] for v in adt["variants"]].index(variant)
        req = Struct(BREQ, variant, vi, OrderedDict([("0", P("payload"))]))
        I = Interp(f, policy=lambda body, args: "opaque" if body.path.startswith(MEMC + "::") else "inline")
        out = set()
        for p in I.run(b, [P("self"), req]):
            for e in p.events:
                if e.kind == "call" and e.name.startswith(MEMC + "::"):
                    out.add(e.name.split("::")[-1])
        ctx._cache[key] = out
    return ctx._cache[key]


def variant_store_paths(ctx, variant, argn):
    """paths of handle_request for a request of this variant whose payload is the parameter `argn`: handler methods inlined,
    MemcStore opaque — what the server does with such a request, whichever private methods it goes through"""
    f = ctx.facts
    b = f.one(HANDLER + "::handle_request")
    adt = f.adts[BREQ]
    vi = [v["name"] for v in adt["variants"]].index(variant)
    req = Struct(BREQ, variant, vi, OrderedDict([("0", P(argn))]))
    I = Interp(f, policy=lambda body, args: "opaque" if body.path.startswith(MEMC + "::") else "inline")
    return b, I.run(b, [P("self"), req])


def store_entry(ctx, variant, names):
    """(body, args, constants) of the MemcStore method a request of `variant` is executed by: the one call handle_request
    makes into MemcStore for it, with the leading arguments replaced by parameters called `names` and any further argument
    kept as evaluated there — it has to be a constant (a direction enum, a flag).  The command layer's entry point for the
    variant, whether the handler uses the public method or a crate-visible helper behind it."""
    key = "store_entry:%s" % variant
    if key not in ctx._cache:
        f = ctx.facts
        _b, paths = variant_store_paths(ctx, variant, "request")
        evs = [e for p in paths if not p.cut for e in p.events if e.kind == "call" and e.name.startswith(MEMC + "::")]
        per_path = [sum(1 for e in p.events if e.kind == "call" and e.name.startswith(MEMC + "::")) for p in paths if not p.cut]
        if not evs or len(set(e.name for e in evs)) != 1 or any(n != 1 for n in per_path):
            raise AnchorMissing("the one MemcStore call executing a %s request (calls: %s)" % (variant, sorted(set(e.name.split("::")[-1] for e in evs))))
        body = f.bodies.get(evs[0].name)
        if body is None:
            raise AnchorMissing("the body of %s" % evs[0].name)
        consts = None
        for e in evs:
            extra = []
            for a in e.args[len(names):]:
                t = tform(a)
                if any(isinstance(x, tuple) and x and x[0] in ("param", "field", "call", "cbarg") for x in atoms(t)):
                    raise AnchorMissing("a constant extra argument of %s for %s (found %s)" % (e.name.split("::")[-1], variant, short(a, 60)))
                extra.append(a)
            if consts is not None and [repr(tform(x)) for x in consts] != [repr(tform(x)) for x in extra]:
                raise AnchorMissing("one set of constant arguments of %s for %s" % (e.name.split("::")[-1], variant))
            consts = extra
        ctx._cache[key] = (body, [P(n) for n in names] + consts, consts)
    return ctx._cache[key]


METHOD_VARIANT = {"set": "Set", "get": "Get", "delete": "Delete", "flush": "Flush", "increment": "Increment", "decrement": "Decrement", "add_replace": "Add", "append_prepend": "Append"}


def handler_body_args(ctx, meth, argn, op=None, payload=None):
    """handler_entry for the command the pinned tree handles in BinaryHandler::<meth> (and, when given, for opcode op)"""
    variant = PROTOCOL[op] if op is not None else METHOD_VARIANT[meth]
    return handler_entry(ctx, variant, payload, argn)


def response_cases(ctx):
    """concrete responses a command can produce, as far as the quiet rules care: errors by status, and success"""
    f = ctx.facts
    vidx = {v["name"]: i for i, v in enumerate(f.adts[BRESP]["variants"])}

    def err(status):
        hdr = Struct(None, None, 0, OrderedDict([("status", status)]), F(P("r"), "header"))
        return Struct(BRESP, "Error", vidx["Error"], OrderedDict([("0", Struct(None, None, 0, OrderedDict([("header", hdr)]), P("r")))]))

    return OrderedDict(
        [
            ("Error(NotFound)", err(1)),
            ("Error(KeyExists)", err(2)),
            ("Error(0x81)", err(0x81)),
            ("success", Struct(BRESP, "Set", vidx["Set"], OrderedDict([("0", P("r"))]))),
        ]
    )


def reply_table(ctx):
    """variant -> case -> {'outs': set of 'Some(same)'|'Some(other)'|'None'|'Some(<Variant>)', 'calls': [...]}:
    handle_request evaluated with every command method answering a given concrete response — which requests are
    answered and with what, independent of how the dispatch and the quiet filtering are organised into functions"""
    if "reply_table" in ctx._cache:
        return ctx._cache["reply_table"]
    f = ctx.facts
    b = f.one(HANDLER + "::handle_request")
    adt = f.adts[BREQ]
    cm = command_methods(ctx)
    table = OrderedDict()
    for vi, v in enumerate(adt["variants"]):
        req = Struct(BREQ, v["name"], vi, OrderedDict([("0", P("payload"))]))
        row = OrderedDict()
        for cname, val in response_cases(ctx).items():

            def mk(name, val=val):
                def m(I, st, t, args, site, depth):
                    snap = [I.snapshot(st, a) for a in args]
                    res = ("call", name, site, tuple(tform(a) for a in snap))
                    st.events.append(Event("call", name, snap, site, t.span, tuple(I.ctx), res, t.callee, extra={"raw_args": args}))
                    return [(st, val)]

                return m

            models = dict(BUF_MODELS)
            for name in cm:
                models[name] = mk(name)
            I = Interp(f, models=models, policy=lambda body, a: "opaque" if body.path.startswith(MEMC + "::") else "inline")
            outs = set()
            calls = []
            for p in I.run(b, [P("self"), req]):
                cc = [e for e in p.events if e.kind == "call" and e.name in cm]
                var, pl = variant_of(p.ret)
                if var == "None":
                    o = "None"
                elif var == "Some":
                    if cc:
                        o = "Some(same)" if (pl is val or tform(pl) == tform(val)) else "Some(other)"
                    else:
                        o = "Some(%s)" % (pl.variant if isinstance(pl, Struct) else "?")
                else:
                    o = "?"
                outs.add(o)
                calls.append(cc)
            row[cname] = {"outs": outs, "calls": calls}
        table[v["name"]] = row
    ctx._cache["reply_table"] = table
    return table


def predicate_table(ctx, name):
    """truth table over all 256 opcodes of a BinaryHandler opcode predicate"""
    key = "pred:" + name
    if key in ctx._cache:
        return ctx._cache[key]
    f = ctx.facts
    b = f.one(HANDLER + "::" + name)
    t = {}
    for op in range(256):
        # method (&self, opcode) or associated function (opcode)
        r = Interp(f).run(b, [P("self"), op] if b.arg_count == 2 else [op])
        vals = set(tform(p.ret) for p in r)
        t[op] = vals
    ctx._cache[key] = t
    return t


def command_values(ctx):
    return ctx.facts.enum_discr(CMD)


# the protocol's table (the oracle): opcode -> request variant
PROTOCOL = {
    0x00: "Get",
    0x01: "Set",
    0x02: "Add",
    0x03: "Replace",
    0x04: "Delete",
    0x05: "Increment",
    0x06: "Decrement",
    0x07: "Quit",
    0x08: "Flush",
    0x09: "GetQuietly",
    0x0A: "Noop",
    0x0B: "Version",
    0x0C: "GetKey",
    0x0D: "GetKeyQuietly",
    0x0E: "Append",
    0x0F: "Prepend",
    0x10: "Stats",
    0x11: "SetQuietly",
    0x12: "AddQuietly",
    0x13: "ReplaceQuietly",
    0x14: "DeleteQuiet",
    0x15: "IncrementQuiet",
    0x16: "DecrementQuiet",
    0x17: "QuitQuietly",
    0x18: "FlushQuietly",
    0x19: "AppendQuietly",
    0x1A: "PrependQuietly",
}
# recognised by the Command enum but not implemented by the server
UNIMPLEMENTED = [0x1C, 0x1D, 0x1E, 0x20, 0x21, 0x22, 0x23, 0x24]

# loud variant -> quiet variant (BinaryRequest), and the response filter of the quiet one
QUIET_OF = {
    "Get": ("GetQuietly", "into_quiet_get"),
    "GetKey": ("GetKeyQuietly", "into_quiet_get"),
    "Set": ("SetQuietly", "into_quiet_mutation"),
    "Add": ("AddQuietly", "into_quiet_mutation"),
    "Replace": ("ReplaceQuietly", "into_quiet_mutation"),
    "Delete": ("DeleteQuiet", "into_quiet_mutation"),
    "Increment": ("IncrementQuiet", "into_quiet_mutation"),
    "Decrement": ("DecrementQuiet", "into_quiet_mutation"),
    "Flush": ("FlushQuietly", "into_quiet_mutation"),
    "Append": ("AppendQuietly", "into_quiet_mutation"),
    "Prepend": ("PrependQuietly", "into_quiet_mutation"),
    "Quit": ("QuitQuietly", "into_quiet_mutation"),
}

# request variant -> BinaryHandler method
HANDLER_METHOD = {
    "Get": "get",
    "GetKey": "get",
    "GetQuietly": "get",
    "GetKeyQuietly": "get",
    "Set": "set",
    "SetQuietly": "set",
    "Add": "add_replace",
    "AddQuietly": "add_replace",
    "Replace": "add_replace",
    "ReplaceQuietly": "add_replace",
    "Delete": "delete",
    "DeleteQuiet": "delete",
    "Increment": "increment",
    "IncrementQuiet": "increment",
    "Decrement": "decrement",
    "DecrementQuiet": "decrement",
    "Flush": "flush",
    "FlushQuietly": "flush",
    "Append": "append_prepend",
    "AppendQuietly": "append_prepend",
    "Prepend": "append_prepend",
    "PrependQuietly": "append_prepend",
}
