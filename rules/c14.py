"""C14 — random eviction keeps stored bytes within the memory limit (structural clauses only)."""
from collections import OrderedDict

from rules.common import *  # noqa: F401,F403
from rules.storefacts import field_of
from rules.c13 import chase_mentions
from rules import roles

LEVEL_TEXT = (
    'Structural necessary conditions only — the numeric bound itself is NOT decided: R1 every store through the '
    'policy is accounted before it is written (on every path of RandomPolicy::set the usage is raised by exactly '
    'Record::len() of the record — the same affine measure the removing paths subtract — and the sweep has run before '
    'the inner set, so it cannot pick the new record); R2 sweep shape (the function holding the eviction loop is '
    'identified structurally): the loop is entered on usage > limit, exits when the store is empty (and the inner store\'s len()/is_empty() it asks is the record map\'s), draws its victim '
    'index only after the empty-store exit (gen_range(0..max) with max != 0), removes through the inner store and '
    'subtracts the size of every record the removal handed back; R3 never under-counting: the only content-adding '
    'inner call of the policy is set, always preceded by the addition; every subtraction is the size of a record '
    'returned by a removing call (or the empty-store reset); the counter is never overwritten; R4 wiring: policy '
    'Random wraps the very MemoryStore with the configured limit, policy None uses the MemoryStore directly, and the '
    'CLI memory limit / policy reach the store config (composed through the public constructors). Not decided: the '
    'bound L + one record, termination under concurrent writers.'
)
ASSUMPTIONS = [
    "Record::len() = size_of(header) + value length is the accounting unit",
    "rand gen_range(0..n) panics for n = 0 (hence the dominance requirement)",
]


def policy_paths(ctx, meth, args, opaque_helpers=True, loop_bound=1):
    key = "policy_paths:%s:%s" % (meth, opaque_helpers)
    if key not in ctx._cache:
        f = ctx.facts
        b = f.one(meth)

        def pol(body, a):
            if opaque_helpers and body.path == roles.get(ctx).policy_sweep().path and body.path != b.path:
                return "opaque"
            return "inline"

        I = Interp(f, policy=pol, loop_bound=loop_bound)
        ctx._cache[key] = (b, I.run(b, [P(x) for x in args]), I)
    return ctx._cache[key]


def size_measure(term):
    """(coef, const, record) when term = coef * len(record.value) + const, else None"""
    t = tform(term)
    while isinstance(t, tuple) and t and t[0] == "as":
        t = t[1]
    if isinstance(t, tuple) and t and t[0] in ("call", "len"):
        t = ("lin", ((t, 1),), 0)
    if not (isinstance(t, tuple) and t and t[0] == "lin" and len(t[1]) == 1):
        return None
    (item, coef), const = t[1][0], t[2]
    tgt = None
    if isinstance(item, tuple) and item[0] == "call" and item[1].endswith("Bytes::len") and item[3]:
        tgt = item[3][0]
    elif isinstance(item, tuple) and item[0] == "len":
        tgt = item[1]
    if isinstance(tgt, tuple) and tgt[0] == "deref":
        tgt = tgt[1]
    if not (isinstance(tgt, tuple) and tgt[0] == "field" and tgt[2] == "value"):
        return None
    return coef, const, tgt[1]


def record_measure(ctx):
    """the accounting unit: Record::len() as an affine function of the value length"""
    if "record_measure" not in ctx._cache:
        rl = ctx.facts.one(CACHE.rsplit("::", 1)[0] + "::Record::len")
        ms = set()
        for p in Interp(ctx.facts).run(rl, [P("record")]):
            m = size_measure(p.ret)
            ms.add(m[:2] if m and m[2] in (P("record"), ("deref", P("record"))) else None)
        ctx._cache["record_measure"] = ms.pop() if len(ms) == 1 else None
    return ctx._cache["record_measure"]


def r1(ctx):
    rep = Report("C14.R1", "policy set: the record's size is added to the usage (and the sweep runs) on every path, before the inner set", floor=3)
    R = roles.get(ctx)
    usage = F(P("self"), R.rp_usage)
    b, paths, I = policy_paths(ctx, rp("set"), ["self", "key", "record"], opaque_helpers=False)
    rep.analysed(b)
    rep.check(bool(paths), "set:paths", "%d paths" % len(paths), "cannot evaluate RandomPolicy::set", b.loc())
    for p in paths:
        if p.cut:
            continue  # a further round of the sweep: the first round already shows the order
        calls = [e for e in p.events if e.kind == "call"]
        adds = [k for k, e in enumerate(calls) if e.name.endswith("fetch_add") and tform(e.args[0]) == usage]
        sets = [k for k, e in enumerate(calls) if e.name == CACHE + "::set"]
        rms = [k for k, e in enumerate(calls) if e.name.startswith(CACHE + "::") and e.name.split("::")[-1] in ("remove_if", "remove", "delete")]
        inner = [e.name.split("::")[-1] for e in calls if e.name.startswith(CACHE + "::")]
        ok_order = len(sets) == 1 and len(adds) >= 1 and adds[0] < sets[0] and all(k < sets[0] for k in rms) and all(k < sets[0] for k in adds)
        rep.check(ok_order, "set:account-then-store", "usage += size (and the sweep), then the inner set", "RandomPolicy::set performs %s with %d additions to the usage: the new record must be accounted (and the sweep run) before it is written, otherwise the sweep can evict the record being written or the usage lags behind the content" % (inner, len(adds)), b.loc())
        if ok_order:
            arg = calls[adds[0]].args[1]
            ref = record_measure(ctx)
            m = size_measure(arg)
            ok_arg = len(adds) == 1 and ref is not None and m is not None and m[:2] == ref and m[2] == P("record")
            rep.check(ok_arg, "set:accounts-record-size", "accounted size = Record::len(record) = %s" % (ref,), "RandomPolicy::set accounts %s, not Record::len() of the record being stored (%s as coefficient/constant of the value length): what is added differs from what the removing paths subtract and from the stored size, so the usage drifts from the content" % (short(arg, 80), ref), b.loc())
            s_ = calls[sets[0]]
            rep.check(tform(s_.args[1]) == P("key") and tform(s_.args[2]) == P("record") and tform(p.ret) == s_.result, "set:forwards", "inner set(key, record), result returned", "RandomPolicy::set does not forward its key/record to the inner store or drops the result", b.loc())
    return rep


def r2(ctx):
    rep = Report("C14.R2", "sweep shape: enter on usage > limit; exit on empty store before drawing a victim; remove via the inner store; subtract each removed record's size", floor=5)
    f = ctx.facts
    R = roles.get(ctx)
    b = R.policy_sweep()
    rep.analysed(b)
    I = Interp(f, loop_bound=1)
    paths = I.run(b, [P(b.local_name(i) or "a%d" % i) for i in b.arg_locals()])
    rep.evaluations += len(paths)
    limit = F(P("self"), R.rp_limit)
    n_under = n_empty = n_sweep = 0
    n_removed_subs = 0
    for p in paths:
        calls = [e for e in p.events if e.kind == "call"]
        names = [e.name.split("::")[-1] for e in calls]
        over = None
        for c, truth, _s, _at in p.state.pc:
            if isinstance(c, tuple) and c[0] == "cmp" and limit in atoms(c):
                # usage > limit  (or an equivalent comparison)
                op, l, r = c[1], c[2], c[3]
                if (op == "Gt" and r == limit) or (op == "Lt" and l == limit):
                    over = truth
                elif (op == "Le" and r == limit) or (op == "Ge" and l == limit):
                    over = not truth
                break
        if over is None:
            rep.bad("sweep:entry-test", "cannot find the usage > memory_limit test of the sweep on a path", b.loc())
            continue
        if over is False:
            n_under += 1
            rep.check("remove_if" not in names and "remove" not in names, "sweep[usage<=limit]", "no eviction while usage <= limit", "the sweep evicts although usage <= limit", b.loc())
            continue
        # usage > limit
        if "remove_if" not in names:
            n_empty += 1
            # must be the empty-store exit
            empty = any("len" in repr(c) and truth and isinstance(c, tuple) and c[0] == "cmp" and c[1] == "Eq" for c, truth, _s, _at in p.state.pc)
            rep.check(empty and "gen_range" not in names and not p.cut, "sweep[usage>limit,empty-store]", "empty store: leave the loop without drawing a victim", "over the limit without evicting and without the empty-store exit (loop cannot end) / victim drawn from an empty store", b.loc())
            continue
        n_sweep += 1
        gi = names.index("gen_range") if "gen_range" in names else -1
        ri = names.index("remove_if")
        li = names.index("len") if "len" in names else -1
        ok = 0 <= li < gi < ri
        nonempty = any("len" in repr(c) and isinstance(c, tuple) and c[0] == "cmp" and ((c[1] == "Eq" and not truth) or (c[1] == "Ne" and truth)) for c, truth, _s, _at in p.state.pc)
        rep.check(ok and nonempty, "sweep[usage>limit,non-empty]:order", "len() != 0 established, then gen_range(0..len), then remove_if", "the victim index is drawn without the empty-store exit in front of it (gen_range(0..0) panics) or the removal does not follow", b.loc())
        rm = calls[ri]
        rep.check(tform(rm.args[0]) == ("deref", F(P("self"), R.rp_store)), "sweep:removes-through-inner-store", "victim removed through the inner store", "the sweep removes through %s" % short(rm.args[0], 60), b.loc())
        g = calls[gi]
        rng = g.args[1] if len(g.args) > 1 else None
        okr = isinstance(rng, Struct) and rng.get("start") == 0 and any(isinstance(x, tuple) and x[0] == "call" and x[1].endswith("::len") for x in atoms(rng.get("end")))
        rep.check(okr, "sweep:index-range", "victim index in 0..store.len()", "victim index drawn from %s" % short(rng, 80), b.loc())
        # subtraction of each removed record
        # the predicate handed to remove_if accepts exactly the entry whose visit index is the drawn number: visit counter
        # starts at 0, the entry is accepted iff counter == drawn index, and every visit advances the counter by one
        G = g.result
        cbs = [e for e in p.events if e.kind == "callback-return" and e.name.endswith("::remove_if")]
        if cbs:
            v = cbs[0].args[0]
            okp = None
            k0 = None
            tv = tform(v)
            if isinstance(tv, tuple) and tv and tv[0] == "cmp" and tv[1] == "Eq" and G in (tv[2], tv[3]):
                k0 = tv[3] if tv[2] == G else tv[2]
                okp = k0 == 0
            elif isinstance(v, int):
                for c, truth, _s, _at in p.state.pc:
                    if isinstance(c, tuple) and c and c[0] == "cmp" and c[1] in ("Eq", "Ne") and G in (c[2], c[3]):
                        k0 = c[3] if c[2] == G else c[2]
                        eq_holds = truth if c[1] == "Eq" else (not truth)
                        okp = (k0 == 0) and (v == (1 if eq_holds else 0))
            clo = cbs[0].extra.get("closure")
            after = [cv.caps[0] for key_, cv in p.state.mem.items() if isinstance(cv, ClosureV) and cv.path == clo and len(cv.caps) >= 2 and G in atoms(cv.caps[1]) and isinstance(key_, tuple) and key_[0] == "L"]
            adv = bool(after) and all(x == 1 for x in after)
            rep.check(okp is True and adv, "sweep:predicate-picks-the-drawn-entry", "victim = the entry visited as number gen_range(0..len): counter from 0, +1 per visit, accepted iff equal", "the sweep's predicate does not pick exactly the drawn entry (first visit: counter %s, returns %s; counter after one visit %s): it evicts other / more / no entries than the one drawn — items go without memory pressure, or the loop never frees anything" % (short(k0, 20), short(v, 40), [short(x, 20) for x in after]), b.loc())
        # subtractions for the records the removal handed back (walked by match / flatten / if-let: any form)
        subs = [e for e in calls if e.name.endswith("fetch_sub") and (any(isinstance(x, tuple) and x and x[0] == "cbarg" for x in atoms(e.args[1])) or rm.result in atoms(e.args[1]))]
        n_removed_subs += len(subs)
        for sb_ in subs:
            oks = any(isinstance(x, tuple) and x[0] in ("len",) or (isinstance(x, tuple) and x[0] == "call" and x[1].endswith("::len")) for x in atoms(sb_.args[1]))
            rep.check(oks, "sweep:subtracts-removed-size", "usage -= len(removed record)", "the sweep subtracts %s for a removed record, not its size" % short(sb_.args[1], 60), b.loc())
    rep.check(n_removed_subs > 0, "sweep:subtracts-removed-size", "the size of every evicted record is subtracted", "the sweep never subtracts the size of the records it evicts: the usage stays above the limit and everything is evicted", b.loc())
    rep.check(n_under > 0 and n_empty > 0 and n_sweep > 0, "sweep:cases", "paths: under limit / empty store / eviction", "the sweep lacks one of the cases under-limit/empty-store/eviction (%d/%d/%d)" % (n_under, n_empty, n_sweep), b.loc())
    # the emptiness the sweep consults is the map's: the inner store's len() / is_empty() answer for the map that set() fills
    # (a len() stuck at 0 turns every over-limit store into 'reset the usage and keep everything': nothing is ever evicted)
    used = set()
    for p in paths:
        for e in p.events:
            if e.kind == "call" and e.name in (CACHE + "::len", CACHE + "::is_empty"):
                used.add(e.name.split("::")[-1])
    for nm in sorted(used):
        mb = f.one(ms(nm))
        rep.analysed(mb)
        rets = [tform(p_.ret) for p_ in store_interp(f).run(mb, [P("self")]) if not p_.cut]
        okl = bool(rets) and all(r_ == ("mapq", nm, F(P("self"), R.ms_map), 0) for r_ in rets)
        rep.check(okl, "store:%s-is-the-maps" % nm, "MemoryStore::%s answers for the map the records are stored in" % nm, "MemoryStore::%s returns %s, not the %s of the map the records are stored in: the sweep's empty-store exit is taken with records present (usage reset, nothing evicted) or missed" % (nm, sorted(set(short(r_, 50) for r_ in rets)), nm), mb.loc())
    # it is a loop
    rep.check(bool(b.has_cycle()), "sweep:is-loop", "eviction repeats until usage <= limit", "the eviction code contains no loop: one eviction per store cannot restore the limit", b.loc())
    return rep


ADDERS = ("set",)
REMOVERS_RET = ("delete", "remove", "remove_if")


def r3(ctx):
    rep = Report("C14.R3", "never under-counting: inner set always preceded by the addition; subtractions only of sizes of removed records (or the empty-store reset)", floor=4)
    f = ctx.facts
    R = roles.get(ctx)
    usage = F(P("self"), R.rp_usage)
    sweep = R.policy_sweep()
    methods = [b for b in f.bodies.values() if b.impl_self == RP and b.kind == "assoc_fn"]
    rep.check(len(methods) >= 12, "policy-methods", "%d RandomPolicy methods" % len(methods), "only %d RandomPolicy methods found (14 confirmed; 12 are required by the Cache traits)" % len(methods))
    for b in methods:
        if b.impl_trait is None and b.path != sweep.path:
            continue  # inherent helpers are inlined into the trait methods that use them
        argn = [b.local_name(i) or "a%d" % i for i in b.arg_locals()]
        label = "sweep" if b.path == sweep.path else b.name
        I = Interp(f, loop_bound=1)
        paths = I.run(b, [P(n) for n in argn])
        rep.analysed(b)
        for p in paths:
            calls = [e for e in p.events if e.kind == "call"]
            adds = [i for i, e in enumerate(calls) if e.name.endswith("fetch_add") and tform(e.args[0]) == usage]
            for i, e in enumerate(calls):
                if e.name == CACHE + "::set":
                    rep.check(any(j < i for j in adds), "%s:set-preceded-by-add" % label, "inner set preceded by usage += size", "RandomPolicy::%s writes to the inner store without accounting the record first: stored bytes can exceed what the sweep sees" % label, b.loc())
                if e.args and tform(e.args[0]) == usage and e.name.split("::")[-1] in ("store", "swap", "fetch_and", "fetch_min", "fetch_update", "compare_exchange", "fetch_nand", "fetch_or", "fetch_xor"):
                    # overwriting the counter is never atomic with the content: a set on another connection may already be
                    # accounted but not yet inserted (or the reverse), even if this path has just seen the store empty
                    rep.bad("%s:usage-overwritten" % label, "RandomPolicy::%s overwrites the usage counter (%s): the counter is no longer the sum of what was added and removed — a store that is accounted but not yet written (or items that a delayed flush has not removed) are forgotten, and the limit is exceeded / the counter wraps" % (label, e.name.split("::")[-1]), b.loc())
                if e.name.endswith("fetch_sub") and tform(e.args[0]) == usage:
                    arg = e.args[1]
                    a = atoms(arg)
                    from_removed = any(isinstance(x, tuple) and x[0] == "call" and x[1].startswith(CACHE + "::") and x[1].split("::")[-1] in REMOVERS_RET for x in a) or any(isinstance(x, tuple) and x[0] == "cbarg" for x in a)
                    is_len = any((isinstance(x, tuple) and x[0] == "len") or (isinstance(x, tuple) and x[0] == "call" and x[1].endswith("::len")) for x in a)
                    reset = any(isinstance(x, tuple) and x[0] == "call" and x[1].endswith("fetch_add") for x in a) or any(isinstance(x, tuple) and x[0] == "call" and x[1].endswith("::load") for x in a)
                    okk = (from_removed and is_len) or reset
                    rep.check(okk, "%s:subtraction-source" % label, "usage -= size of a removed record / reset", "RandomPolicy::%s subtracts %s from the usage, which is not the size of a record returned by a removing call: usage can drop below the stored bytes and the limit is then exceeded" % (label, short(arg, 80)), b.loc())
    return rep


def r4(ctx):
    rep = Report("C14.R4", "wiring: Random -> RandomPolicy::new(the MemoryStore, the configured limit); None -> the MemoryStore; CLI memory_limit/eviction_policy reach the store config", floor=4)
    f = ctx.facts
    R = roles.get(ctx)
    b = f.one("memcrs::memcache::builder::MemcacheStoreBuilder::from_config")
    rep.analysed(b)
    ep = "memcrs::memcache::eviction_policy::EvictionPolicy"
    cb = f.one("memcrs::memcache::builder::MemcacheStoreConfig::new")
    for vi, v in enumerate(f.adts[ep]["variants"]):
        # the config value is what the public constructor builds from (limit, policy): no private field is named here
        cfgs = [p.ret for p in Interp(f).run(cb, [P("memory_limit"), Struct(ep, v["name"], vi, OrderedDict())])]
        rep.check(len(cfgs) == 1, "MemcacheStoreConfig::new[%s]" % v["name"], "one config value", "MemcacheStoreConfig::new has %d outcomes" % len(cfgs), cb.loc())
        for cfg in cfgs:
            for p in Interp(f).run(b, [cfg, P("timer")]):
                ret = tform(p.ret)
                a = atoms(ret)
                has_policy = any(isinstance(x, tuple) and x[0] == "struct" and x[1] == RP for x in a)
                has_store = any(isinstance(x, tuple) and x[0] == "struct" and x[1] == MS for x in a)
                if v["name"] == "Random":
                    lim = None
                    inner_store = False
                    for x in a:
                        if isinstance(x, tuple) and x[0] == "struct" and x[1] == RP:
                            d = dict(x[3])
                            lim = d.get(R.rp_limit)
                            inner_store = any(isinstance(y, tuple) and y[0] == "struct" and y[1] == MS for y in atoms(d.get(R.rp_store)))
                    rep.check(has_policy and lim == P("memory_limit") and inner_store, "from_config[Random]", "RandomPolicy{the MemoryStore, limit = the configured memory limit}", "eviction policy 'random' builds %s (must wrap the MemoryStore with the configured memory limit)" % short(p.ret, 120), b.loc())
                else:
                    rep.check(has_store and not has_policy, "from_config[%s]" % v["name"], "the MemoryStore itself", "eviction policy '%s' builds %s (must be the plain MemoryStore: nothing may evict)" % (v["name"], short(p.ret, 120)), b.loc())
                ms_timer = None
                for x in a:
                    if isinstance(x, tuple) and x[0] == "struct" and x[1] == MS:
                        ms_timer = dict(x[3]).get(R.ms_timer)
                rep.check(ms_timer == P("timer"), "from_config[%s]:timer" % v["name"], "MemoryStore's timer <- the given timer", "the store is built with timer %s, not the one passed in" % short(ms_timer, 60), b.loc())
    nb = f.one(RP + "::new")
    for p in Interp(f).run(nb, [P("store"), P("memory_limit")]):
        rep.check(field_of(p.ret, R.rp_store) == P("store") and field_of(p.ret, R.rp_limit) == P("memory_limit") and 0 in [x[3][0] if isinstance(x, tuple) and x[0] == "call" and x[3] else None for x in atoms(field_of(p.ret, R.rp_usage))], "RandomPolicy::new", "store, limit, usage 0", "RandomPolicy::new builds %s" % short(p.ret, 120), nb.loc())
    sb = f.one("memcrs::memcache_server::runtime_builder::create_memcrs_server")
    for bb, t in sb.calls():
        if (t.callee.path or "").endswith("MemcacheStoreConfig::new"):
            rep.check(chase_mentions(sb, t.args[0], ("memory_limit",)) and chase_mentions(sb, t.args[1], ("eviction_policy",)), "create_memcrs_server:store-config", "MemcacheStoreConfig::new(<- args.memory_limit, <- args.eviction_policy)", "create_memcrs_server does not build the store config from the CLI memory limit and eviction policy", loc_s(t.span))
    return rep


RULES = [("C14.R1", r1), ("C14.R2", r2), ("C14.R3", r3), ("C14.R4", r4)]
