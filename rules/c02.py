"""C02 — CAS guards against lost updates."""
from rules.common import *  # noqa: F401,F403
from rules import storefacts, dispatch
from rules.storefacts import field_of, REQ_CAS

LEVEL_TEXT = (
    'Static clause check: R1 builds the truth table of MemoryStore::set (request cas in {0,!=0} x entry '
    'present/absent x stored cas =/!= request cas) and of MemoryStore::delete (read from presence / comparison / '
    'removal facts, whichever DashMap primitive is used: remove_if with a predicate or the entry API) from the '
    'resolved MIR and compares it with the property (mismatch -> KeyExists and no map write; match -> exactly one '
    'write; delete removes iff cas = 0 or equal); R2 requires the acknowledged cas to be the very value written into '
    'the stored record and the handlers to copy it into the response header; R3 requires every token stored over an '
    "existing item to come from the store's fetch_add counter (a token that is a function of the request alone can "
    'coincide with a counter-issued one); R4 requires append/prepend/incr/decr to forward the request cas into the '
    'conditional set. Not decided: uniqueness as a statement over whole histories (R3 is the structural reason), '
    'concurrency (C03).'
)
ASSUMPTIONS = [
    "DashMap 5.5.3 semantic table (analysis/storemodel.py)",
    "AtomicU64::fetch_add returns distinct values for distinct calls until the counter wraps (2^64 stores)",
]

FETCH_ADD = "std::sync::atomic::Atomic::fetch_add"


def is_counter_token(v, ctx):
    """does the value mention a fetch_add on the store's cas counter (the AtomicU64 field of MemoryStore)?"""
    from rules import roles

    field = roles.get(ctx).ms_cas
    for a in atoms(v):
        if isinstance(a, tuple) and len(a) >= 4 and a[0] == "call" and a[1].endswith("::fetch_add"):
            if a[3] and a[3][0] in (F(P("self"), field), ("deref", F(P("self"), field))):
                return True
    return False


def r1(ctx):
    rep = Report("C02.R1", "CAS truth tables: set (mismatch -> KeyExists, no write; match -> one write) and delete (removes iff cas=0 or equal; NotFound vs KeyExists)", floor=7)
    f = ctx.facts
    b = f.one(ms("set"))
    rep.analysed(b)
    rep.exhaustive = True
    paths = storefacts.set_paths(ctx)
    rep.evaluations += len(paths)
    seen_cases = set()
    for p in paths:
        if p.cut:
            rep.bad("set:cut", "cannot evaluate MemoryStore::set (loop)", b.loc())
            continue
        rc, pres, match = storefacts.req_cas_case(p), storefacts.presence_case(p), storefacts.cas_match_case(p)
        case = "%s,%s,%s" % (rc, pres, match)
        writes = map_writes(p)
        var, _pl = variant_of(p.ret)
        rep.sample({"set case": case, "returns": short(p.ret, 120), "writes": [w["name"] for w in writes]})
        keys_ok = all(w["key"] == P("key") for w in writes)
        if rc == "cas=0":
            seen_cases.add("cas=0")
            rep.check(var == "Ok" and len(writes) == 1 and keys_ok, "set[cas=0]", "unconditional store: one write of the key, Ok", "unconditional set: returns %s with %d map writes" % (short(p.ret, 80), len(writes)), b.loc())
        elif rc == "cas!=0" and pres == "present" and match == "!=":
            seen_cases.add("mismatch")
            rep.check(err_name(p.ret) == "KeyExists" and not writes and not map_removals(p), "set[cas!=0,present,mismatch]", "mismatch -> Err(KeyExists), item untouched", "CAS mismatch on an existing item: returns %s with %d map writes (must be KeyExists and no write)" % (short(p.ret, 80), len(writes)), b.loc())
        elif rc == "cas!=0" and pres == "present" and match == "=":
            seen_cases.add("match")
            rep.check(var == "Ok" and len(writes) == 1 and keys_ok and writes[0]["kind"] in ("replace",), "set[cas!=0,present,match]", "match -> exactly one replacement, Ok", "CAS match on an existing item: returns %s with writes %s" % (short(p.ret, 80), [w["name"] for w in writes]), b.loc())
        elif rc == "cas!=0" and pres == "absent":
            seen_cases.add("absent")
            rep.ok("set[cas!=0,absent]", "absent key with a CAS: %s (outside the property's claim)" % (var,), b.loc())
        else:
            rep.bad("set:unclassified:" + case, "cannot evaluate: a path of MemoryStore::set does not fit the (request cas, presence, comparison) partition: %s" % case, b.loc())
    for need in ("cas=0", "mismatch", "match"):
        if need not in seen_cases:
            rep.bad("set:missing-case:" + need, "MemoryStore::set has no path for the case '%s' (compare removed?)" % need, b.loc())
    # delete
    d = f.one(ms("delete"))
    rep.analysed(d)
    hc = F(P("header"), "cas")
    for hcase in ("cas=0", "cas!=0"):
        def seeds(st, hcase=hcase):
            if hcase == "cas=0":
                assume(st, {hc: 1}, eq=0)
            else:
                assume(st, {hc: 1}, lo=1, hi=2**64 - 1)

        I = store_interp(f)
        dp = I.run(d, [P("self"), P("key"), P("header")], seeds=seeds)
        rep.evaluations += len(dp)
        for p in dp:
            evs = [e for e in map_events(p)]
            if not evs or any(e.extra.get("key") not in (P("key"), None) for e in evs):
                rep.bad("delete:shape", "cannot evaluate: delete performs no map operation on the request key / touches another key (map events: %s)" % [e.name for e in evs], d.loc())
                continue
            # presence of the key, the stored record and whether it was removed — whatever DashMap primitive is used
            # (remove_if with a predicate, the entry API, a guard): atomicity of the combination is C03.R1's subject
            first = evs[0]
            rms = map_removals(p)
            removed = bool(rms)
            if first.name == "remove_if":
                present = first.extra["present"]
            else:
                pc_ = storefacts.presence_case(p)
                present = True if pc_ == "present" else False if pc_ == "absent" else None
            if present is None and first.name == "remove":
                # unconditional remove: presence is learnt from its result
                dres = d2(p, first.extra.get("result"))
                present = True if dres == 1 else False if dres == 0 else None
            if len(rms) > 1:
                rep.bad("delete:shape", "cannot evaluate: delete removes more than once on a path (map events: %s)" % [e.name for e in evs], d.loc())
                continue
            eq = None
            for c, truth, _s, _at in p.state.pc:
                if isinstance(c, tuple) and c and c[0] == "cmp" and c[1] in ("Eq", "Ne") and hc in (c[2], c[3]):
                    other = c[3] if c[2] == hc else c[2]
                    if isinstance(other, tuple) and other[0] == "field" and other[2] == "cas" and lookup_of(other) is not None:
                        eq = truth if c[1] == "Eq" else not truth
            if present is None:
                rep.bad("delete:shape", "cannot evaluate: a path of delete does not establish whether the key is present (map events: %s)" % [e.name for e in evs], d.loc())
                continue
            if not present:
                k = "delete[%s,absent]" % hcase
                rep.check(err_name(p.ret) == "NotFound" and not removed, k, "absent -> NotFound", "delete of an absent key returns %s" % short(p.ret, 80), d.loc())
                continue
            if hcase == "cas=0":
                k = "delete[cas=0,present]"
                rep.check(removed and variant_of(p.ret)[0] == "Ok", k, "cas 0 -> removed, Ok", "delete with cas 0 on a present key: removed=%s returns %s" % (removed, short(p.ret, 80)), d.loc())
            elif eq is True:
                k = "delete[cas!=0,present,=]"
                rep.check(removed and variant_of(p.ret)[0] == "Ok", k, "matching cas -> removed, Ok", "delete with matching cas: removed=%s returns %s" % (removed, short(p.ret, 80)), d.loc())
            elif eq is False:
                k = "delete[cas!=0,present,!=]"
                rep.check((not removed) and err_name(p.ret) == "KeyExists", k, "mismatching cas -> kept, KeyExists", "delete with a mismatching cas: removed=%s returns %s (must keep the item and answer KeyExists)" % (removed, short(p.ret, 80)), d.loc())
            else:
                rep.bad("delete[cas!=0,present]:no-compare", "delete with a non-zero cas %s the item without comparing it to the stored cas" % ("removes" if removed else "keeps"), d.loc())
    return rep


HANDLER_CAS = [
    # handler method, args, MemcStore call whose Ok payload carries the cas, field path of the cas in the payload
    ("set", ["self", "set_req", "response_header"], ("cas",)),
    ("add_replace", ["self", "request", "response_header"], ("cas",)),
    ("append_prepend", ["self", "append_req", "response_header"], ("cas",)),
    ("increment", ["self", "inc_request", "response_header"], ("cas",)),
    ("decrement", ["self", "dec_request", "response_header"], ("cas",)),
    ("get", ["self", "get_request", "response_header"], ("header", "cas")),
]


def memc_opaque(body, args):
    return "opaque" if body.path.startswith(MEMC + "::") else "inline"


def r2(ctx):
    rep = Report("C02.R2", "acknowledged CAS = stored CAS: SetStatus.cas is the value written to the stored record; handlers copy the command's cas into the response header", floor=9)
    f = ctx.facts
    b = f.one(ms("set"))
    for p in storefacts.set_paths(ctx):
        var, pl = variant_of(p.ret)
        if var != "Ok":
            continue
        ack = field_of(pl, "cas")
        for w in map_writes(p):
            stored = field_of(w["value"], "header", "cas")
            case = storefacts.set_case(p)
            rep.check(tform(ack) == tform(stored), "set[%s]:ack=stored" % case, "SetStatus.cas is the stored header.cas", "MemoryStore::set acknowledges cas %s but stores %s" % (short(ack, 100), short(stored, 100)), loc_s(w["event"].span))
    for meth, args, cpath in HANDLER_CAS:
        hb, hargs = dispatch.handler_body_args(ctx, meth, args[1])
        rep.analysed(hb)
        I = Interp(f, policy=memc_opaque)
        paths = I.run(hb, hargs)
        rep.evaluations += len(paths)
        n_ok = 0
        bad = None
        for p in paths:
            calls = [e for e in p.events if e.kind == "call" and e.name.startswith(MEMC + "::")]
            if len(calls) != 1:
                bad = "a path makes %d MemcStore calls" % len(calls)
                break
            res = calls[0].result
            d = d2(p, res)
            if d != 0:
                continue  # error path
            n_ok += 1
            hdr = field_of(p.ret, "0", "header")
            got = field_of(hdr, "cas")
            want = ("field", ("as", res, "Ok"), "0")
            for nme in cpath:
                want = ("field", want, nme)
            if tform(got) != want:
                bad = "success response carries cas %s, not the command's %s" % (short(got, 120), ".".join(cpath))
                break
        rep.check(bad is None and n_ok > 0, "handler:%s:response.cas" % meth, "response cas <- store result", "BinaryHandler::%s: %s" % (meth, bad or "no success path found"), hb.loc())
    return rep


def r3(ctx):
    rep = Report("C02.R3", "one source of fresh tokens: every cas stored over an existing item comes from the global fetch_add counter", floor=2)
    f = ctx.facts
    b = f.one(ms("set"))
    n = 0
    for p in storefacts.set_paths(ctx):
        rc, pres = storefacts.req_cas_case(p), storefacts.presence_case(p)
        for w in map_writes(p):
            stored = field_of(w["value"], "header", "cas")
            case = storefacts.set_case(p)
            if rc == "cas!=0" and pres == "absent":
                # the first token of a lifetime; it must still not collide with later counter-issued ones
                ok = is_counter_token(stored, ctx)
                rep.check(ok, "set[%s]:token-source" % case, "token issued by the cas counter's fetch_add", "a CAS-store on an absent key starts the item's lifetime with token %s (client-chosen): the counter can later issue the same value within this lifetime (4 sets elsewhere; cas-set k cas=4 -> 5; set k -> 5; stale cas-set k cas=5 succeeds)" % short(stored, 100), loc_s(w["event"].span))
                continue
            ok = is_counter_token(stored, ctx)
            rep.check(ok, "set[%s]:token-source" % case, "token issued by the cas counter's fetch_add", "the cas stored over an existing item is %s — a function of the request alone, not of the global counter: it can coincide with a counter-issued token (set->1; cas-set(1)->2; set->2 again; a stale cas-set(2) then succeeds)" % short(stored, 120), loc_s(w["event"].span))
    # the counter starts at a non-zero constant (C01.R5) -- checked in C01
    return rep


def r4(ctx):
    rep = Report("C02.R4", "append/prepend/incr/decr hand the request cas to the conditional set", floor=3)
    f = ctx.facts
    subjects = [
        ("append", ["self", "key", "new_record"], F(P("new_record"), "header", "cas")),
        ("prepend", ["self", "key", "new_record"], F(P("new_record"), "header", "cas")),
        ("increment", ["self", "header", "key", "delta"], F(P("header"), "cas")),
        ("decrement", ["self", "header", "key", "delta"], F(P("header"), "cas")),
    ]
    for meth, args, want in subjects:
        b = f.one(MEMC + "::" + meth)
        rep.analysed(b)
        I = Interp(f)
        paths = I.run(b, [P(a) for a in args])
        rep.evaluations += len(paths)
        nsets = 0
        bad = None
        for p in paths:
            calls = [e for e in p.events if e.kind == "call" and e.name.startswith(CACHE + "::")]
            if not calls or calls[0].name != CACHE + "::get":
                continue
            got = calls[0].result
            if d2(p, got) != 0:
                continue  # key absent
            for e in calls[1:]:
                if e.name == CACHE + "::set":
                    nsets += 1
                    cas = field_of(e.args[2], "header", "cas")
                    if tform(cas) != want:
                        bad = "record handed to set carries cas %s, not the request's" % short(cas, 100)
        rep.check(bad is None and nsets > 0, "MemcStore::%s:forwards-cas" % meth, "existing-key path: set(record{header.cas <- request cas})", "MemcStore::%s: %s" % (meth, bad or "no set on the existing-key path"), b.loc())
    return rep


RULES = [("C02.R1", r1), ("C02.R2", r2), ("C02.R3", r3), ("C02.R4", r4)]
