"""C18 — faults on one connection are contained."""
from collections import OrderedDict

from rules.common import *  # noqa: F401,F403
from rules import c09, c12
from rules.storefacts import field_of
from bufmodel import BUF_MODELS
from absint import Err as VErr, Ok as VOk, Some as VSome, NoneV
import callgraph

LEVEL_TEXT = (
    'Static clause check of the connection task (the per-byte-offset enumeration of faults is NOT decided): R1 '
    'evaluated on the public Client::handle, one round per path: a failed read, a clean end of stream and an idle '
    'timeout end the task without reaching the handler or a write; a decoded request is dispatched exactly once; R2 '
    'incomplete is not complete: read_frame returns a frame only when decode returned one, propagates decode errors, '
    'and maps EOF to a clean end only with an empty buffer (shared with C09.R5) — together with C09.R2/R3 (a frame is '
    'built only from a completely buffered body) the incomplete or invalid request is not executed; R3 isolation by '
    'construction: one Client per accepted socket, moved into its own task; Client / connection / codec hold no state '
    'shared between connections other than Arc<MemcStore> and the semaphore; no static mut, no global mutable state '
    'besides the thread-name counter; R4 the connection task cannot take the process down: process::exit/abort are '
    "reachable only from main, and client-triggerable panics are C10's obligation; R5 a fault of one accepted "
    'connection does not end the accept loop: after accept, run() returns only through the two whitelisted setsockopt '
    'failures. Not decided: behaviour for every cut offset, what other connections observe.'
)
ASSUMPTIONS = ["tokio runs each spawned task independently; a panic in a task does not abort the runtime", "C09.R2/R3 and C10.R1 hold (checked by their own rules)"]


def r1(ctx):
    rep = Report("C18.R1", "per frame: read error / end of stream / idle timeout -> the task ends, nothing executed; a decoded request -> exactly one handle_request(req)", floor=3)
    b, rs = c12.rounds(ctx)
    rep.analysed(b)
    rep.evaluations += len(rs)
    want = {
        "Err": ("read-error", "a failed read closes the connection without executing anything"),
        "Ok(None)": ("eof", "a clean end of stream closes the connection without executing anything"),
        "timeout": ("timeout", "an idle timeout closes the connection without executing anything"),
    }
    for name, (frame, what) in want.items():
        sel = [r for r in rs if r["frame"] == frame]
        ok = bool(sel)
        why = "no such path"
        for r in sel:
            acts = [k for k in r["kinds"] if k not in ("read_frame-call", "read")]
            if acts or not r["ends"]:
                ok = False
                why = "actions %s, the task %s" % (acts, "ends" if r["ends"] else "continues reading")
        rep.check(ok, "handle_frame[%s]" % name, what, "frame outcome %s: %s — expected: %s" % (name, why, what), b.loc())
    sel = [r for r in rs if r["frame"] == "request"]
    ok = bool(sel)
    why = "no path handles a decoded request"
    for r in sel:
        nd = r["kinds"].count("dispatch")
        quitq = r["quitq"] and nd == 0 and "shutdown" in r["kinds"]
        if not (nd == 1 or quitq) or (r["cut"] and not str(r["cut"]).startswith("loop")):
            ok = False
            why = "request dispatched %d times" % nd
        if r["disp"] and tform(r["disp"][0].args[1]) != r["req"]:
            ok = False
            why = "dispatches %s" % short(r["disp"][0].args[1], 40)
    rep.check(ok, "handle_frame[Ok(Some)]", "a decoded request is executed exactly once", "decoded request: %s — expected: executed exactly once" % why, b.loc())
    return rep


def r2(ctx):
    rep = Report("C18.R2", "read_frame: a frame only from decode's Ok(Some); decode errors propagate; EOF rules (C09.R5)", floor=4)
    f = ctx.facts
    b = f.one(c09.READ_FRAME)
    rep.analysed(b)
    cor = ClosureV(c09.READ_FRAME, [P("self")], "coroutine")

    def m_decode_err(I, st, t, args, site, depth):
        from absint import Event

        st.events.append(Event("call", "decode", [], site, t.span, tuple(I.ctx), ("decoded",)))
        return [(st, VErr(P("decode_error")))]

    models = dict(BUF_MODELS)
    models["tokio_util::codec::Decoder::decode"] = m_decode_err
    I = Interp(f, models=models, policy=c09.conn_opaque, loop_bound=1)
    paths = I.run(b, [cor, P("cx")])
    ok = bool(paths)
    for p in paths:
        var, pl = variant_of(p.ret)
        reads = [e for e in p.events if e.kind == "call" and "read_buf" in e.name]
        if var != "Err" or P("decode_error") not in atoms(pl) or reads or p.cut:
            ok = False
    rep.check(ok, "decode-error-propagates", "a decode error ends read_frame with that error (no further read)", "a decode error (invalid header / invalid request) is not propagated by read_frame: the invalid request can be retried or executed", b.loc())
    # frame only from decode
    sub = c09.r5(ctx)
    for i in sub.instances:
        if i.key.startswith("eof[") or i.key == "frame-returned-as-is":
            rep.instances.append(i)
    # with decode yielding nothing and the socket yielding data, read_frame loops back to decode (no frame is invented)
    models2 = dict(BUF_MODELS)
    models2["tokio_util::codec::Decoder::decode"] = c09.m_decode_opaque("none")
    I = Interp(f, models=models2, policy=c09.conn_opaque, loop_bound=1)
    paths = I.run(b, [cor, P("cx")])
    invented = False
    for p in paths:
        var, pl = variant_of(p.ret)
        if var == "Ok" and variant_of(pl)[0] == "Some":
            invented = True
    rep.check(not invented, "no-frame-without-decode", "without a decoded frame read_frame returns none", "read_frame returns a request although the decoder produced none", b.loc())
    return rep


def r3(ctx):
    rep = Report("C18.R3", "isolation by construction: per-connection state is owned; shared state is only Arc<MemcStore> and the semaphore; no static mut", floor=5)
    f = ctx.facts
    SHARED_OK = {
        (CLIENT, "limit_connections"): "std::sync::Arc<tokio::sync::Semaphore>",
        ("memcrs::memcache_server::handler::BinaryHandler", "storage"): "std::sync::Arc<memcrs::memcache::store::MemcStore>",
    }
    per_conn = [CLIENT, CONN, CODEC, "memcrs::memcache_server::handler::BinaryHandler", "memcrs::memcache_server::client_handler::ClientConfig"]
    for apath in per_conn:
        a = f.adts.get(apath)
        if a is None:
            rep.bad("type:%s" % apath, "per-connection type %s not found" % apath)
            continue
        for v in a["variants"]:
            for fld in v["fields"]:
                ty = fld["ty"]
                sharedish = any(x in ty for x in ("Arc<", "Rc<", "&'", "& ", "Mutex<", "RwLock<", "*mut", "*const", "'static", "Cell<"))
                k = "field:%s.%s" % (apath.split("::")[-1], fld["name"])
                if (apath, fld["name"]) in SHARED_OK:
                    rep.check(ty == SHARED_OK[(apath, fld["name"])], k, "shared by design: %s" % ty, "%s has type %s (expected %s)" % (k, ty, SHARED_OK[(apath, fld["name"])]), loc_s(a["span"]))
                else:
                    rep.check(not sharedish, k, "owned per connection (%s)" % ty.split("::")[-1], "per-connection type %s has a field %s: %s that can be shared between connections: a fault on one connection can leak into another" % (apath.split("::")[-1], fld["name"], ty), loc_s(a["span"]))
    # statics
    for cpath, c in f.consts.items():
        if c["kind"].startswith("Static"):
            k = "static:%s" % cpath
            if c.get("mutable"):
                rep.bad(k, "static mut %s: global mutable state shared by all connections" % cpath)
            elif any(x in c["ty"] for x in ("Atomic", "Mutex", "RwLock", "Cell", "OnceLock", "Lazy")):
                # thread-name counter; tracing callsite registrations; clap-derive's default-value cache (CLI parsing only)
                allowed = "get_worker_thread_name" in cpath or "CALLSITE" in cpath or "__CALLSITE" in cpath or "META" in cpath or " as clap::" in cpath
                rep.check(allowed, k, "interior-mutable static allowed: %s" % c["ty"].split("::")[-1], "interior-mutable static %s: %s is global state shared by all connections" % (cpath, c["ty"]))
    # one Client per accepted socket, moved into the spawned task: C17.R1 (spawned-task-owns-client)
    from rules import c17

    sub = c17.r1(ctx)
    for i in sub.instances:
        if i.key in ("spawned-task-owns-client", "sites"):
            rep.instances.append(i)
    return rep


def r4(ctx):
    rep = Report("C18.R4", "the connection task cannot end the process: process::exit/abort unreachable from connection and accept code", floor=4)
    f = ctx.facts
    cg = callgraph.get(ctx)

    def is_exit(name, t=None):
        return name in ("std::process::exit", "std::process::abort", "core::intrinsics::abort", "std::intrinsics::abort", "libc::exit", "libc::abort")

    # (the private steps of the connection task are reached from Client::handle; they are listed when they exist)
    for root in [r_ for r_ in (c12.HL, c12.HF_, c12.HR, c09.READ_FRAME, SERVER + "::run::{closure#0}", HANDLER + "::handle_request") if r_ in f.bodies or r_ in (c12.HL, c09.READ_FRAME, SERVER + "::run::{closure#0}", HANDLER + "::handle_request")]:
        w = cg.may_reach_ext(root, is_exit)
        rep.check(w is None, "no-exit:%s" % root.split("::")[-2], "no process exit/abort reachable", "process exit/abort is reachable from %s: %s — one connection can take the server down" % (root, " -> ".join(w) if w else ""), safe_loc(f, root))
    return rep


ACCEPT_ARM_ALLOWED = {
    "tokio::net::TcpStream::set_nodelay": "setsockopt(TCP_NODELAY) on an accepted socket: not known to fail on Linux, also after a reset (advisory)",
    "tokio::net::TcpStream::set_linger": "setsockopt(SO_LINGER) on an accepted socket: not known to fail on Linux (advisory)",
}


def r5(ctx):
    rep = Report("C18.R5", "a fault of one accepted connection does not end the accept loop: inside the loop no `?` propagates a per-connection error out of run() (two setsockopt calls are whitelisted with a reason)", floor=3)
    from rules.c17 import accept_paths

    b, rounds = accept_paths(ctx)
    rep.analysed(b)
    rep.check(bool(rounds), "accept-loop", "%d paths through a round of the accept loop" % len(rounds), "cannot find the accept loop", b.loc())
    n = 0
    seen = set()
    for p, evs in rounds:
        if p.cut or p.ret is None:
            continue  # the round ends by going back to accept
        # run() returns after a connection was accepted: only the whitelisted setsockopt failures may do that
        names = [x[1] for x in atoms(p.ret) if isinstance(x, tuple) and x and x[0] == "call"]
        origin = None
        for nm in ACCEPT_ARM_ALLOWED:
            if any(strip_generics(x) == nm for x in names):
                origin = nm
        is_err = isinstance(p.ret, Struct) and p.ret.variant == "Err"
        if not is_err:
            if "return" not in seen:
                seen.add("return")
                rep.bad("accept-loop:return", "the accept loop contains a return: run() ends with %s after a connection was accepted, and no further client is served" % short(p.ret, 60), b.loc())
            continue
        k = (origin or "other").split("::")[-1]
        if origin is None:
            n += 1
            k = "other#%d" % n
        if k in seen:
            continue
        seen.add(k)
        rep.check(origin is not None, "accept-loop:?-on-%s" % k, "`?` inside the accept loop only on %s" % (origin or "?"), "an error of one accepted connection (%s) is propagated out of MemcacheTcpServer::run (not one of the whitelisted setsockopt calls): the listener stops and no new client is served — e.g. a connection reset while still in the backlog makes peer_addr()/getpeername fail with ENOTCONN" % short(p.ret, 80), b.loc())
    rep.ok("accept-loop:examined", "%d paths through the accept loop examined" % len(rounds), b.loc())
    for nm, why in ACCEPT_ARM_ALLOWED.items():
        rep.advise("%s? may end the accept loop: %s" % (nm.split("::")[-1], why))
    return rep


RULES = [("C18.R1", r1), ("C18.R2", r2), ("C18.R3", r3), ("C18.R4", r4), ("C18.R5", r5)]
