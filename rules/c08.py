"""C08 — delete and flush remove exactly what they should."""
from collections import OrderedDict

from rules.common import *  # noqa: F401,F403
from rules import dispatch, storefacts, c02
from rules.storefacts import field_of
from rules.c02 import memc_opaque
from rules.c06 import decoded_variant, handler_method_of

LEVEL_TEXT = (
    "Static clause check: R1 the delete truth table (removes iff cas = 0 or equal; NotFound vs KeyExists from whether the "
    "predicate ran), key operand and plumbing (rows 0x04/0x14, handler passes request key and header cas); R2 flush shape "
    "over ttl in {0, !=0}: 0 -> DashMap::clear, != 0 -> alter_all whose closure writes a TTL that depends on the flush delay, "
    "the current time and the item's timestamp (so the item expires no later than now+delay); R3 flush wire layout "
    "(expiration = body[0..4] iff extras_length = 4, else 0), handler plumbing and rows 0x08/0x18; R4 flush leaves no state "
    "behind (it writes nothing but map entries) and nothing under the handler's delete / flush hands work to another task, "
    "thread or queue (the command has taken effect when it is acknowledged), so items stored later are unaffected. Not decided: that clear/alter_all "
    "visit every shard (DashMap)."
)
ASSUMPTIONS = ["DashMap 5.5.3 semantic table (clear removes everything; alter_all visits every entry)", "bytes semantic table"]


def r1(ctx):
    rep = Report("C08.R1", "delete: truth table (shared with C02.R1), single remove_if on the request key, rows 0x04/0x14, handler passes key and cas", floor=8)
    f = ctx.facts
    sub = c02.r1(ctx)
    for i in sub.instances:
        if i.key.startswith("delete"):
            rep.instances.append(i)
    rep.functions |= sub.functions
    for op, variant in ((0x04, "Delete"), (0x14, "DeleteQuiet")):
        somes, _t = decoded_variant(ctx, op)
        rep.check(somes == [variant], "decode:%#04x" % op, "%#04x decodes to %s" % (op, variant), "opcode %#04x decodes to %s, the protocol says %s" % (op, somes, variant), safe_loc(f, CODEC + "::parse_request"))
        hm = dispatch.store_methods_of_variant(ctx, variant)
        rep.check(hm == {"delete"}, "handle:%s" % variant, "%s is dispatched to MemcStore::delete" % variant, "%s reaches MemcStore::%s" % (variant, sorted(hm or [])), safe_loc(f, HANDLER + "::handle_request"))
    # plumbing, for the loud and the quiet opcode alike, on the public handle_request (private handler methods inlined)
    for variant in ("Delete", "DeleteQuiet"):
        hb, hpaths = dispatch.variant_store_paths(ctx, variant, "delete_request")
        ok = bool(hpaths)
        for p in hpaths:
            calls = [e for e in p.events if e.kind == "call" and e.name.startswith(MEMC + "::")]
            ok = ok and not p.cut and len(calls) == 1 and calls[0].name == MEMC + "::delete" and tform(calls[0].args[1]) == F(P("delete_request"), "key") and field_of(calls[0].args[2], "cas") == F(P("delete_request"), "header", "cas")
        rep.check(ok, "handler:delete:plumbing" if variant == "Delete" else "handler:delete:plumbing[quiet]", "MemcStore::delete(request.key, meta{cas <- header.cas})", "a %s request does not reach MemcStore::delete exactly once with the request's key and cas" % variant, hb.loc())
    mb = f.one(MEMC + "::delete")
    oks = []
    for p in Interp(f).run(mb, [P("self"), P("key"), P("header")]):
        calls = [e for e in p.events if e.kind == "call" and e.name.startswith(CACHE + "::")]
        oks.append(len(calls) == 1 and calls[0].name == CACHE + "::delete" and tform(calls[0].args[1]) == P("key") and tform(calls[0].args[2]) == P("header") and tform(p.ret) == calls[0].result and not p.cut)
    ok = bool(oks) and all(oks)
    rep.check(ok, "MemcStore::delete", "forwards to Cache::delete(key, header)", "MemcStore::delete does not forward key/header to the store", mb.loc())
    return rep


def r2(ctx):
    rep = Report("C08.R2", "flush: ttl = 0 -> clear; ttl != 0 -> alter_all whose new TTL depends on the flush delay, now and the item's timestamp", floor=3)
    f = ctx.facts
    fb = f.one(ms("flush"))
    rep.analysed(fb)
    hdr_ttl = F(P("header"), "time_to_live")
    rep.exhaustive = True
    for case in ("ttl=0", "ttl!=0"):
        def seeds(st, case=case):
            if case == "ttl=0":
                assume(st, {hdr_ttl: 1}, eq=0)
            else:
                assume(st, {hdr_ttl: 1}, lo=1, hi=2**32 - 1)

        paths = store_interp(f).run(fb, [P("self"), P("header")], seeds=seeds)
        rep.evaluations += len(paths)
        if not paths:
            rep.bad("flush[%s]:no-path" % case, "cannot evaluate flush for %s" % case, fb.loc())
        for p in paths:
            names = [e.name for e in map_events(p)]
            if case == "ttl=0":
                rep.check(names == ["clear"], "flush[ttl=0]", "immediate flush = DashMap::clear", "immediate flush performs %s (must clear the map)" % names, fb.loc())
            else:
                if names != ["alter_all"]:
                    rep.bad("flush[ttl!=0]:shape", "delayed flush performs %s (must rewrite every item's expiry once)" % names, fb.loc())
                    continue
                e = map_events(p)[0]
                old = e.extra["old"]
                newv = e.extra["value"]
                new_ttl = field_of(newv, "header", "time_to_live")
                old_ttl = F(old, "header", "time_to_live")
                # the u32 saturation arm (age + delay above 2^32-1 s = 136 years: an explicit clamp written as a branch,
                # e.g. u32::try_from(..).unwrap_or(u32::MAX)) is outside the property's range of delays and clock values
                clamped = any(isinstance(c, tuple) and c and c[0] == "cmp" and hdr_ttl in atoms(c) and 0xFFFFFFFF in (c[2], c[3]) and ((c[1] in ("Gt", "Ge") and tr) or (c[1] in ("Le", "Lt") and not tr)) for c, tr, _s, _at in p.state.pc)
                if clamped:
                    rep.ok("flush[ttl!=0]:saturation-arm", "age + delay beyond u32::MAX seconds is clamped", loc_s(e.span))
                    continue
                if new_ttl == old_ttl:
                    # branch that keeps the item's own (earlier) expiry: must be guarded by a comparison involving the delay
                    guarded = any(hdr_ttl in atoms(c) and old_ttl in atoms(c) for c, _t, _s, _at in p.state.pc)
                    rep.check(guarded, "flush[ttl!=0]:keep-arm", "the arm that keeps the item's own TTL is guarded by a comparison with the new deadline", "delayed flush leaves an item's TTL unchanged without comparing it to the flush deadline", loc_s(e.span))
                    continue
                a = atoms(new_ttl)
                dep_delay = hdr_ttl in a
                dep_now = ("now",) in a
                dep_ts = F(old, "header", "timestamp") in a
                ts_kept = field_of(newv, "header", "timestamp") == F(old, "header", "timestamp")
                if ts_kept and tform(new_ttl) == hdr_ttl:
                    ok = True  # timestamp <= now, so timestamp + delay <= now + delay
                    what = "TTL := delay with the (earlier) timestamp kept: expires no later than now + delay"
                elif ts_kept:
                    ok = dep_delay and dep_now and dep_ts
                    what = "new TTL <- delay, now, item timestamp (timestamp kept)"
                else:
                    ok = dep_delay and field_of(newv, "header", "timestamp") == ("now",)
                    what = "timestamp <- now, TTL <- delay"
                rep.check(ok, "flush[ttl!=0]:deadline", what, "delayed flush writes TTL %s (timestamp %s): it does not make the item expire at flush time + delay (needs the delay%s)" % (short(new_ttl, 100), "kept" if ts_kept else "rewritten", ", the current time and the item's timestamp" if ts_kept else ""), loc_s(e.span))
                rep.sample({"flush new ttl": short(new_ttl, 200)})
                rep.check(isinstance(newv, Struct) and newv.base == old and set(newv.fields) <= {"header"} and set(newv.get("header").fields if isinstance(newv.get("header"), Struct) else []) <= {"time_to_live", "timestamp"}, "flush[ttl!=0]:only-expiry-rewritten", "only the expiry fields of each item are rewritten", "delayed flush rewrites more than the expiry of the items: %s" % short(newv, 120), loc_s(e.span))
    # the arithmetic of the deadline, by affine entailment from each path's guards
    fd = storefacts.flush_deadlines(ctx)
    if fd is None:
        rep.bad("flush:deadline:cannot-evaluate", "cannot evaluate the delayed-flush rewrite", fb.loc())
    else:
        for r in fd:
            case = "ttl=0" if r["old_zero"] else ("ttl!=0" if r["old_nonzero"] else "?")
            arm = "keep" if tform(r["new_ttl"]) == F(r["event"].extra["old"], "header", "time_to_live") else "rewrite"
            rep.check(r["p1"] is True, "flush:deadline[%s,%s]" % (case, arm), "timestamp' + ttl' <= now + delay follows from the path's guards", "delayed flush, item %s, %s arm: it does not follow that the item is gone delay seconds after the flush (new TTL %s)" % (case, arm, short(r["new_ttl"], 100)), loc_s(r["event"].span))
            rep.check(r["p2"] is True, "flush:no-postponement[%s,%s]" % (case, arm), "an item's current expiry (possibly set by an earlier flush) is never postponed", "delayed flush, item %s, %s arm: the rewrite can postpone the item's current expiry (new TTL %s): a later flush with a later deadline undoes an earlier flush (flush(100) at t=50, flush(120) at t=60: the item survives t=150)" % (case, arm, short(r["new_ttl"], 100)), loc_s(r["event"].span))
    return rep


def r3(ctx):
    rep = Report("C08.R3", "flush wire + plumbing: expiration = body[0..4] iff extras_length = 4 else 0; handler passes it as the delay; rows 0x08/0x18", floor=6)
    f = ctx.facts
    for op, variant in ((0x08, "Flush"), (0x18, "FlushQuietly")):
        somes, _t = decoded_variant(ctx, op)
        rep.check(somes == [variant], "decode:%#04x" % op, "%#04x decodes to %s" % (op, variant), "opcode %#04x decodes to %s, the protocol says %s" % (op, somes, variant), safe_loc(f, CODEC + "::parse_request"))
        hm = dispatch.store_methods_of_variant(ctx, variant)
        rep.check(hm == {"flush"}, "handle:%s" % variant, "%s is dispatched to MemcStore::flush" % variant, "%s reaches MemcStore::%s" % (variant, sorted(hm or [])), safe_loc(f, HANDLER + "::handle_request"))
    pb = f.one(CODEC + "::parse_flush_request")
    from bufmodel import BUF_MODELS

    for extras, want in ((0, "zero"), (4, "read"), (8, "zero")):
        slf = dispatch.codec_self(0x08, header_fields={"extras_length": extras, "key_length": 0, "body_length": extras})
        paths = Interp(f, models=BUF_MODELS).run(pb, [slf, P("src")])
        gots = set()
        for p in paths:
            if dispatch.outcome_of(p.ret).startswith("Some:"):
                e = field_of(p.ret, "0", "0", "0", "expiration")
                gots.add("zero" if e == 0 else ("read" if isinstance(e, tuple) and e[0] == "bufread" and e[2] == 0 and e[3] == 4 else "other:" + short(e, 60)))
        got = want if gots == {want} else (sorted(gots - {want})[0] if gots - {want} else None)
        rep.check(got == want, "flush-extras[%d]" % extras, "extras_length %d -> expiration %s" % (extras, want), "flush frame with extras_length %d decodes expiration as %s (expected %s)" % (extras, got, want), pb.loc())
    for variant in ("Flush", "FlushQuietly"):
        hb, hpaths = dispatch.variant_store_paths(ctx, variant, "flush_request")
        oks = []
        for p in hpaths:
            calls = [e for e in p.events if e.kind == "call" and e.name.startswith(MEMC + "::")]
            oks.append(len(calls) == 1 and calls[0].name == MEMC + "::flush" and field_of(calls[0].args[1], "time_to_live") == F(P("flush_request"), "expiration") and not p.cut)
        ok = bool(oks) and all(oks)
        rep.check(ok, "handler:flush:plumbing" if variant == "Flush" else "handler:flush:plumbing[quiet]", "MemcStore::flush(meta{ttl <- request.expiration})", "a %s request does not reach MemcStore::flush exactly once with the request's expiration as the flush delay" % variant, hb.loc())
    mb = f.one(MEMC + "::flush")
    oks = []
    for p in Interp(f).run(mb, [P("self"), P("header")]):
        calls = [e for e in p.events if e.kind == "call" and e.name.startswith(CACHE + "::")]
        oks.append(len(calls) == 1 and calls[0].name == CACHE + "::flush" and tform(calls[0].args[1]) == P("header") and not p.cut)
    ok = bool(oks) and all(oks)
    rep.check(ok, "MemcStore::flush", "forwards to Cache::flush(header)", "MemcStore::flush does not forward to the store", mb.loc())
    return rep


def r4(ctx):
    rep = Report("C08.R4", "flush keeps no state: it writes nothing but map entries (items stored later cannot be affected); the policy layer forwards it", floor=2)
    f = ctx.facts
    fb = f.one(ms("flush"))
    paths = store_interp(f).run(fb, [P("self"), P("header")])
    bad = None
    for p in paths:
        for e in p.events:
            if e.kind == "write":
                tgt = tform(e.args[0])
                while isinstance(tgt, tuple) and tgt and tgt[0] in ("deref", "ref", "field"):
                    tgt = tgt[1]
                if isinstance(tgt, tuple) and tgt and tgt[0] in ("stored_any", "stored", "lookup"):
                    continue  # an in-place rewrite of a map entry (through &mut V): a map write, not store state
                bad = "writes %s" % short(e.args[0], 60)
            if e.kind == "call" and not e.name.startswith("core::num") and not e.name.startswith("std::cmp") and "saturating" not in e.name and "::min" not in e.name:
                bad = bad or None
    rep.check(bad is None, "MemoryStore::flush:stateless", "no field of the store is written by flush", "MemoryStore::flush %s: a flush leaves state behind that can affect items stored later" % bad, fb.loc())
    pb = f.one(rp("flush"))
    oks = []
    for p in Interp(f).run(pb, [P("self"), P("header")]):
        calls = [e for e in p.events if e.kind == "call" and e.name.startswith(CACHE + "::")]
        writes = [e for e in p.events if e.kind == "write"]
        oks.append(len(calls) == 1 and calls[0].name == CACHE + "::flush" and tform(calls[0].args[1]) == P("header") and not writes and not p.cut)
    ok = bool(oks) and all(oks)
    rep.check(ok, "RandomPolicy::flush", "policy flush = inner flush(header)", "RandomPolicy::flush is not a plain forward of the flush to the inner store", pb.loc())
    # a delete / flush has taken effect when it is acknowledged: nothing under the handler's delete and flush hands work to
    # another task, thread or queue (a flush executed later would hit items stored after it was acknowledged)
    import callgraph
    from rules.conntask import is_deferral

    cg = callgraph.get(ctx)
    for meth in ("flush", "delete"):
        hb, _hargs = dispatch.handler_body_args(ctx, meth, "request")
        w = cg.may_reach_ext(hb.path, is_deferral)
        rep.check(w is None, "handler:%s:executes-before-acknowledged" % meth, "the command has been carried out when the handler returns its response", "BinaryHandler::%s hands work to another task / thread (%s): the command is acknowledged before it has taken effect, so it can hit items stored after it" % (meth, " -> ".join(x.replace("memcrs::", "") for x in w) if w else ""), hb.loc())
    return rep


RULES = [("C08.R1", r1), ("C08.R2", r2), ("C08.R3", r3), ("C08.R4", r4)]
