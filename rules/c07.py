"""C07 — counters: incr/decr arithmetic, creation and error rules."""
from collections import OrderedDict

from rules.common import *  # noqa: F401,F403
from rules import dispatch
from rules.c06 import memc_paths, read_outcome, store_method_for_opcode, handler_method_of, decoded_variant
from rules.storefacts import field_of

LEVEL_TEXT = (
    "Static clause check: R1 dispatch rows (0x05/0x15 and 0x06/0x16 are each executed by one MemcStore entry — the public increment / decrement, or the method the handler calls instead with its constant arguments — loud and quiet alike, the two commands by different ones) and what selects "
    "the + resp. the saturating - computation (decided on that entry with its helpers inlined); R2 arithmetic shape (the increment must be computed by "
    "an operation that cannot trap: an overflow-checked + on two client-controlled u64 is a violation; decrement: "
    "delta > value -> 0, otherwise value - delta); R3 what is stored and returned, on every successful existing-key path (exactly one store; record.value <- to_string(result), "
    "DeltaResult.value <- the same result, the stored header is the fetched one with only cas taken from the request: the "
    "item's flags are kept); R4 creation rule over {hit,miss} x {expiration = 0xffffffff, other}; R5 non-numeric values "
    "give ArithOnNonNumeric and reach no store write; R6 wire layout of the 20-byte extras and the handler's "
    "delta/initial/expiration plumbing. Not decided: decimal formatting/parsing (std)."
)
ASSUMPTIONS = [
    "u64::to_string / str::parse::<u64> are std's decimal conversions",
    "bytes::{Buf,BytesMut} semantic table (analysis/bufmodel.py)",
]
DEV_ONLY = ("C07.R2",)  # the overflow assert exists only in a build with overflow checks


DELTA_NAMES = ("self", "header", "key", "delta")


def delta_entry(ctx, increment):
    """the MemcStore method (and its constant extra arguments) that executes an Increment resp. Decrement request"""
    return dispatch.store_entry(ctx, "Increment" if increment else "Decrement", DELTA_NAMES)


def delta_body(ctx, increment):
    return delta_entry(ctx, increment)[0]


def delta_paths(ctx, increment, seeds=None):
    """paths of the command-layer entry of incr / decr — the public MemcStore::increment / decrement, or whatever
    crate-visible method the handler calls instead, with its constant arguments (private helpers are inlined)"""
    key = "delta_paths:%s" % increment
    b, args, _c = delta_entry(ctx, increment)
    if seeds is not None:
        return b, Interp(ctx.facts).run(b, list(args), seeds=seeds)
    if key not in ctx._cache:
        ctx._cache[key] = (b, Interp(ctx.facts).run(b, list(args)))
    return ctx._cache[key]


def parsed_value_atom(p):
    """the u64 parsed from the stored value on this path (payload of parse's Ok)"""
    for e in p.events:
        if e.kind == "call" and e.name.endswith("::parse"):
            return ("field", ("as", e.result, "Ok"), "0")
    return None


def to_string_arg(p, ctxfrag=None):
    """argument of the to_string() that renders the new counter value on an existing-key path: the one whose
    argument is computed from the parsed stored value (wherever the code puts it: closure, helper or inline)"""
    v = parsed_value_atom(p)
    cands = [e for e in p.events if e.kind == "call" and e.name.endswith("to_string")]
    for e in cands:
        a = e.args[0]
        if v is not None and (v in atoms(a) or a == 0):
            return a
    return cands[-1].args[0] if cands else None


def r1(ctx):
    rep = Report("C07.R1", "dispatch: 0x05/0x15 -> MemcStore::increment, 0x06/0x16 -> decrement; increment adds, decrement subtracts", floor=10)
    f = ctx.facts
    rows = {0x05: ("Increment", "increment"), 0x15: ("IncrementQuiet", "increment"), 0x06: ("Decrement", "decrement"), 0x16: ("DecrementQuiet", "decrement")}
    for op, (variant, meth) in rows.items():
        somes, _t = decoded_variant(ctx, op)
        rep.check(somes == [variant], "decode:%#04x" % op, "%#04x decodes to %s" % (op, variant), "opcode %#04x decodes to %s, the protocol says %s" % (op, somes, variant), safe_loc(f, CODEC + "::parse_request"))
        # the quiet opcode is executed by the same store method with the same constant arguments as the loud one, and
        # increment and decrement by different ones; which of them adds is the direction check below
        loud = "Increment" if meth == "increment" else "Decrement"
        eb, _a, ec = dispatch.store_entry(ctx, variant, DELTA_NAMES)
        lb, _a2, lc = dispatch.store_entry(ctx, loud, DELTA_NAMES)
        ob, _a3, oc = dispatch.store_entry(ctx, "Decrement" if loud == "Increment" else "Increment", DELTA_NAMES)
        sig = lambda b_, c_: (b_.path, [repr(tform(x)) for x in c_])
        rep.check(sig(eb, ec) == sig(lb, lc) and sig(eb, ec) != sig(ob, oc), "handle:%s" % variant, "%s is executed by MemcStore::%s%s" % (variant, eb.name, "(.., %s)" % ", ".join(short(x, 30) for x in ec) if ec else ""), "request variant %s is executed by MemcStore::%s %s — %s" % (variant, eb.name, [short(x, 30) for x in ec], "not what executes %s" % loud if sig(eb, ec) != sig(lb, lc) else "the same as the opposite command"), safe_loc(f, HANDLER + "::handle_request"))
    for meth, flag in (("increment", 1), ("decrement", 0)):
        argn = "inc_request" if meth == "increment" else "dec_request"
        hb, hargs = dispatch.handler_body_args(ctx, meth, argn)
        I = Interp(f, policy=lambda body, args: "opaque" if body.path.startswith(MEMC + "::") else "inline")
        called = set()
        for p in I.run(hb, hargs):
            for e in p.events:
                if e.kind == "call" and e.name.startswith(MEMC + "::"):
                    called.add(e.name.split("::")[-1])
        want_m = delta_body(ctx, flag).name
        rep.check(called == {want_m}, "handler->store:%s" % meth, "the handler's %s path calls MemcStore::%s" % (meth, want_m), "the handler's %s path calls MemcStore::%s" % (meth, sorted(called)), hb.loc())
        # direction: the public method computes value (+) delta resp. value (-) delta on the existing-key path
        sb, paths = delta_paths(ctx, flag)
        dirs = set()
        for p in paths:
            oc, g = read_outcome(p)
            v = parsed_value_atom(p)
            a = to_string_arg(p)
            if oc != "hit" or v is None or a is None:
                continue
            dd = F(P("delta"), "delta")
            at = atoms(a)
            if any(isinstance(x, tuple) and x[0] == "call" and (x[1].endswith("wrapping_add") or x[1].endswith("saturating_add") or x[1].endswith("checked_add")) for x in at):
                dirs.add("+")
            elif any(isinstance(x, tuple) and x[0] == "call" and (x[1].endswith("saturating_sub") or x[1].endswith("wrapping_sub") or x[1].endswith("checked_sub")) for x in at):
                dirs.add("-")
            else:
                t = tform(a)
                if isinstance(t, tuple) and t and t[0] == "lin":
                    co = dict(t[1])
                    if co.get(dd) == 1 and co.get(v) == 1:
                        dirs.add("+")
                    elif co.get(dd) == -1 and co.get(v) == 1:
                        dirs.add("-")
                    else:
                        dirs.add("?")
                elif a == 0:
                    dirs.add("-")  # the clamp arm of a decrement
                else:
                    dirs.add("?")
        want = {"+"} if flag else {"-"}
        rep.check(dirs == want, "MemcStore::%s:direction" % meth, "existing-key result = value %s delta" % ("+" if flag else "-"), "MemcStore::%s computes its result in direction %s of the stored value and the delta (must be %s)" % (meth, sorted(dirs), sorted(want)[0]), sb.loc())
    return rep


def r2(ctx):
    rep = Report("C07.R2", "arithmetic shape: increment cannot trap (wrapping, not an overflow-checked +); decrement stores 0 when delta > value, else value - delta", floor=3)
    f = ctx.facts
    import callgraph

    cg = callgraph.get(ctx)
    b0 = delta_body(ctx, 1)
    under = sorted(x for x in cg.reachable([b0.path]) if x.startswith(MEMC + "::") and x in f.bodies)
    # (a) no overflow-asserted Add on non-constant operands anywhere under the command (its helpers and closures)
    n_add = 0
    for b in [f.bodies[x] for x in under]:
        rep.analysed(b)
        for bi, blk in enumerate(b.blocks):
            t = blk.term
            if t.k == "assert" and t.msg.get("kind") == "Overflow" and t.msg.get("op") == "Add":
                n_add += 1
                rep.bad("add_delta:checked-add", "the counter increment is an overflow-checked `+` on the stored value and the client's delta: for v+d >= 2^64 it panics in a build with overflow checks (and only wraps without them) — the property requires (v+d) mod 2^64", loc_s(t.span))
    # (b) increment arm: result = value (+) delta through a non-trapping op
    b, paths = delta_paths(ctx, 1)
    seen_inc = False
    for p in paths:
        oc, g = read_outcome(p)
        v = parsed_value_atom(p)
        a = to_string_arg(p)
        if oc != "hit" or v is None or a is None:
            continue
        seen_inc = True
        dd = F(P("delta"), "delta")
        at = atoms(a)
        wr = any(isinstance(x, tuple) and x[0] == "call" and x[1].endswith("wrapping_add") for x in at)
        ok = v in at and dd in at and wr
        if n_add == 0:
            rep.check(ok, "increment:wrapping-sum", "increment result = wrapping_add(value, delta)", "increment result is %s: not a wrapping sum of the parsed value and the delta" % short(a, 140), b.loc())
    if not seen_inc:
        rep.bad("increment:no-path", "cannot find the existing-key path of MemcStore::increment", b0.loc())
    # (c) decrement arm
    b, paths = delta_paths(ctx, 0)
    cases = {}
    for p in paths:
        oc, g = read_outcome(p)
        v = parsed_value_atom(p)
        a = to_string_arg(p)
        if oc != "hit" or v is None or a is None:
            continue
        dd = F(P("delta"), "delta")
        rel = None
        for c, truth, _s, _at in p.state.pc:
            if isinstance(c, tuple) and c[0] == "cmp" and {c[2], c[3]} == {dd, v}:
                op = c[1]
                l, r = c[2], c[3]
                # normalise to: is delta > value ?
                if op in ("Gt", "Le") and l == dd:
                    rel = truth if op == "Gt" else (not truth)
                elif op in ("Lt", "Ge") and l == v:
                    rel = truth if op == "Lt" else (not truth)
                elif op in ("Ge",) and l == dd:
                    rel = "ge:%s" % truth
                elif op in ("Lt", "Ge", "Gt", "Le"):
                    rel = "other:%s:%s" % (op, truth)
        cases[rel] = a
    rep.sample({"decrement arms": {str(k): short(v, 100) for k, v in cases.items()}})
    if True in cases and False in cases:
        rep.check(cases[True] == 0, "decrement[delta>value]", "delta > value -> 0", "decrement with delta > value stores %s (must be 0)" % short(cases[True], 80), b0.loc())
        a = cases[False]
        la = to_lin(a)
        vv = None
        for p in paths:
            vv = vv or parsed_value_atom(p)
        ok = la is not None and la[0].get(vv) == 1 and la[0].get(F(P("delta"), "delta")) == -1 and la[1] == 0 and len(la[0]) == 2
        rep.check(ok, "decrement[delta<=value]", "delta <= value -> value - delta", "decrement with delta <= value stores %s (must be value - delta)" % short(a, 100), b0.loc())
    elif list(cases) == [None] and isinstance(cases[None], tuple) and cases[None][0] == "call" and cases[None][1].endswith("saturating_sub"):
        vv = None
        for p in paths:
            vv = vv or parsed_value_atom(p)
        a = cases[None]
        rep.check(a[3] == (vv, F(P("delta"), "delta")), "decrement[saturating_sub]", "value.saturating_sub(delta) = max(value - delta, 0)", "decrement computes saturating_sub(%s): the operands must be (value, delta)" % ", ".join(short(x, 40) for x in a[3]), b0.loc())
    else:
        rep.bad("decrement:shape", "cannot evaluate: the decrement arm is not a case split on order(delta, value): %s" % sorted(map(str, cases)), b0.loc())
    return rep


def r3(ctx):
    rep = Report("C07.R3", "stored value <- to_string(result); returned value <- the same result; stored header = fetched header with only cas from the request (flags kept); response value <- DeltaResult.value", floor=6)
    f = ctx.facts
    for inc in (1, 0):
        b, paths = delta_paths(ctx, inc)
        nm = "incr" if inc else "decr"
        n = 0
        res = OrderedDict()  # key -> (ok, what_ok, what_bad): every successful existing-key path must satisfy each clause

        def clause(ok, key, what_ok, what_bad):
            prev = res.get(key)
            if prev is None or (prev[0] and not ok):
                res[key] = (ok, what_ok, what_bad)

        for p in paths:
            oc, g = read_outcome(p)
            sets = [e for e in p.events if e.kind == "call" and e.name == CACHE + "::set"]
            if oc != "hit" or variant_of(p.ret)[0] != "Ok" or p.cut:
                continue
            # the command answers success on an existing numeric item: the new text has been stored, exactly once
            clause(len(sets) == 1, "%s:success-stores-once" % nm, "a successful incr/decr on an existing item stores the result exactly once", "a successful incr/decr on an existing item performs %d stores (must be 1): the item does not hold the decimal text of the returned number afterwards" % len(sets))
            if len(sets) != 1:
                continue
            n += 1
            a = to_string_arg(p)
            rec = sets[0].args[2]
            fetched = ("field", ("as", g.result, "Ok"), "0")
            val = field_of(rec, "value")
            ts = [x for x in atoms(val) if isinstance(x, tuple) and x[0] == "call" and x[1].endswith("to_string")]
            val_ok = len(ts) >= 1 and any(tform(a) in x[3] for x in ts)
            clause(val_ok, "%s:stored-value" % nm, "record.value <- Bytes::from(result.to_string())", "the stored counter value is %s, not the decimal text of the result" % short(val, 120))
            ret_val = field_of(variant_of(p.ret)[1], "value")
            clause(tform(ret_val) == tform(a), "%s:returned-value" % nm, "DeltaResult.value <- the stored result", "the returned value %s is not the stored result %s" % (short(ret_val, 80), short(a, 80)))
            hdr = field_of(rec, "header")
            if isinstance(hdr, Struct):
                hdr_ok = hdr.base == ("field", fetched, "header") and set(hdr.fields) <= {"cas"}
            else:
                hdr_ok = hdr == ("field", fetched, "header")
            clause(hdr_ok, "%s:header-kept" % nm, "stored header = fetched header (+ request cas)", "incr/decr replaces the stored item's header by %s: the item's flags become the request's opaque and its TTL the request's expiration (set k \"5\" flags=7; incr k opaque=0xABAD -> get k flags=0xABAD)" % short(hdr, 100))
            clause(isinstance(rec, Struct) and rec.base == fetched, "%s:record-is-fetched" % nm, "the fetched record is updated and stored", "incr/decr stores %s instead of the fetched record" % short(rec, 100))
        for key, (ok, wo, wb) in res.items():
            rep.check(ok, key, wo, wb, b.loc())
        if n == 0:
            rep.bad("%s:no-success-path" % nm, "cannot find the existing-key success path of the counter command", b.loc())
    # handler: response value <- delta_result.value
    for meth, argn in (("increment", "inc_request"), ("decrement", "dec_request")):
        hb, hargs = dispatch.handler_body_args(ctx, meth, argn)
        I = Interp(f, policy=lambda body, args: "opaque" if body.path.startswith(MEMC + "::") else "inline")
        ok = False
        for p in I.run(hb, hargs):
            calls = [e for e in p.events if e.kind == "call" and e.name.startswith(MEMC + "::")]
            if len(calls) == 1 and d2(p, calls[0].result) == 0:
                v = field_of(p.ret, "0", "value")
                ok = tform(v) == ("field", ("field", ("as", calls[0].result, "Ok"), "0"), "value")
                var = p.ret.variant if isinstance(p.ret, Struct) else None
                want = "Increment" if meth == "increment" else "Decrement"
                rep.check(var == want, "handler:%s:variant" % meth, "response variant %s" % want, "BinaryHandler::%s answers with a %s response" % (meth, var), hb.loc())
        rep.check(ok, "handler:%s:value" % meth, "response.value <- DeltaResult.value", "BinaryHandler::%s does not put the store's result value into the response" % meth, hb.loc())
    return rep


def r4(ctx):
    rep = Report("C07.R4", "creation rule: miss and expiration != 0xffffffff -> set(initial value, ttl = expiration); miss and expiration = 0xffffffff -> NotFound, nothing stored", floor=4)
    f = ctx.facts
    ttl = F(P("header"), "time_to_live")
    for inc in (1, 0):
        nm = "incr" if inc else "decr"
        b = delta_body(ctx, inc)
        for case in ("exp=0xffffffff", "exp!=0xffffffff"):
            def seeds(st, case=case):
                if case == "exp=0xffffffff":
                    assume(st, {ttl: 1}, eq=0xFFFFFFFF)
                else:
                    assume(st, {ttl: 1}, lo=0, hi=0xFFFFFFFE)

            _b, paths = delta_paths(ctx, inc, seeds=seeds)
            rep.evaluations += len(paths)
            found = False
            for p in paths:
                oc, g = read_outcome(p)
                if oc != "miss":
                    continue
                found = True
                sets = [e for e in p.events if e.kind == "call" and e.name == CACHE + "::set"]
                k = "%s[miss,%s]" % (nm, case)
                if case == "exp=0xffffffff":
                    rep.check(err_name(p.ret) == "NotFound" and not sets, k, "NotFound, nothing created", "incr/decr on an absent key with expiration 0xffffffff: returns %s with %d sets (must be NotFound and create nothing)" % (short(p.ret, 80), len(sets)), b.loc())
                else:
                    ok = len(sets) == 1
                    if ok:
                        rec = sets[0].args[2]
                        val = field_of(rec, "value")
                        okv = any(isinstance(x, tuple) and x[0] == "call" and x[1].endswith("to_string") and x[3] == (F(P("delta"), "value"),) for x in atoms(val))
                        okt = field_of(rec, "header", "time_to_live") == ttl
                        okk = P("key") in atoms(sets[0].args[1])
                        var, pl = variant_of(p.ret)
                        okr = True
                        if var == "Ok":
                            okr = field_of(pl, "value") == F(P("delta"), "value")
                        ok = okv and okt and okk and okr
                        rep.check(ok, k, "creates the item with the initial value and ttl = expiration", "incr/decr on an absent key creates %s (value must be the decimal text of the *initial* value, ttl the request's expiration, result value the initial value)" % short(rec, 160), b.loc())
                    else:
                        rep.bad(k, "incr/decr on an absent key with a normal expiration performs %d sets (must create the item)" % len(sets), b.loc())
            if not found:
                rep.bad("%s[miss,%s]:missing" % (nm, case), "no path for an absent key", b.loc())
    return rep


def r5(ctx):
    rep = Report("C07.R5", "non-numeric stored value -> ArithOnNonNumeric, nothing written", floor=2)
    for inc in (1, 0):
        b, paths = delta_paths(ctx, inc)
        nm = "incr" if inc else "decr"
        kinds = {}
        for p in paths:
            oc, g = read_outcome(p)
            if oc != "hit":
                continue
            bad_utf8 = bad_parse = False
            for e in p.events:
                if e.kind == "call" and e.name.endswith("from_utf8") and d2(p, e.result) == 1:
                    bad_utf8 = True
                if e.kind == "call" and e.name.endswith("::parse") and d2(p, e.result) == 1:
                    bad_parse = True
            if not (bad_utf8 or bad_parse):
                decided = any(e.kind == "call" and e.name.endswith("from_utf8") for e in p.events) and any(e.kind == "call" and e.name.endswith("::parse") for e in p.events)
                if not decided and not p.cut:
                    rep.bad("%s:hit-answers-before-conversion" % nm, "a path of incr/decr on a present item returns %s without having decided whether the stored value is a decimal u64 (no UTF-8 check / u64 parse on the path): a non-numeric value is then not answered with 'non-numeric value' for the requests taking this path (e.g. a CAS test placed in front of the parser turns it into 'key exists')" % short(p.ret, 60), b.loc())
                if err_name(p.ret) == "ArithOnNonNumeric":
                    rep.bad("%s:non-numeric-without-failed-conversion" % nm, "incr/decr answers 'non-numeric value' on a path where neither the UTF-8 check nor the u64 parse failed (an extra rejection in front of the parser: a value that IS a decimal u64 — e.g. zero-padded beyond 20 digits — is refused)", b.loc())
                continue
            sets = [e for e in p.events if e.kind == "call" and e.name.startswith(CACHE + "::") and e.name.split("::")[-1] in ("set", "delete", "remove")]
            ok = err_name(p.ret) == "ArithOnNonNumeric" and not sets
            kinds.setdefault("utf8" if bad_utf8 else "parse", []).append((ok, p))
        for kind in ("utf8", "parse"):
            lst = kinds.get(kind)
            if not lst:
                rep.bad("%s[%s]:missing" % (nm, kind), "no path for a value that is not %s" % ("UTF-8" if kind == "utf8" else "a decimal u64"), b.loc())
                continue
            ok = all(o for o, _ in lst)
            rep.check(ok, "%s[non-numeric:%s]" % (nm, kind), "ArithOnNonNumeric, item untouched", "a non-numeric value (%s failure) gives %s / reaches a store write" % (kind, short(lst[0][1].ret, 80)), b.loc())
    return rep


def r6(ctx):
    rep = Report("C07.R6", "wire layout: delta = body[0..8], initial = body[8..16], expiration = body[16..20], key after the extras; handler: delta<-delta, value<-initial, expiration -> Meta", floor=6)
    f = ctx.facts
    table = dispatch.decoder_table(ctx)
    HF = F(P("self"), "header")
    for op in (0x05, 0x15, 0x06, 0x16):
        ok = False
        why = "no decoded request"
        for variant, ps in table[op]["paths"].items():
            for p in ps:
                req = field_of(p.ret, "0", "0", "0")
                d, i, e, k = (field_of(req, n) for n in ("delta", "initial", "expiration", "key"))
                def rd(x, off, w):
                    return isinstance(x, tuple) and x[0] == "bufread" and x[2] == off and x[3] == w
                ok = rd(d, 0, 8) and rd(i, 8, 8) and rd(e, 16, 4) and isinstance(k, tuple) and k[0] == "bufslice" and k[2] == 20 and k[3] == F(HF, "key_length") and len({d[1], i[1], e[1], k[1]}) == 1
                why = "delta=%s initial=%s expiration=%s key=%s" % (short(d, 60), short(i, 60), short(e, 60), short(k, 80))
        rep.check(ok, "layout:%#04x" % op, "delta@0(8) initial@8(8) expiration@16(4) key@20", "incr/decr frame %#04x is decoded as %s" % (op, why), safe_loc(f, CODEC + "::parse_inc_dec_request"))
    for meth, argn in (("increment", "inc_request"), ("decrement", "dec_request")):
        hb, hargs = dispatch.handler_body_args(ctx, meth, argn)
        I = Interp(f, policy=lambda body, args: "opaque" if body.path.startswith(MEMC + "::") else "inline")
        ok = False
        for p in I.run(hb, hargs):
            for e in p.events:
                if e.kind == "call" and e.name.startswith(MEMC + "::"):
                    meta, key, dp = e.args[1], e.args[2], e.args[3]
                    ok = (
                        field_of(dp, "delta") == F(P(argn), "delta")
                        and field_of(dp, "value") == F(P(argn), "initial")
                        and tform(key) == F(P(argn), "key")
                        and field_of(meta, "time_to_live") == F(P(argn), "expiration")
                        and field_of(meta, "cas") == F(P(argn), "header", "cas")
                    )
        rep.check(ok, "handler:%s:plumbing" % meth, "delta<-delta, value<-initial, ttl<-expiration, cas<-header.cas, key<-key", "BinaryHandler::%s mixes up delta/initial/expiration/cas/key when calling the store" % meth, hb.loc())
    return rep


RULES = [("C07.R1", r1), ("C07.R2", r2), ("C07.R3", r3), ("C07.R4", r4), ("C07.R5", r5), ("C07.R6", r6)]
