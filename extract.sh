#!/bin/sh
# usage: extract.sh <repo-dir> <out-facts-dir> <target-dir> [extra RUSTFLAGS]
# Runs the fact extractor over the workspace members of <repo-dir>.
set -e
REPO="$1"; OUT="$2"; TGT="$3"; EXTRA="$4"; PKG="${5:-memcrs}"
HERE="$(cd "$(dirname "$0")" && pwd)"
DRV="$HERE/driver/target/release/memc-facts"
[ -x "$DRV" ] || { echo "driver not built: run ./setup.sh" >&2; exit 2; }
mkdir -p "$OUT" "$TGT"
# cargo's freshness cache would skip the wrapper: forget the members' fingerprints
PKGU=$(echo "$PKG" | tr - _)
rm -rf "$TGT"/debug/.fingerprint/"$PKG"-* "$TGT"/debug/.fingerprint/"$PKGU"-* "$TGT"/debug/incremental 2>/dev/null || true
NONCE="$(date +%s%N)-$$"
echo "$NONCE" > "$OUT/nonce"
rm -f "$OUT"/*.json
cd "$REPO"
LD_LIBRARY_PATH="$(rustc +nightly --print sysroot)/lib" \
MEMC_FACTS_DIR="$OUT" MEMC_FACTS_NONCE="$NONCE" \
CARGO_NET_OFFLINE=true \
RUSTFLAGS="-Zmir-opt-level=0 -Awarnings $EXTRA" \
RUSTC_WORKSPACE_WRAPPER="$DRV" CARGO_TARGET_DIR="$TGT" \
cargo +nightly check --offline --bins --lib >"$OUT/cargo.log" 2>&1 || { cat "$OUT/cargo.log" | tail -40 >&2; exit 3; }
