#!/bin/sh
# Builds the fact-extractor driver and warms the dependency caches (offline).
set -e
cd "$(dirname "$0")"
export CARGO_NET_OFFLINE=true
(cd driver && cargo +nightly build --release --offline 2>&1 | tail -2)
mkdir -p build evidence/violations
python3 - <<'PY'
import sys
sys.path.insert(0, "analysis")
import extract
print("facts:", extract.extract(config="dev"))
print("fixtures:", extract.extract_fixtures())
PY
echo "setup ok"
