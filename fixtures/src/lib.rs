//! Positive fixtures: tiny programs that MUST be flagged by the zero-count rules
//! (a rule whose expected count is zero passes vacuously forever unless something
//! shows it can match). Compiled by the same driver as /repo.
use bytes::Bytes;
use dashmap::DashMap;

pub struct Store {
    pub memory: DashMap<Bytes, u64>,
}

impl Store {
    /// C16.R1: a second map call while a guard of the same map is alive
    pub fn guard_reentry(&self, key: &Bytes) -> Option<u64> {
        match self.memory.get(key) {
            Some(record) => {
                let v = *record;
                // BUG (intended): `record` still holds the shard read lock
                self.memory.remove(key);
                Some(v)
            }
            None => None,
        }
    }

    /// C16.R1 negative twin: guard released before the second call
    pub fn guard_released(&self, key: &Bytes) -> Option<u64> {
        let v = match self.memory.get(key) {
            Some(record) => Some(*record),
            None => None,
        };
        if v.is_some() {
            self.memory.remove(key);
        }
        v
    }

    /// C16.R1: iterator alive while removing
    pub fn iter_reentry(&self) {
        for r in self.memory.iter() {
            self.memory.remove(r.key());
        }
    }

    /// C16.R2: closure run under the lock calls back into the map
    pub fn closure_reentry(&self, key: &Bytes) {
        self.memory.remove_if(key, |_k, _v| self.memory.len() > 1);
    }

    /// C16.R3: guard kept across an await
    pub async fn guard_across_await(&self, key: &Bytes) -> u64 {
        let g = self.memory.get(key);
        tokio::task::yield_now().await;
        match g {
            Some(r) => *r,
            None => 0,
        }
    }

    /// C03.R1: check-then-act (lookup, lock released, then insert)
    pub fn check_then_insert(&self, key: Bytes, v: u64) -> bool {
        match self.memory.get_mut(&key) {
            Some(_) => false,
            None => {
                self.memory.insert(key, v);
                true
            }
        }
    }

    /// C16.R4: blocking call in an async body
    pub async fn blocking_in_async(&self) {
        std::thread::sleep(std::time::Duration::from_millis(1));
    }
}
