use bytes::{BufMut, Bytes, BytesMut};
use memcrs::cache::cache::{Cache, Record};
use memcrs::memcache::random_policy::RandomPolicy;
use memcrs::memory_store::store::MemoryStore;
use memcrs::protocol::binary_connection::MemcacheBinaryConnection;
use memcrs::server::timer::SystemTimer;
use std::sync::Arc;
use tokio::io::AsyncWriteExt;

#[test] fn d11_drift() {
    let ms = Arc::new(MemoryStore::new(Arc::new(SystemTimer::new())));
    let p = RandomPolicy::new(ms.clone(), 1000);
    p.set(Bytes::from("other"), Record::new(Bytes::from("0123456789"), 0, 0, 0)).unwrap();
    let mut lost_at = None;
    for i in 0..60 {
        p.set(Bytes::from("k"), Record::new(Bytes::from("0123456789"), 0, 0, 0)).unwrap();
        if p.get(&Bytes::from("other")).is_err() { lost_at = Some(i); break; }
    }
    println!("D11: unrelated live key lost after {:?} overwrites (stored bytes ~ 2*{} << 1000)", lost_at, Record::new(Bytes::from("0123456789"),0,0,0).len());
    assert!(lost_at.is_none());
}

fn frame(op: u8, extras: &[u8], key: &[u8], val: &[u8]) -> Vec<u8> {
    let mut b = BytesMut::new();
    b.put_u8(0x80); b.put_u8(op); b.put_u16(key.len() as u16); b.put_u8(extras.len() as u8); b.put_u8(0); b.put_u16(0);
    b.put_u32((extras.len()+key.len()+val.len()) as u32); b.put_u32(0); b.put_u64(0);
    b.put_slice(extras); b.put_slice(key); b.put_slice(val); b.to_vec()
}

#[tokio::test] async fn d8_skip() {
    let l = tokio::net::TcpListener::bind("127.0.0.1:0").await.unwrap();
    let addr = l.local_addr().unwrap();
    let mut c = tokio::net::TcpStream::connect(addr).await.unwrap();
    let (s, _) = l.accept().await.unwrap();
    // limit 1024; oversized set (body 2000) fully sent together with a following noop, in one write
    let mut bytes = frame(1, &[0u8;8], b"k", &vec![b'x'; 2000-9]);
    bytes.extend_from_slice(&frame(0x0a, &[], &[], &[]));
    c.write_all(&bytes).await.unwrap();
    tokio::time::sleep(std::time::Duration::from_millis(200)).await;
    let mut conn = MemcacheBinaryConnection::new(s, 1024);
    let h = tokio::spawn(async move {
        let a = conn.read_frame().await; println!("D8: first frame: {:?}", a.as_ref().map(|x| x.as_ref().map(|r| r.get_header().clone())));
        let b = tokio::time::timeout(std::time::Duration::from_secs(2), conn.read_frame()).await; println!("D8: second frame: {:?}", b.map(|r| r.map(|x| x.map(|r| r.get_header().clone()))));
    });
    println!("D8: task result: {:?}", h.await.map_err(|e| e.to_string()));
}
