use bytes::{BufMut, BytesMut};
use memcrs::memcache::store::MemcStore;
use memcrs::memcache_server::handler::BinaryHandler;
use memcrs::memory_store::store::MemoryStore;
use memcrs::protocol::binary_codec::MemcacheBinaryCodec;
use memcrs::server::timer::Timer;
use std::sync::atomic::{AtomicU64, Ordering};
use std::sync::Arc;
use tokio_util::codec::{Decoder, Encoder};

struct T(AtomicU64);
impl Timer for T { fn timestamp(&self) -> u64 { self.0.load(Ordering::SeqCst) } }

struct Srv { t: Arc<T>, h: BinaryHandler, c: MemcacheBinaryCodec, buf: BytesMut }
#[derive(Debug)]
struct Resp { opcode: u8, status: u16, cas: u64, extras: Vec<u8>, key: Vec<u8>, value: Vec<u8> }

fn srv() -> Srv {
    let t = Arc::new(T(AtomicU64::new(0)));
    let ms = Arc::new(MemoryStore::new(t.clone()));
    Srv { t, h: BinaryHandler::new(Arc::new(MemcStore::new(ms))), c: MemcacheBinaryCodec::new(1024*1024), buf: BytesMut::new() }
}
fn frame(op: u8, cas: u64, opaque: u32, extras: &[u8], key: &[u8], val: &[u8]) -> Vec<u8> {
    let mut b = BytesMut::new();
    b.put_u8(0x80); b.put_u8(op); b.put_u16(key.len() as u16); b.put_u8(extras.len() as u8); b.put_u8(0); b.put_u16(0);
    b.put_u32((extras.len()+key.len()+val.len()) as u32); b.put_u32(opaque); b.put_u64(cas);
    b.put_slice(extras); b.put_slice(key); b.put_slice(val); b.to_vec()
}
impl Srv {
    // feed bytes, run every decoded request, return parsed responses
    fn feed(&mut self, bytes: &[u8]) -> Vec<Resp> {
        self.buf.put_slice(bytes);
        let mut out = vec![];
        loop {
            match self.c.decode(&mut self.buf) {
                Ok(Some(req)) => { if let Some(r) = self.h.handle_request(req) { let mut o = BytesMut::new(); self.c.encode(r, &mut o).unwrap(); out.push(parse(&o)); } }
                Ok(None) => break,
                Err(e) => { println!("decode error: {e}"); break }
            }
        }
        out
    }
}
fn parse(o: &[u8]) -> Resp {
    let kl = u16::from_be_bytes([o[2], o[3]]) as usize; let el = o[4] as usize;
    let bl = u32::from_be_bytes([o[8],o[9],o[10],o[11]]) as usize;
    assert_eq!(o.len(), 24 + bl);
    Resp { opcode: o[1], status: u16::from_be_bytes([o[6], o[7]]), cas: u64::from_be_bytes(o[16..24].try_into().unwrap()),
        extras: o[24..24+el].to_vec(), key: o[24+el..24+el+kl].to_vec(), value: o[24+el+kl..].to_vec() }
}
fn set_extras(flags: u32, ttl: u32) -> Vec<u8> { let mut e = flags.to_be_bytes().to_vec(); e.extend_from_slice(&ttl.to_be_bytes()); e }
fn incr_extras(d: u64, i: u64, e: u32) -> Vec<u8> { let mut v = d.to_be_bytes().to_vec(); v.extend_from_slice(&i.to_be_bytes()); v.extend_from_slice(&e.to_be_bytes()); v }

#[test] fn d1_cas_reuse() {
    let mut s = srv();
    let r = s.feed(&frame(1, 0, 0, &set_extras(0,0), b"k", b"v1")); let c1 = r[0].cas;
    let r = s.feed(&frame(1, c1, 0, &set_extras(0,0), b"k", b"v2")); let c2 = r[0].cas;
    let g = s.feed(&frame(0, 0, 0, &[], b"k", &[])); assert_eq!(g[0].cas, c2);
    let r = s.feed(&frame(1, 0, 0, &set_extras(0,0), b"k", b"v3")); let c3 = r[0].cas;
    println!("D1: c1={c1} c2={c2} c3={c3}");
    let r = s.feed(&frame(1, c2, 0, &set_extras(0,0), b"k", b"stale-writer"));
    println!("D1: stale cas-set status={} (0 = lost update)", r[0].status);
    assert!(c3 != c2, "CAS token reused within one lifetime");
}
#[test] fn d4_flush_extends() {
    let mut s = srv();
    s.feed(&frame(1, 0, 0, &set_extras(0,5), b"k", b"v"));
    s.t.0.store(1, Ordering::SeqCst);
    s.feed(&frame(8, 0, 0, &100u32.to_be_bytes(), &[], &[]));
    s.t.0.store(50, Ordering::SeqCst);
    let g = s.feed(&frame(0, 0, 0, &[], b"k", &[]));
    println!("D4: get at t=50 status={}", g[0].status);
    assert_eq!(g[0].status, 1, "item with ttl 5 alive at t=50 after delayed flush");
}
#[test] fn d5_incr_flags() {
    let mut s = srv();
    s.feed(&frame(1, 0, 0, &set_extras(7,0), b"k", b"5"));
    s.feed(&frame(5, 0, 0xABAD, &incr_extras(1,0,0), b"k", &[]));
    let g = s.feed(&frame(0, 0, 0, &[], b"k", &[]));
    println!("D5: flags after incr = {:?} value={:?}", g[0].extras, g[0].value);
    assert_eq!(g[0].extras, 7u32.to_be_bytes().to_vec());
}
#[test] fn d6_incr_overflow() {
    let mut s = srv();
    s.feed(&frame(1, 0, 0, &set_extras(0,0), b"k", b"18446744073709551615"));
    let r = s.feed(&frame(5, 0, 0, &incr_extras(1,0,0), b"k", &[]));
    println!("D6: {:?}", r);
}
#[test] fn d7_cas_max() {
    let mut s = srv();
    let r = s.feed(&frame(1, u64::MAX, 0, &set_extras(0,0), b"k", b"v"));
    println!("D7: {:?}", r);
}
#[test] fn d9_smuggle() {
    let mut s = srv();
    let inner = frame(1, 0, 0, &set_extras(0,0), b"smuggled", b"x");
    let mut outer = frame(0x0a, 0, 1, &[], &[], &[]);
    outer[8..12].copy_from_slice(&(inner.len() as u32).to_be_bytes()); // noop announcing a body
    outer.extend_from_slice(&inner);
    let r = s.feed(&outer);
    println!("D9: responses to ONE frame: {:?}", r.iter().map(|x| x.opcode).collect::<Vec<_>>());
    let g = s.feed(&frame(0, 0, 0, &[], b"smuggled", &[]));
    println!("D9: get smuggled status={}", g[0].status);
    assert_eq!(g[0].status, 1, "body of a noop frame was executed as a request");
}
#[test] fn d10_touch() {
    let mut s = srv();
    let mut b = frame(0x1c, 0, 9, &60u32.to_be_bytes(), b"k", &[]);
    b.extend_from_slice(&frame(0x0a, 0, 10, &[], &[], &[]));
    let r = s.feed(&b);
    println!("D10: responses to touch+noop: {:?}", r);
    assert!(!r.is_empty(), "no response at all to touch; following noop not served");
}
