// Triage replays for D2 (lazy expiry undoes an acknowledged set) and D3 (two CAS-sets
// with the same token on an absent key both succeed). Not a check; see triage/README.md.
use bytes::Bytes;
use memcrs::cache::cache::{impl_details::CacheImplDetails, Cache, CacheMetaData, CachePredicate, CacheReadOnlyView, KeyType, Record, RemoveIfResult, SetStatus};
use memcrs::cache::error::Result;
use memcrs::memory_store::store::MemoryStore;
use memcrs::server::timer::Timer;
use std::sync::atomic::{AtomicU64, Ordering};
use std::sync::{Arc, Barrier};

struct T(AtomicU64);
impl Timer for T { fn timestamp(&self) -> u64 { self.0.load(Ordering::SeqCst) } }

// A Cache that behaves exactly like MemoryStore, except that between the two steps of the
// default Cache::get (get_by_key, then check_if_expired) another client's set is executed.
struct Interleave { inner: MemoryStore }
impl CacheImplDetails for Interleave {
    fn get_by_key(&self, key: &KeyType) -> Result<Record> { self.inner.get_by_key(key) }
    fn check_if_expired(&self, key: &KeyType, record: &Record) -> bool {
        // "client 2": an acknowledged set of a fresh, non-expiring value
        let st = self.inner.set(key.clone(), Record::new(Bytes::from("fresh"), 0, 0, 0));
        assert!(st.is_ok());
        self.inner.check_if_expired(key, record)
    }
}
impl Cache for Interleave {
    fn set(&self, key: KeyType, record: Record) -> Result<SetStatus> { self.inner.set(key, record) }
    fn delete(&self, key: KeyType, header: CacheMetaData) -> Result<Record> { self.inner.delete(key, header) }
    fn flush(&self, header: CacheMetaData) { self.inner.flush(header) }
    fn len(&self) -> usize { self.inner.len() }
    fn is_empty(&self) -> bool { self.inner.is_empty() }
    fn as_read_only(&self) -> Box<dyn CacheReadOnlyView> { self.inner.as_read_only() }
    fn remove_if(&self, f: &mut CachePredicate) -> RemoveIfResult { self.inner.remove_if(f) }
    fn remove(&self, key: &KeyType) -> Option<(KeyType, Record)> { self.inner.remove(key) }
}

#[test]
fn d2_lazy_expiry_undoes_acknowledged_set() {
    let t = Arc::new(T(AtomicU64::new(0)));
    let s = Interleave { inner: MemoryStore::new(t.clone()) };
    let k = Bytes::from("k");
    s.set(k.clone(), Record::new(Bytes::from("old"), 0, 0, 5)).unwrap();
    t.0.store(10, Ordering::SeqCst); // "old" is expired now
    let _ = s.get(&k); // client 1 collects the expired predecessor; client 2's set lands in between
    // client 2's set was acknowledged and nothing happened since: it must be retrievable
    let after = s.inner.get(&k);
    println!("D2: after the racing get, get(k) = {:?}", after.as_ref().map(|r| r.len()));
    assert!(after.is_ok(), "acknowledged set was undone by the concurrent retrieval");
}

#[test]
fn d3_two_cas_sets_same_token_absent_key() {
    let t = Arc::new(T(AtomicU64::new(0)));
    let mut doubles = 0u32;
    for round in 0..20000u32 {
        let s = Arc::new(MemoryStore::new(t.clone()));
        let k = Bytes::from(format!("k{}", round));
        let b = Arc::new(Barrier::new(2));
        let hs: Vec<_> = (0..2).map(|i| {
            let (s, k, b) = (s.clone(), k.clone(), b.clone());
            std::thread::spawn(move || { b.wait(); s.set(k, Record::new(Bytes::from(vec![i as u8]), 7, 0, 0)).is_ok() })
        }).collect();
        let oks = hs.into_iter().map(|h| h.join().unwrap()).filter(|x| *x).count();
        if oks == 2 { doubles += 1; }
    }
    println!("D3: rounds with both CAS-sets (same token 7) succeeding: {}", doubles);
    assert_eq!(doubles, 0, "two concurrent CAS-sets carrying the same CAS both succeeded");
}

#[test]
fn c02_absent_key_cas_token_can_collide_with_counter() {
    // known finding C02.R3 set[cas!=0,absent]: the token of a CAS-store on an absent key is
    // client cas + 1 (pinned by the repo's own test if_cas_defined_it_should_be_returned)
    let t = Arc::new(T(AtomicU64::new(0)));
    let s = MemoryStore::new(t.clone());
    for i in 0..4 { s.set(Bytes::from(format!("other{}", i)), Record::new(Bytes::from("x"), 0, 0, 0)).unwrap(); } // counter now 5
    let k = Bytes::from("k");
    let c1 = s.set(k.clone(), Record::new(Bytes::from("v1"), 4, 0, 0)).unwrap().cas; // absent key, cas=4 -> 5
    let seen_by_a = c1;
    let c2 = s.set(k.clone(), Record::new(Bytes::from("v2"), 0, 0, 0)).unwrap().cas; // plain set -> counter issues 5
    println!("C02 residual: c1={} c2={} a_holds={}", c1, c2, seen_by_a);
    let stale = s.set(k.clone(), Record::new(Bytes::from("v3"), seen_by_a, 0, 0));
    assert!(stale.is_err(), "client A overwrote v2 with the token it got for v1");
}

// ---- C04 known findings (D12): get-then-set commands, replayed deterministically through an interposed Cache
// whose `get` lets "the other client" run one complete command before returning.
use std::sync::Mutex;
struct Between { inner: Arc<MemoryStore>, hook: Mutex<Option<Box<dyn FnOnce(&Arc<MemoryStore>) + Send>>> }
impl CacheImplDetails for Between {
    fn get_by_key(&self, key: &KeyType) -> Result<Record> { self.inner.get_by_key(key) }
    fn check_if_expired(&self, key: &KeyType, record: &Record) -> bool { self.inner.check_if_expired(key, record) }
}
impl Cache for Between {
    fn get(&self, key: &KeyType) -> Result<Record> {
        let r = self.inner.get(key);
        if let Some(h) = self.hook.lock().unwrap().take() { h(&self.inner); } // the other client runs now
        r
    }
    fn set(&self, key: KeyType, record: Record) -> Result<SetStatus> { self.inner.set(key, record) }
    fn delete(&self, key: KeyType, header: CacheMetaData) -> Result<Record> { self.inner.delete(key, header) }
    fn flush(&self, header: CacheMetaData) { self.inner.flush(header) }
    fn len(&self) -> usize { self.inner.len() }
    fn is_empty(&self) -> bool { self.inner.is_empty() }
    fn as_read_only(&self) -> Box<dyn CacheReadOnlyView> { self.inner.as_read_only() }
    fn remove_if(&self, f: &mut CachePredicate) -> RemoveIfResult { self.inner.remove_if(f) }
    fn remove(&self, key: &KeyType) -> Option<(KeyType, Record)> { self.inner.remove(key) }
}

#[test]
fn c04_two_adds_of_an_absent_key_both_succeed_and_incr_loses_an_update() {
    use memcrs::memcache::store::MemcStore;
    let t = Arc::new(T(AtomicU64::new(0)));
    let inner = Arc::new(MemoryStore::new(t.clone()));
    let k = Bytes::from("k");
    // client B's add runs between client A's presence test and A's set
    let kb = k.clone();
    let b = Between { inner: inner.clone(), hook: Mutex::new(Some(Box::new(move |s: &Arc<MemoryStore>| {
        let other = MemcStore::new(s.clone());
        assert!(other.add(kb.clone(), Record::new(Bytes::from("B"), 0, 0, 0)).is_ok());
    }))) };
    let a = MemcStore::new(Arc::new(b));
    let ra = a.add(k.clone(), Record::new(Bytes::from("A"), 0, 0, 0));
    println!("C04 add/add: A's add after B's add succeeded -> {:?}", ra.is_ok());
    // append: B's append lands between A's read and A's write -> B's suffix is lost
    let c = Bytes::from("c");
    inner.set(c.clone(), Record::new(Bytes::from("x"), 0, 0, 0)).unwrap();
    let cb = c.clone();
    let b2 = Between { inner: inner.clone(), hook: Mutex::new(Some(Box::new(move |s: &Arc<MemoryStore>| {
        let other = MemcStore::new(s.clone());
        other.append(cb.clone(), Record::new(Bytes::from("B"), 0, 0, 0)).unwrap();
    }))) };
    let a2 = MemcStore::new(Arc::new(b2));
    a2.append(c.clone(), Record::new(Bytes::from("A"), 0, 0, 0)).unwrap();
    let v = inner.get(&c).unwrap();
    println!("C04 append/append: final value has {} bytes (xBA or xAB would be 3)", v.len() - std::mem::size_of::<CacheMetaData>());
    assert!(ra.is_err(), "two adds of an absent key both succeeded");
}
